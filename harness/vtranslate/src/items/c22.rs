//! C22 translator item `spn-ops`: the arms, operators, tuple orders and call orders of
//! `Entry::generate_spn`, the Spn plugin, the spn string form, the plugin registration, the
//! revive path and `danger_domain_rename` that `KanidmModel/Spn.lean` is parameterised by.
//! An unrecognised shape is an error.
use crate::util::*;
use quote::ToTokens;
use syn::visit::Visit;
use syn::{BinOp, Expr, Stmt};

pub fn run(item: &str, repo: &str, out: &str) -> Option<Result<String, String>> {
    match item {
        "spn-ops" => Some(spn_ops(repo, out)),
        _ => None,
    }
}

fn squash<T: ToTokens>(t: &T) -> String {
    t.to_token_stream().to_string().chars().filter(|c| !c.is_whitespace()).collect()
}

fn strip_parens(e: &Expr) -> &Expr {
    match e {
        Expr::Paren(p) => strip_parens(&p.expr),
        Expr::Group(g) => strip_parens(&g.expr),
        _ => e,
    }
}

/// All `ValueSetSpn::new((A.into(), B.into()))` calls of a block, as (A, B).
fn spn_new_pairs<T: ToTokens>(b: &T) -> Result<Vec<(String, String)>, String> {
    struct V(Vec<Result<(String, String), String>>);
    impl<'ast> Visit<'ast> for V {
        fn visit_expr_call(&mut self, c: &'ast syn::ExprCall) {
            if squash(&c.func) == "ValueSetSpn::new" {
                let r = (|| {
                    if c.args.len() != 1 {
                        return Err("ValueSetSpn::new: expected one tuple argument".to_string());
                    }
                    let Expr::Tuple(t) = strip_parens(&c.args[0]) else {
                        return Err(format!("ValueSetSpn::new: argument is not a tuple: {}", squash(&c.args[0])));
                    };
                    if t.elems.len() != 2 {
                        return Err("ValueSetSpn::new: tuple is not a pair".to_string());
                    }
                    let mut v = vec![];
                    for el in t.elems.iter() {
                        match el {
                            Expr::MethodCall(m) if m.method == "into" && m.args.is_empty() => match path_string(&m.receiver) {
                                Some(p) => v.push(p),
                                None => return Err(format!("ValueSetSpn::new: unrecognised element {}", squash(el))),
                            },
                            _ => return Err(format!("ValueSetSpn::new: unrecognised element {}", squash(el))),
                        }
                    }
                    Ok((v[0].clone(), v[1].clone()))
                })();
                self.0.push(r);
            }
            syn::visit::visit_expr_call(self, c);
        }
    }
    // parse the token stream back as an expression/block so that one visitor handles both
    let mut v = V(vec![]);
    let ts = b.to_token_stream();
    if let Ok(bl) = syn::parse2::<syn::Block>(ts.clone()) {
        v.visit_block(&bl);
    } else if let Ok(ex) = syn::parse2::<Expr>(ts) {
        v.visit_expr(&ex);
    } else {
        return Err("cannot re-parse fragment".into());
    }
    v.0.into_iter().collect()
}

fn lean_pair(p: &(String, String)) -> Result<String, String> {
    for x in [&p.0, &p.1] {
        if x != "name" && x != "domain_name" {
            return Err(format!("generate_spn: spn built from unexpected variable `{x}`"));
        }
    }
    Ok(format!("({}, {})", p.0, p.1))
}

struct GenSpn {
    name_pair: String,
    stash_pair: String,
    reads_name: bool,
    name_first: bool,
    keep_eq: bool,
}

fn generate_spn(repo: &str) -> Result<GenSpn, String> {
    let ast = parse_file(repo, "server/lib/src/entry.rs")?;
    let f = find_fn(&ast, "generate_spn")?;
    let sig = squash(&f.sig);
    if !sig.contains("domain_name:&str") || !sig.contains("->Option<ValueSet>") {
        return Err(format!("generate_spn: unexpected signature {sig}"));
    }
    let mut name_arm: Option<(usize, String, String)> = None; // (stmt index, attribute, pair)
    let mut spn_let: Option<usize> = None;
    let mut chain: Option<(usize, &syn::ExprIf)> = None;
    for (i, st) in f.block.stmts.iter().enumerate() {
        match st {
            Stmt::Expr(Expr::If(ifx), _) => {
                if let Expr::Let(l) = &*ifx.cond {
                    let rhs = squash(&l.expr);
                    if squash(&l.pat) == "Some(name)" && rhs.starts_with("self.get_ava_single_iname(Attribute::") {
                        let attr = rhs.trim_start_matches("self.get_ava_single_iname(").trim_end_matches(')').to_string();
                        let body = squash(&ifx.then_branch);
                        if !body.starts_with("{returnSome(ValueSetSpn::new(") || ifx.else_branch.is_some() {
                            return Err(format!("generate_spn: name arm does not return the new spn: {body}"));
                        }
                        let pairs = spn_new_pairs(&ifx.then_branch)?;
                        if pairs.len() != 1 {
                            return Err("generate_spn: name arm builds more than one spn".into());
                        }
                        if name_arm.is_some() {
                            return Err("generate_spn: two name arms".into());
                        }
                        name_arm = Some((i, attr, lean_pair(&pairs[0])?));
                        continue;
                    }
                }
                if chain.is_some() {
                    return Err("generate_spn: more than one trailing if-chain".into());
                }
                chain = Some((i, ifx));
            }
            Stmt::Local(l) => {
                let s = squash(l);
                if s == "letspn_set=self.get_ava_set(Attribute::Spn)?;" {
                    spn_let = Some(i);
                } else {
                    return Err(format!("generate_spn: unexpected statement {s}"));
                }
            }
            other => return Err(format!("generate_spn: unexpected statement {}", squash(other))),
        }
    }
    let (ni, attr, name_pair) = name_arm.ok_or("generate_spn: name arm not found")?;
    let si = spn_let.ok_or("generate_spn: `let spn_set = self.get_ava_set(Attribute::Spn)?` not found")?;
    let (ci, ifx) = chain.ok_or("generate_spn: keep/stash if-chain not found")?;
    if !(si < ci) {
        return Err("generate_spn: the if-chain precedes the spn read".into());
    }
    // keep arm
    let keep_eq = match strip_parens(&ifx.cond) {
        Expr::Binary(b) => {
            let (l, r) = (squash(&b.left), squash(&b.right));
            if l != "spn_set.syntax()" || r != "SyntaxType::SecurityPrincipalName" {
                return Err(format!("generate_spn: keep arm tests `{l}` against `{r}`"));
            }
            match b.op {
                BinOp::Eq(_) => true,
                BinOp::Ne(_) => false,
                _ => return Err("generate_spn: keep arm operator is neither == nor !=".into()),
            }
        }
        other => return Err(format!("generate_spn: keep arm condition `{}`", squash(other))),
    };
    if squash(&ifx.then_branch) != "{Some(spn_set.clone())}" {
        return Err(format!("generate_spn: keep arm returns {}", squash(&ifx.then_branch)));
    }
    // stash arm + final None
    let Some((_, els)) = &ifx.else_branch else { return Err("generate_spn: no stash arm".into()) };
    let Expr::If(stash) = &**els else { return Err("generate_spn: stash arm is not an else-if".into()) };
    let Expr::Let(sl) = &*stash.cond else { return Err("generate_spn: stash arm is not an if-let".into()) };
    if squash(&sl.pat) != "Some(name)" || squash(&sl.expr) != "spn_set.to_iname_single()" {
        return Err(format!("generate_spn: stash arm condition `{}`", squash(&stash.cond)));
    }
    let sp = spn_new_pairs(&stash.then_branch)?;
    if sp.len() != 1 || !squash(&stash.then_branch).starts_with("{Some(ValueSetSpn::new(") {
        return Err("generate_spn: stash arm does not build one spn".into());
    }
    let stash_pair = lean_pair(&sp[0])?;
    match &stash.else_branch {
        Some((_, e)) if squash(e) == "{None}" => {}
        _ => return Err("generate_spn: final arm is not `None`".into()),
    }
    Ok(GenSpn { name_pair, stash_pair, reads_name: attr == "Attribute::Name", name_first: ni < si, keep_eq })
}

/// `format!("{n}@{d}")` inside `self.set.iter().map(|(n, d)| …)` → Lean over `List Char`.
fn render(repo: &str) -> Result<String, String> {
    let ast = parse_file(repo, "server/lib/src/valueset/spn.rs")?;
    let f = find_fn(&ast, "ValueSetSpn::to_proto_string_clone_iter")?;
    let s = squash(&f.block);
    let pre = "{Box::new(self.set.iter().map(|(n,d)|format!(\"";
    let post = "\")))}";
    if !s.starts_with(pre) || !s.ends_with(post) {
        return Err(format!("to_proto_string_clone_iter: unexpected body {s}"));
    }
    let fmt = &s[pre.len()..s.len() - post.len()];
    let mut parts: Vec<String> = vec![];
    let mut lit = String::new();
    let mut chars = fmt.chars().peekable();
    while let Some(c) = chars.next() {
        if c == '{' {
            if !lit.is_empty() {
                parts.push(format!("[{}]", lit.chars().map(|c| format!("'{c}'")).collect::<Vec<_>>().join(", ")));
                lit.clear();
            }
            let mut var = String::new();
            for d in chars.by_ref() {
                if d == '}' {
                    break;
                }
                var.push(d);
            }
            if var != "n" && var != "d" {
                return Err(format!("to_proto_string_clone_iter: placeholder {{{var}}}"));
            }
            parts.push(var);
        } else if c == '\\' || c == '\'' || c == '"' {
            return Err("to_proto_string_clone_iter: escape in format string".into());
        } else {
            lit.push(c);
        }
    }
    if !lit.is_empty() {
        parts.push(format!("[{}]", lit.chars().map(|c| format!("'{c}'")).collect::<Vec<_>>().join(", ")));
    }
    if parts.is_empty() {
        return Err("to_proto_string_clone_iter: empty format".into());
    }
    Ok(parts.join(" ++ "))
}

/// A boolean combination of known leaves, rendered as Lean.
fn bool_tree(e: &Expr, leaf: &dyn Fn(&Expr) -> Option<String>) -> Result<String, String> {
    let e = strip_parens(e);
    if let Some(l) = leaf(e) {
        return Ok(l);
    }
    match e {
        Expr::Binary(b) => {
            let op = match b.op {
                BinOp::Or(_) => "||",
                BinOp::And(_) => "&&",
                _ => return Err(format!("unexpected operator in `{}`", squash(e))),
            };
            Ok(format!("({} {op} {})", bool_tree(&b.left, leaf)?, bool_tree(&b.right, leaf)?))
        }
        Expr::Unary(u) if matches!(u.op, syn::UnOp::Not(_)) => Ok(format!("(!{})", bool_tree(&u.expr, leaf)?)),
        _ => Err(format!("unrecognised condition `{}`", squash(e))),
    }
}

fn first_if_cond(block: &syn::Block, what: &str) -> Result<Expr, String> {
    let conds = if_conditions(block);
    match conds.len() {
        1 => Ok(conds[0].clone()),
        n => Err(format!("{what}: expected exactly one `if`, found {n}")),
    }
}

fn spn_ops(repo: &str, out: &str) -> Result<String, String> {
    let g = generate_spn(repo)?;
    let render_body = render(repo)?;
    // ---- plugins/spn.rs
    let ast = parse_file(repo, "server/lib/src/plugins/spn.rs")?;
    let mi = find_fn(&ast, "Spn::modify_inner")?;
    let mi_s = squash(&mi.block);
    let guard = first_if_cond(&mi.block, "Spn::modify_inner")?;
    let managed = bool_tree(&guard, &|e| match squash(e).as_str() {
        "ent.attribute_equality(Attribute::Class,&EntryClass::Group.into())" => Some("isGroup".into()),
        "ent.attribute_equality(Attribute::Class,&EntryClass::Account.into())" => Some("isAccount".into()),
        _ => None,
    })
    .map_err(|e| format!("Spn::modify_inner: {e}"))?;
    if !mi_s.contains("letdomain_name=qs.get_domain_name();") || !mi_s.contains(".generate_spn(domain_name)") {
        return Err("Spn::modify_inner: the spn is no longer generated from qs.get_domain_name()".into());
    }
    if !mi_s.contains("forentincand.iter_mut()") {
        return Err("Spn::modify_inner: candidate loop not found".into());
    }
    let fail_on_none = if mi_s.contains(".ok_or(OperationError::InvalidEntryState)") && mi_s.contains("})?;") {
        true
    } else {
        return Err("Spn::modify_inner: handling of an ungeneratable spn not recognised".into());
    };
    let write_replaces = if mi_s.contains("ent.set_ava_set(&Attribute::Spn,spn_valueset);") {
        true
    } else if mi_s.contains("ent.merge_ava_set(&Attribute::Spn,spn_valueset)") {
        false
    } else {
        return Err("Spn::modify_inner: write of the generated spn not recognised".into());
    };
    let pmi = find_fn(&ast, "Spn::post_modify_inner")?;
    let pmi_s = squash(&pmi.block);
    if !pmi_s.contains("cand.iter().zip(pre_cand.iter()).find_map(|(post,pre)|{letdomain_name=post.get_ava_single(Attribute::DomainName);") {
        return Err("Spn::post_modify_inner: change detection over (post, pre) not recognised".into());
    }
    if !pmi_s.contains("{domain_name}else{None}") || !pmi_s.contains("letSome(domain_name)=domain_name_changedelse{returnOk(());};") {
        return Err("Spn::post_modify_inner: result of the change detection not recognised".into());
    }
    let trig = first_if_cond(&pmi.block, "Spn::post_modify_inner")?;
    let domain_changed = bool_tree(&trig, &|e| {
        if squash(e) == "post.attribute_equality(Attribute::Uuid,&PVUUID_DOMAIN_INFO)" {
            return Some("isDomainInfo".into());
        }
        if let Expr::Binary(b) = e {
            let (l, r) = (squash(&b.left), squash(&b.right));
            let sides_ok = (l == "domain_name" && r == "pre.get_ava_single(Attribute::DomainName)")
                || (r == "domain_name" && l == "pre.get_ava_single(Attribute::DomainName)");
            if sides_ok {
                return match b.op {
                    BinOp::Ne(_) => Some("nameDiffers".into()),
                    BinOp::Eq(_) => Some("(!nameDiffers)".into()),
                    _ => None,
                };
            }
        }
        None
    })
    .map_err(|e| format!("Spn::post_modify_inner: {e}"))?;
    let regen = "qs.internal_modify(&filter!(f_pres(Attribute::Spn)),&modlist!([m_purge(Attribute::Spn)]),)";
    let regen_pos = pmi_s.find(regen).ok_or("Spn::post_modify_inner: regenerating modify not recognised")?;
    if !pmi_s.ends_with(&format!("{regen}}}")) {
        return Err("Spn::post_modify_inner: the regenerating modify is not the function's result".into());
    }
    let reload_before = match pmi_s.find("qs.reload_domain_info()?;") {
        Some(p) => p < regen_pos,
        None => false,
    };
    let mut hooks = true;
    for (hook, call) in [
        ("pre_create_transform", "{Self::modify_inner(qs,cand)}"),
        ("pre_modify", "{Self::modify_inner(qs,cand)}"),
        ("pre_batch_modify", "{Self::modify_inner(qs,cand)}"),
        ("post_modify", "{Self::post_modify_inner(qs,pre_cand,cand)}"),
        ("post_batch_modify", "{Self::post_modify_inner(qs,pre_cand,cand)}"),
        ("post_repl_incremental", "{Self::post_modify_inner(qs,pre_cand,cand)}"),
    ] {
        match find_fn(&ast, &format!("Plugin@Spn::{hook}")) {
            Ok(f) => hooks &= squash(&f.block) == call,
            Err(_) => hooks = false,
        }
    }
    // ---- plugins/mod.rs
    let mods = parse_file(repo, "server/lib/src/plugins/mod.rs")?;
    let mut registered = true;
    for (func, hook, pre) in [
        ("Plugins::run_pre_create_transform", "pre_create_transform", true),
        ("Plugins::run_pre_modify", "pre_modify", true),
        ("Plugins::run_pre_batch_modify", "pre_batch_modify", true),
        ("Plugins::run_post_modify", "post_modify", false),
        ("Plugins::run_post_batch_modify", "post_batch_modify", false),
        ("Plugins::run_post_repl_incremental", "post_repl_incremental", false),
    ] {
        let body = squash(&find_fn(&mods, func)?.block);
        match body.find(&format!("spn::Spn::{hook}(qs,")) {
            None => registered = false,
            Some(p) => {
                if pre {
                    let a = body
                        .find(&format!("attrunique::AttrUnique::{hook}(qs,"))
                        .ok_or(format!("{func}: attrunique::AttrUnique::{hook} not called"))?;
                    if !(p < a) {
                        return Err(format!("{func}: attrunique no longer runs after spn (the model checks uniqueness on the generated spn)"));
                    }
                    let d = body.find(&format!("domain::Domain::{hook}(qs,")).ok_or(format!("{func}: domain::Domain::{hook} not called"))?;
                    if !(d < p) {
                        return Err(format!("{func}: domain no longer runs before spn"));
                    }
                }
            }
        }
    }
    // ---- server/recycle.rs
    let rec = parse_file(repo, "server/lib/src/server/recycle.rs")?;
    let rv = squash(&find_fn(&rec, "QueryServerWriteTransaction::revive_recycled")?.block);
    let apply = rv.find("self.modify_apply(mp)?;").ok_or("revive_recycled: modify_apply not found")?;
    if !rv.contains(".map(|er|er.to_revived())") {
        return Err("revive_recycled: to_revived not found".into());
    }
    let revive_pre = match rv.find("Plugins::run_pre_modify(self,&pre_candidates,&mutcandidates,&me)") {
        Some(p) => p < apply,
        None => false,
    };
    // ---- server/mod.rs
    let srv = parse_file(repo, "server/lib/src/server/mod.rs")?;
    let ddr = squash(&find_fn(&srv, "QueryServerWriteTransaction::danger_domain_rename")?.block);
    let want = "{letmodl=ModifyList::new_purge_and_set(Attribute::DomainName,Value::new_iname(new_domain_name));\
letudi=PVUUID_DOMAIN_INFO.clone();letfilt=filter_all!(f_eq(Attribute::Uuid,udi));self.internal_modify(&filt,&modl)}";
    if ddr != want {
        return Err(format!("danger_domain_rename: unexpected body {ddr}"));
    }
    let rdi = squash(&find_fn(&srv, "QueryServerWriteTransaction::reload_domain_info")?.block);
    if !rdi.contains("letdomain_entry=self.get_db_domain()?;")
        || !rdi.contains("domain_entry.get_ava_single_iname(Attribute::DomainName)")
        || !rdi.contains("ifmut_d_info.d_name!=domain_name{")
        || !rdi.contains("mut_d_info.d_name=domain_name;")
    {
        return Err("reload_domain_info: no longer copies domain_info.domain_name into d_info.d_name".into());
    }
    let b = |x: bool| if x { "true" } else { "false" };
    let body = format!(
        "namespace Kanidm.Gen.SpnOps\n\
/-- Entry::generate_spn, name arm: `ValueSetSpn::new((name.into(), domain_name.into()))` -/\n\
def namePair {{α : Type}} (name domain_name : α) : α × α := {np}\n\
/-- Entry::generate_spn, stashed-iname arm: `ValueSetSpn::new((name.into(), domain_name.into()))` -/\n\
def stashPair {{α : Type}} (name domain_name : α) : α × α := {sp}\n\
/-- Entry::generate_spn: the name arm reads `self.get_ava_single_iname(Attribute::Name)` -/\n\
def nameArmReadsName : Bool := {rn}\n\
/-- Entry::generate_spn: the name arm returns before the stored spn is looked at -/\n\
def nameArmFirst : Bool := {nf}\n\
/-- Entry::generate_spn, keep arm: `spn_set.syntax() == SyntaxType::SecurityPrincipalName` -/\n\
def keepArmWhenSpnSyntax : Bool := {ke}\n\
/-- ValueSetSpn::to_proto_string_clone_iter: `format!(\"{{n}}@{{d}}\")` -/\n\
def render (n d : List Char) : List Char := {render}\n\
/-- Spn::modify_inner class guard: `ent.attribute_equality(Class, Group) || ent.attribute_equality(Class, Account)` -/\n\
def managed (isGroup isAccount : Bool) : Bool := {managed}\n\
/-- Spn::modify_inner: `.generate_spn(domain_name).ok_or(OperationError::InvalidEntryState)...?` -/\n\
def failOnUngeneratable : Bool := {fail}\n\
/-- Spn::modify_inner: `ent.set_ava_set(&Attribute::Spn, spn_valueset)` replaces the attribute -/\n\
def writeReplaces : Bool := {wr}\n\
/-- Spn::post_modify_inner trigger: `post.attribute_equality(Uuid, PVUUID_DOMAIN_INFO) && domain_name != pre.get_ava_single(DomainName)` -/\n\
def domainChanged (isDomainInfo nameDiffers : Bool) : Bool := {dc}\n\
/-- Spn::post_modify_inner: `qs.reload_domain_info()?` precedes the regenerating modify -/\n\
def reloadBeforeRegen : Bool := {rb}\n\
/-- Spn::post_modify_inner: `qs.internal_modify(&filter!(f_pres(Attribute::Spn)), &modlist!([m_purge(Attribute::Spn)]))` -/\n\
def regenPurgesAllSpnHolders : Bool := true\n\
/-- impl Plugin for Spn: pre_create_transform / pre_modify / pre_batch_modify call modify_inner,\n\
post_modify / post_batch_modify / post_repl_incremental call post_modify_inner -/\n\
def hooksWired : Bool := {hooks}\n\
/-- plugins/mod.rs: spn::Spn is called by run_pre_create_transform, run_pre_modify, run_pre_batch_modify,\n\
run_post_modify, run_post_batch_modify, run_post_repl_incremental -/\n\
def pluginRegistered : Bool := {reg}\n\
/-- server/recycle.rs revive_recycled: `Plugins::run_pre_modify(self, &pre_candidates, &mut candidates, &me)` before validation -/\n\
def reviveRunsPreModify : Bool := {rev}\n\
/-- server/mod.rs danger_domain_rename: `ModifyList::new_purge_and_set(Attribute::DomainName, Value::new_iname(new_domain_name))`\n\
applied to `PVUUID_DOMAIN_INFO` through `self.internal_modify` -/\n\
def domainRenameSetsDomainName : Bool := true\n\
end Kanidm.Gen.SpnOps\n",
        np = g.name_pair,
        sp = g.stash_pair,
        rn = b(g.reads_name),
        nf = b(g.name_first),
        ke = b(g.keep_eq),
        render = render_body,
        managed = managed,
        fail = b(fail_on_none),
        wr = b(write_replaces),
        dc = domain_changed,
        rb = b(reload_before),
        hooks = b(hooks),
        reg = b(registered),
        rev = b(revive_pre),
    );
    write_generated(
        out,
        "SpnOps",
        "server/lib/src/plugins/spn.rs + server/lib/src/entry.rs + server/lib/src/valueset/spn.rs + server/lib/src/plugins/mod.rs + server/lib/src/server/mod.rs + server/lib/src/server/recycle.rs",
        &body,
    )?;
    Ok(format!(
        "SpnOps: name pair {}, stash pair {}, name first {}, keep {}, render `{}`, managed `{}`, trigger `{}`, reload first {}, hooks {}, registered {}, revive pre-modify {}",
        g.name_pair, g.stash_pair, g.name_first, g.keep_eq, render_body, managed, domain_changed, reload_before, hooks, registered, revive_pre
    ))
}
