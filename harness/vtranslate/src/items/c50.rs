//! C50 translator item `sync-scope`.
//!
//! Regenerates `KanidmModel/Generated/SyncScopeOps.lean` from
//!  * `server/lib/src/constants/uuids.rs`: `DYNAMIC_RANGE_MINIMUM_UUID`;
//!  * `server/lib/src/idm/scim.rs`
//!     - `scim_sync_apply`: the phase calls in source order, each under `?`, the refresh clean-up
//!       the only guarded one (`if sync_refresh`);
//!     - `scim_sync_apply_phase_1`: per `IdentType` / `AccessScope` arm whether it returns
//!       `AccessDenied`, the cookie comparison that returns `InvalidSyncState`;
//!     - `scim_sync_apply_phase_2`: the range comparison against `DYNAMIC_RANGE_MINIMUM_UUID` (and
//!       that it returns `InvalidEntryState`), the order masked refusal < range refusal <
//!       `internal_create` < `internal_batch_modify`, the stub of `entry_init!` (classes, the
//!       attribute holding `Value::Refer(sync_uuid)`), the external-id modlist (`Assert` first);
//!     - `scim_entry_to_mod`: the first pushed modification (`Assert` on the parent), the attributes
//!       a requested class is `Present` in, the rejection of attributes outside `sync_owned_attrs`,
//!       the phantom exemption of the purge;
//!     - `scim_sync_apply_phase_3`: the three filter conditions over the schema;
//!     - `scim_sync_apply_phase_refresh_cleanup` / `scim_sync_apply_phase_4`: every `filter!` is an
//!       `f_and` whose first term is `f_eq(SyncParentUuid, Refer(sync_uuid))`; the ownership
//!       comparison of the `Delete` arm and the masked test before it;
//!  * `server/lib/src/plugins/cred_import.rs` `CredImport::modify_inner`: popped import attribute ↦
//!    attribute set.
//! Anything not recognised is an error, never a guess.
use crate::util::*;
use quote::ToTokens;
use syn::visit::Visit;

pub fn run(item: &str, repo: &str, out: &str) -> Option<Result<String, String>> {
    match item {
        "sync-scope" => Some(sync_scope(repo, out)),
        _ => None,
    }
}

fn toks<T: ToTokens>(t: &T) -> String {
    t.to_token_stream().to_string()
}

/// token string without whitespace
fn nsp<T: ToTokens>(t: &T) -> String {
    toks(t).chars().filter(|c| !c.is_whitespace()).collect()
}

fn uuid_const(file: &syn::File, name: &str) -> Result<u128, String> {
    let e = find_const(file, name).ok_or_else(|| format!("const {name} not found"))?;
    let m = match &e {
        syn::Expr::Macro(m) if m.mac.path.is_ident("uuid") => m,
        o => return Err(format!("const {name} is not uuid!(..): {}", toks(o))),
    };
    let lit: syn::LitStr = syn::parse2(m.mac.tokens.clone()).map_err(|e| format!("{name}: {e}"))?;
    let hex: String = lit.value().chars().filter(|c| *c != '-').collect();
    if hex.len() != 32 {
        return Err(format!("{name}: bad uuid literal {}", lit.value()));
    }
    u128::from_str_radix(&hex, 16).map_err(|e| format!("{name}: {e}"))
}

fn all_matches(b: &syn::Block) -> Vec<syn::ExprMatch> {
    struct V(Vec<syn::ExprMatch>);
    impl<'ast> Visit<'ast> for V {
        fn visit_expr_match(&mut self, i: &'ast syn::ExprMatch) {
            self.0.push(i.clone());
            syn::visit::visit_expr_match(self, i);
        }
    }
    let mut v = V(vec![]);
    v.visit_block(b);
    v.0
}

fn all_ifs(b: &syn::Block) -> Vec<syn::ExprIf> {
    struct V(Vec<syn::ExprIf>);
    impl<'ast> Visit<'ast> for V {
        fn visit_expr_if(&mut self, i: &'ast syn::ExprIf) {
            self.0.push(i.clone());
            syn::visit::visit_expr_if(self, i);
        }
    }
    let mut v = V(vec![]);
    v.visit_block(b);
    v.0
}

fn all_binaries(b: &syn::Block) -> Vec<syn::ExprBinary> {
    struct V(Vec<syn::ExprBinary>);
    impl<'ast> Visit<'ast> for V {
        fn visit_expr_binary(&mut self, i: &'ast syn::ExprBinary) {
            self.0.push(i.clone());
            syn::visit::visit_expr_binary(self, i);
        }
    }
    let mut v = V(vec![]);
    v.visit_block(b);
    v.0
}

fn all_macros(b: &syn::Block, name: &str) -> Vec<syn::Macro> {
    struct V<'a>(&'a str, Vec<syn::Macro>);
    impl<'a, 'ast> Visit<'ast> for V<'a> {
        fn visit_macro(&mut self, m: &'ast syn::Macro) {
            if m.path.is_ident(self.0) {
                self.1.push(m.clone());
            }
            syn::visit::visit_macro(self, m);
        }
    }
    let mut v = V(name, vec![]);
    v.visit_block(b);
    v.1
}

fn cmp_lean(op: &syn::BinOp, l: &str, r: &str) -> Result<String, String> {
    use syn::BinOp;
    Ok(match op {
        BinOp::Lt(_) => format!("decide ({l} < {r})"),
        BinOp::Le(_) => format!("decide ({l} ≤ {r})"),
        BinOp::Gt(_) => format!("decide ({l} > {r})"),
        BinOp::Ge(_) => format!("decide ({l} ≥ {r})"),
        BinOp::Eq(_) => format!("decide ({l} = {r})"),
        BinOp::Ne(_) => format!("decide ({l} ≠ {r})"),
        o => return Err(format!("unsupported comparison operator `{}`", toks(o))),
    })
}

fn pat_cases(p: &syn::Pat) -> Vec<&syn::Pat> {
    match p {
        syn::Pat::Or(o) => o.cases.iter().flat_map(pat_cases).collect(),
        syn::Pat::Paren(p) => pat_cases(&p.pat),
        syn::Pat::Reference(r) => pat_cases(&r.pat),
        o => vec![o],
    }
}

fn pat_variant(p: &syn::Pat, ty: &str) -> Result<String, String> {
    let path = match p {
        syn::Pat::TupleStruct(t) => &t.path,
        syn::Pat::Path(p) => &p.path,
        syn::Pat::Struct(s) => &s.path,
        syn::Pat::Ident(i) => return Err(format!("binding pattern `{}` where a {ty} variant is expected", i.ident)),
        o => return Err(format!("unrecognised {ty} pattern `{}`", toks(o))),
    };
    let segs: Vec<String> = path.segments.iter().map(|s| s.ident.to_string()).collect();
    if segs.len() == 2 && segs[0] == ty {
        Ok(segs[1].clone())
    } else {
        Err(format!("unrecognised {ty} pattern path `{}`", segs.join("::")))
    }
}

/// For a `match` over an enum: variant ↦ does the arm body contain `return Err(OperationError::<err>)`?
fn denied_table(m: &syn::ExprMatch, ty: &str, variants: &[&str], err: &str, what: &str) -> Result<Vec<bool>, String> {
    let mut table: Vec<Option<bool>> = vec![None; variants.len()];
    let needle = format!("returnErr(OperationError::{err})");
    for arm in &m.arms {
        if arm.guard.is_some() {
            return Err(format!("{what}: guarded arm"));
        }
        let body = nsp(&arm.body);
        let denies = body.contains(&needle);
        if body.contains("returnErr(") && !denies {
            return Err(format!("{what}: an arm returns another error: `{}`", toks(&arm.body)));
        }
        for p in pat_cases(&arm.pat) {
            let v = pat_variant(p, ty).map_err(|e| format!("{what}: {e}"))?;
            let i = variants.iter().position(|x| *x == v).ok_or_else(|| format!("{what}: unknown variant {ty}::{v}"))?;
            if table[i].is_some() {
                return Err(format!("{what}: variant {v} matched twice"));
            }
            table[i] = Some(denies);
        }
    }
    table.into_iter().enumerate().map(|(i, t)| t.ok_or_else(|| format!("{what}: variant {} not matched", variants[i]))).collect()
}

fn bool_table(name: &str, doc: &str, t: &[bool]) -> String {
    let mut s = format!("/-- {doc} -/\ndef {name} : Nat → Bool\n");
    // the last variant is the wildcard row
    for (i, b) in t.iter().enumerate() {
        if i + 1 == t.len() {
            s.push_str(&format!("  | _ => {b}\n"));
        } else {
            s.push_str(&format!("  | {i} => {b}\n"));
        }
    }
    s
}

/// `Attribute::X` ↦ `A.X`
fn attr_atom(s: &str) -> Result<String, String> {
    let t: String = s.chars().filter(|c| !c.is_whitespace()).collect();
    let t = t.trim_start_matches('&');
    match t.strip_prefix("Attribute::") {
        Some(v) if v.chars().all(|c| c.is_alphanumeric()) => Ok(format!("A.{v}")),
        _ => Err(format!("not an `Attribute::X` path: `{s}`")),
    }
}

/// boolean combination over the three leaves phase 3 reads
fn cond_lean(e: &syn::Expr) -> Result<String, String> {
    match nsp(e).as_str() {
        "attr.sync_allowed" => return Ok("syncAllowed".into()),
        "attr.phantom" => return Ok("phantom".into()),
        "sync_authority_set.contains(&attr.name)" => return Ok("yielded".into()),
        _ => {}
    }
    match e {
        syn::Expr::Paren(p) => Ok(format!("({})", cond_lean(&p.expr)?)),
        syn::Expr::Unary(u) if matches!(u.op, syn::UnOp::Not(_)) => Ok(format!("(!{})", cond_lean(&u.expr)?)),
        syn::Expr::Binary(b) => {
            let (l, r) = (cond_lean(&b.left)?, cond_lean(&b.right)?);
            match b.op {
                syn::BinOp::And(_) => Ok(format!("({l} && {r})")),
                syn::BinOp::Or(_) => Ok(format!("({l} || {r})")),
                _ => Err(format!("unsupported operator in `{}`", toks(e))),
            }
        }
        o => Err(format!("unrecognised condition `{}`", toks(o))),
    }
}

fn parse_tuple_list(tokens: proc_macro2::TokenStream) -> Result<Vec<syn::Expr>, String> {
    use syn::parse::Parser;
    let p = syn::punctuated::Punctuated::<syn::Expr, syn::Token![,]>::parse_terminated;
    p.parse2(tokens).map(|l| l.into_iter().collect()).map_err(|e| e.to_string())
}

fn sync_scope(repo: &str, out: &str) -> Result<String, String> {
    let uuids = parse_file(repo, "server/lib/src/constants/uuids.rs")?;
    let dyn_min = uuid_const(&uuids, "DYNAMIC_RANGE_MINIMUM_UUID")?;
    let scim = parse_file(repo, "server/lib/src/idm/scim.rs")?;
    let mut g = String::new();
    g.push_str("namespace Kanidm.Gen.SyncScope\nopen Kanidm.Gen.Access\n");
    g.push_str(&format!("/-- `DYNAMIC_RANGE_MINIMUM_UUID` (constants/uuids.rs) as a 128-bit number -/\ndef dynamicRangeMinimum : Nat := {dyn_min}\n"));

    // ---- phase 1
    let p1 = find_fn(&scim, "scim_sync_apply_phase_1")?;
    let ms = all_matches(&p1.block);
    let m_origin = ms.iter().find(|m| nsp(&m.expr) == "&sse.ident.origin").ok_or("phase_1: no `match &sse.ident.origin`")?;
    let t = denied_table(m_origin, "IdentType", &["User", "Internal", "Synch"], "AccessDenied", "phase_1 origin match")?;
    g.push_str(&bool_table(
        "phase1OriginDenied",
        "`scim_sync_apply_phase_1`: does this `IdentType` arm return `AccessDenied`? (0 User, 1 Internal, 2 Synch)",
        &t,
    ));
    let m_scope = ms.iter().find(|m| nsp(&m.expr) == "sse.ident.access_scope()").ok_or("phase_1: no `match sse.ident.access_scope()`")?;
    let t = denied_table(m_scope, "AccessScope", &["ReadOnly", "ReadWrite", "Synchronise"], "AccessDenied", "phase_1 scope match")?;
    g.push_str(&bool_table(
        "phase1ScopeDenied",
        "`scim_sync_apply_phase_1`: does this `AccessScope` arm return `AccessDenied`? (0 ReadOnly, 1 ReadWrite, 2 Synchronise)",
        &t,
    ));
    // the origin check precedes the entry lookup and the state match
    {
        let b = nsp(&p1.block);
        let a = b.find("match&sse.ident.origin").ok_or("phase_1: origin match not found")?;
        let s = b.find("matchsse.ident.access_scope()").ok_or("phase_1: scope match not found")?;
        let l = b.find("internal_search_uuid(sync_uuid)").ok_or("phase_1: no internal_search_uuid(sync_uuid)")?;
        if !(a < s && s < l) {
            return Err("phase_1: identity / scope checks do not precede the agreement lookup".into());
        }
    }
    let m_state = ms
        .iter()
        .find(|m| nsp(&m.expr).starts_with("(&changes.from_state,sync_entry.get_ava_single_private_binary(Attribute::SyncCookie)"))
        .ok_or("phase_1: no match on (from_state, sync_cookie)")?;
    if m_state.arms.len() != 3 {
        return Err(format!("phase_1: state match has {} arms, expected 3", m_state.arms.len()));
    }
    {
        let pats: Vec<String> = m_state.arms.iter().map(|a| nsp(&a.pat)).collect();
        if pats[0] != "(ScimSyncState::Refresh,_)" || pats[1] != "(ScimSyncState::Active{cookie},Some(sync_cookie))" || pats[2] != "(ScimSyncState::Active{cookie:_},None)" {
            return Err(format!("phase_1: state match arms not recognised: {pats:?}"));
        }
        if nsp(&m_state.arms[0].body).contains("return") {
            return Err("phase_1: the Refresh arm returns".into());
        }
        if !nsp(&m_state.arms[2].body).contains("returnErr(OperationError::InvalidSyncState)") {
            return Err("phase_1: the (Active, None) arm does not return InvalidSyncState".into());
        }
        let ifs = match &*m_state.arms[1].body {
            syn::Expr::Block(b) => all_ifs(&b.block),
            o => return Err(format!("phase_1: cookie arm is not a block: `{}`", toks(o))),
        };
        let i = ifs.first().ok_or("phase_1: cookie arm has no if")?;
        let bin = match &*i.cond {
            syn::Expr::Binary(b) => b,
            o => return Err(format!("phase_1: cookie condition is not a comparison: `{}`", toks(o))),
        };
        if nsp(&bin.left) != "cookie" || nsp(&bin.right) != "sync_cookie" {
            return Err(format!("phase_1: cookie condition compares `{}` and `{}`", toks(&bin.left), toks(&bin.right)));
        }
        if !nsp(&i.then_branch).contains("returnErr(OperationError::InvalidSyncState)") {
            return Err("phase_1: cookie condition's then-branch does not return InvalidSyncState".into());
        }
        if i.else_branch.as_ref().map(|(_, e)| nsp(e).contains("return")).unwrap_or(false) {
            return Err("phase_1: cookie condition's else-branch returns".into());
        }
        g.push_str(&format!(
            "/-- `scim_sync_apply_phase_1`: `{}` returns `InvalidSyncState` -/\ndef phase1CookieMismatch (cookie syncCookie : Nat) : Bool := {}\n",
            toks(&i.cond).replace(" ", "").replace("!=", " != ").replace("==", " == "),
            cmp_lean(&bin.op, "cookie", "syncCookie")?
        ));
    }

    // ---- scim_sync_apply: phase order
    let ap = find_fn(&scim, "scim_sync_apply")?;
    {
        let mut order: Vec<u32> = vec![];
        let mut guard_ok = true;
        let mut guarded = 0;
        let code = |name: &str| -> Option<u32> {
            match name {
                "scim_sync_apply_phase_1" => Some(1),
                "scim_sync_apply_phase_2" => Some(2),
                "scim_sync_apply_phase_3" => Some(3),
                "scim_sync_apply_phase_4" => Some(4),
                "scim_sync_apply_phase_5" => Some(5),
                "scim_sync_apply_phase_refresh_cleanup" => Some(6),
                _ => None,
            }
        };
        // a phase call must be `self.<phase>(..)?` as a statement / initialiser
        fn phase_of_try(e: &syn::Expr) -> Option<String> {
            if let syn::Expr::Try(t) = e {
                if let syn::Expr::MethodCall(m) = &*t.expr {
                    if nsp(&m.receiver) == "self" {
                        return Some(m.method.to_string());
                    }
                }
            }
            None
        }
        for s in &ap.block.stmts {
            match s {
                syn::Stmt::Local(l) => {
                    if let Some(init) = &l.init {
                        if let Some(n) = phase_of_try(&init.expr) {
                            order.push(code(&n).ok_or_else(|| format!("scim_sync_apply: unknown call {n}"))?);
                        }
                    }
                }
                syn::Stmt::Expr(e, _) => {
                    if let Some(n) = phase_of_try(e) {
                        order.push(code(&n).ok_or_else(|| format!("scim_sync_apply: unknown call {n}"))?);
                    } else if let syn::Expr::If(i) = e {
                        guarded += 1;
                        if nsp(&i.cond) != "sync_refresh" || i.else_branch.is_some() {
                            guard_ok = false;
                        }
                        for s2 in &i.then_branch.stmts {
                            if let syn::Stmt::Expr(e2, _) = s2 {
                                if let Some(n) = phase_of_try(e2) {
                                    let c = code(&n).ok_or_else(|| format!("scim_sync_apply: unknown call {n}"))?;
                                    if c != 6 {
                                        guard_ok = false;
                                    }
                                    order.push(c);
                                }
                            }
                        }
                    }
                }
                _ => {}
            }
        }
        // every phase method call of the body is one of those found above (none hidden elsewhere)
        let n_calls = nsp(&ap.block).matches("self.scim_sync_apply_phase_").count();
        if n_calls != order.len() {
            return Err(format!("scim_sync_apply: {n_calls} phase calls in the body, {} recognised as `self.phase(..)?` statements", order.len()));
        }
        if guarded != 1 {
            guard_ok = false;
        }
        g.push_str(&format!(
            "/-- `scim_sync_apply`: the phase calls in source order, each propagated with `?` (6 = `scim_sync_apply_phase_refresh_cleanup`) -/\ndef applyPhaseOrder : List Nat := [{}]\n",
            order.iter().map(|x| x.to_string()).collect::<Vec<_>>().join(", ")
        ));
        g.push_str(&format!(
            "/-- `scim_sync_apply`: the refresh clean-up is the only guarded call and its guard is `sync_refresh` -/\ndef refreshCleanupGuard : Bool := {guard_ok}\n"
        ));
    }

    // ---- phase 2
    let p2 = find_fn(&scim, "scim_sync_apply_phase_2")?;
    {
        let bins: Vec<syn::ExprBinary> = all_binaries(&p2.block).into_iter().filter(|b| nsp(&b.right) == "DYNAMIC_RANGE_MINIMUM_UUID" || nsp(&b.left) == "DYNAMIC_RANGE_MINIMUM_UUID").collect();
        if bins.len() != 1 {
            return Err(format!("phase_2: {} comparisons with DYNAMIC_RANGE_MINIMUM_UUID, expected 1", bins.len()));
        }
        let b = &bins[0];
        if nsp(&b.left) != "**u" || nsp(&b.right) != "DYNAMIC_RANGE_MINIMUM_UUID" {
            return Err(format!("phase_2: range comparison not recognised: `{}`", toks(b)));
        }
        g.push_str(&format!(
            "/-- `scim_sync_apply_phase_2`: `{}` on the ids that do not exist yet -/\ndef stubRangeCmp (u dynMin : Nat) : Bool := {}\n",
            nsp(b).replace("<", " < ").replace(">", " > ").replace("=", "= ").replace(" = ", "= "),
            cmp_lean(&b.op, "u", "dynMin")?
        ));
        // top-level statement order
        let mut pos: [Option<usize>; 4] = [None; 4];
        for (i, s) in p2.block.stmts.iter().enumerate() {
            let t = nsp(s);
            if t.starts_with("iffail{") && t.contains("returnErr(OperationError::InvalidEntryState)") {
                pos[0] = Some(i);
            }
            if t.starts_with("ifletSome(u)=missing_scim.keys().find(") && t.contains("DYNAMIC_RANGE_MINIMUM_UUID") {
                if !t.contains("returnErr(OperationError::InvalidEntryState)") {
                    return Err("phase_2: the range refusal does not return InvalidEntryState".into());
                }
                pos[1] = Some(i);
            }
            if t.contains("self.qs_write.internal_create(create_stubs)") {
                if !t.starts_with("if!create_stubs.is_empty(){") || !t.contains("?;") {
                    return Err("phase_2: internal_create(create_stubs) not in the recognised statement".into());
                }
                pos[2] = Some(i);
            }
            if t.starts_with("self.qs_write.internal_batch_modify(") {
                pos[3] = Some(i);
            }
        }
        let mut idx: Vec<(usize, usize)> = vec![];
        for (k, p) in pos.iter().enumerate() {
            idx.push((p.ok_or_else(|| format!("phase_2: statement {k} (0 masked refusal, 1 range refusal, 2 internal_create, 3 internal_batch_modify) not found"))?, k));
        }
        idx.sort();
        g.push_str(&format!(
            "/-- `scim_sync_apply_phase_2`: source order of 0 masked-entry refusal, 1 reserved-range refusal, 2 `internal_create`, 3 `internal_batch_modify` -/\ndef phase2Order : List Nat := [{}]\n",
            idx.iter().map(|x| x.1.to_string()).collect::<Vec<_>>().join(", ")
        ));
        // the masked flag: `if e.mask_recycled_ts().is_none() { .. fail = true; }` over existing_entries
        let b2 = nsp(&p2.block);
        if !b2.contains("existing_entries.iter().for_each(|e|{ife.mask_recycled_ts().is_none(){") || !b2.contains("fail=true;") {
            return Err("phase_2: masked-entry loop not recognised".into());
        }
        if !b2.contains("internal_search(filter_all!(f_or(filter_or)))") {
            return Err("phase_2: existing entries are not searched with filter_all!".into());
        }
        // stub
        let inits = all_macros(&p2.block, "entry_init");
        if inits.len() != 1 {
            return Err(format!("phase_2: {} entry_init! invocations, expected 1", inits.len()));
        }
        let mut classes = vec![];
        let mut parent_attr = None;
        let mut has_uuid = false;
        for t in parse_tuple_list(inits[0].tokens.clone())? {
            let tup = match &t {
                syn::Expr::Tuple(t) if t.elems.len() == 2 => t,
                o => return Err(format!("phase_2: entry_init! element is not a pair: `{}`", toks(o))),
            };
            let a = nsp(&tup.elems[0]);
            let v = nsp(&tup.elems[1]);
            if a == "Attribute::Class" {
                let c = v.strip_prefix("EntryClass::").and_then(|x| x.strip_suffix(".to_value()")).ok_or_else(|| format!("phase_2: stub class value `{v}`"))?;
                classes.push(format!("C.{c}"));
            } else if v == "Value::Refer(sync_uuid)" {
                if parent_attr.is_some() {
                    return Err("phase_2: two attributes hold Value::Refer(sync_uuid)".into());
                }
                parent_attr = Some(attr_atom(&a)?);
            } else if a == "Attribute::Uuid" && v == "Value::Uuid(u)" {
                has_uuid = true;
            } else {
                return Err(format!("phase_2: unexpected stub attribute ({a}, {v})"));
            }
        }
        if !has_uuid {
            return Err("phase_2: stub has no (Attribute::Uuid, Value::Uuid(u))".into());
        }
        g.push_str(&format!("/-- `scim_sync_apply_phase_2`: classes of a stub entry -/\ndef stubClasses : List Nat := [{}]\n", classes.join(", ")));
        g.push_str(&format!(
            "/-- `scim_sync_apply_phase_2`: the attribute a stub's `Value::Refer(sync_uuid)` is stored in -/\ndef stubParentAttr : Nat := {}\n",
            parent_attr.ok_or("phase_2: stub has no Value::Refer(sync_uuid)")?
        ));
        // external-id modlist
        let vecs: Vec<syn::Macro> = all_macros(&p2.block, "vec").into_iter().filter(|m| nsp(&m.tokens).contains("Modify::")).collect();
        if vecs.len() != 1 {
            return Err(format!("phase_2: {} vec![Modify..] lists, expected 1", vecs.len()));
        }
        let mods = parse_tuple_list(vecs[0].tokens.clone())?;
        let ms: Vec<String> = mods.iter().map(nsp).collect();
        if ms.len() != 3 {
            return Err(format!("phase_2: external-id modlist has {} modifications", ms.len()));
        }
        let a0 = ms[0].strip_prefix("Modify::Assert(").and_then(|x| x.strip_suffix(",PartialValue::Refer(sync_uuid),)").or_else(|| x.strip_suffix(",PartialValue::Refer(sync_uuid))"))).ok_or_else(|| format!("phase_2: first external-id modification is not Assert(.., Refer(sync_uuid)): `{}`", ms[0]))?;
        let a1 = ms[1].strip_prefix("Modify::Purged(").and_then(|x| x.strip_suffix(")")).ok_or_else(|| format!("phase_2: second external-id modification: `{}`", ms[1]))?;
        let a2 = ms[2].strip_prefix("Modify::Present(").and_then(|x| x.split(',').next()).ok_or_else(|| format!("phase_2: third external-id modification: `{}`", ms[2]))?;
        if a1 != a2 {
            return Err(format!("phase_2: external-id modlist purges {a1} but sets {a2}"));
        }
        g.push_str(&format!(
            "/-- `scim_sync_apply_phase_2`: first modification of every external-id modlist is `Modify::Assert(.., PartialValue::Refer(sync_uuid))` on -/\ndef extIdAssertAttr : Nat := {}\n",
            attr_atom(a0)?
        ));
        g.push_str(&format!("/-- `scim_sync_apply_phase_2`: the attribute purged and set from `external_id` -/\ndef extIdAttr : Nat := {}\n", attr_atom(a1)?));
    }

    // ---- scim_entry_to_mod
    let em = find_fn(&scim, "scim_entry_to_mod")?;
    {
        struct Pushes(Vec<String>);
        impl<'ast> Visit<'ast> for Pushes {
            fn visit_expr_method_call(&mut self, m: &'ast syn::ExprMethodCall) {
                if nsp(&m.receiver) == "mods" && (m.method == "push" || m.method == "extend") {
                    self.0.push(format!("{}:{}", m.method, m.args.iter().map(nsp).collect::<Vec<_>>().join(",")));
                }
                syn::visit::visit_expr_method_call(self, m);
            }
        }
        let mut v = Pushes(vec![]);
        v.visit_block(&em.block);
        let p = v.0;
        if p.len() != 5 {
            return Err(format!("scim_entry_to_mod: {} pushes into `mods`, expected 5: {p:?}", p.len()));
        }
        let a0 = p[0].strip_prefix("push:Modify::Assert(").and_then(|x| x.strip_suffix(",PartialValue::Refer(sync_uuid),)").or_else(|| x.strip_suffix(",PartialValue::Refer(sync_uuid))"))).ok_or_else(|| format!("scim_entry_to_mod: first push is not the parent Assert: `{}`", p[0]))?;
        g.push_str(&format!(
            "/-- `scim_entry_to_mod`: first modification pushed is `Modify::Assert(.., PartialValue::Refer(sync_uuid))` on -/\ndef entryModAssertAttr : Nat := {}\n",
            attr_atom(a0)?
        ));
        let mut cls_attrs = vec![];
        for q in &p[1..3] {
            let a = q.strip_prefix("push:Modify::Present(").and_then(|x| x.split(',').next()).ok_or_else(|| format!("scim_entry_to_mod: class push `{q}`"))?;
            if !q.contains("Value::new_iutf8(req_class)") {
                return Err(format!("scim_entry_to_mod: class push does not store req_class: `{q}`"));
            }
            cls_attrs.push(attr_atom(a)?);
        }
        g.push_str(&format!("/-- `scim_entry_to_mod`: attributes a requested class is `Present` in -/\ndef entryModClassAttrs : List Nat := [{}]\n", cls_attrs.join(", ")));
        if p[3] != "push:Modify::Purged(attr.clone())" {
            return Err(format!("scim_entry_to_mod: purge push `{}`", p[3]));
        }
        if !p[4].starts_with("extend:values.into_iter().map(|val|Modify::Present(scim_attr_name.clone(),val))") {
            return Err(format!("scim_entry_to_mod: value push `{}`", p[4]));
        }
        let b = nsp(&em.block);
        let rejects = b.contains("if!sync_owned_attrs.contains(&scim_attr_name){") && {
            let i = b.find("if!sync_owned_attrs.contains(&scim_attr_name){").unwrap_or(0);
            let j = b[i..].find("self.scim_attr_to_values(").map(|x| x + i).unwrap_or(0);
            b[i..j.max(i)].contains("returnErr(OperationError::InvalidEntryState);")
        };
        g.push_str(&format!("/-- `scim_entry_to_mod`: an attribute of the request outside `sync_owned_attrs` returns `InvalidEntryState` -/\ndef entryModRejectsUnowned : Bool := {rejects}\n"));
        let skips = b.contains("forattrinsync_owned_attrs.iter(){if!phantom_attr_set.contains(attr){mods.push(Modify::Purged(attr.clone()));}}");
        g.push_str(&format!("/-- `scim_entry_to_mod`: phantom attributes are not purged (`!phantom_attr_set.contains(attr)`) -/\ndef purgeSkipsPhantom : Bool := {skips}\n"));
        // the shape of sync_owned_attrs
        if !b.contains(".filter(|a|sync_allow_attr_set.contains(*a)).chain(phantom_attr_set.iter()).cloned().collect();") {
            return Err("scim_entry_to_mod: `sync_owned_attrs` is not `class attrs filtered by sync_allow_attr_set, chained with phantom_attr_set`".into());
        }
        if !b.contains("cls.systemmay.iter().chain(cls.may.iter()).chain(cls.systemmust.iter()).chain(cls.must.iter())") {
            return Err("scim_entry_to_mod: class attribute chain not recognised".into());
        }
        if !b.contains("strip_prefix(SCIM_SCHEMA_SYNC_1)") || !b.contains("sync_allow_class_set.get_key_value(cls_name)") {
            return Err("scim_entry_to_mod: schema to class lookup not recognised".into());
        }
    }

    // ---- phase 3
    let p3 = find_fn(&scim, "scim_sync_apply_phase_3")?;
    {
        let ifs = all_ifs(&p3.block);
        let conds: Vec<&syn::ExprIf> = ifs.iter().filter(|i| nsp(&i.cond).contains("sync_allowed")).collect();
        if conds.len() != 3 {
            return Err(format!("phase_3: {} conditions over sync_allowed, expected 3", conds.len()));
        }
        let cls_ok = nsp(&conds[0].cond) == "cls.sync_allowed";
        let l1 = cond_lean(&conds[1].cond).map_err(|e| format!("phase_3 sync_allow_attr_set: {e}"))?;
        let l2 = cond_lean(&conds[2].cond).map_err(|e| format!("phase_3 phantom_attr_set: {e}"))?;
        for (k, c) in conds.iter().enumerate() {
            let then = nsp(&c.then_branch);
            let expect = if k == 0 { "{Some((cls.name.to_string(),cls.clone()))}" } else { "{Some(attr.name.clone())}" };
            if then != expect || c.else_branch.as_ref().map(|(_, e)| nsp(e)) != Some("{None}".to_string()) {
                return Err(format!("phase_3: filter_map closure {k} not recognised"));
            }
        }
        g.push_str(&format!("/-- `scim_sync_apply_phase_3`: `{}` -/\ndef syncAllowAttr (syncAllowed yielded : Bool) : Bool := {l1}\n", toks(&conds[1].cond)));
        g.push_str(&format!("/-- `scim_sync_apply_phase_3`: `{}` -/\ndef phantomAttr (phantom syncAllowed : Bool) : Bool := {l2}\n", toks(&conds[2].cond)));
        g.push_str(&format!("/-- `scim_sync_apply_phase_3`: `cls.sync_allowed` selects the classes a request may name -/\ndef classFilterIsSyncAllowed : Bool := {cls_ok}\n"));
        let b = nsp(&p3.block);
        if !b.contains("self.scim_entry_to_mod(scim_ent,sync_uuid,&sync_allow_class_set,&sync_allow_attr_set,&phantom_attr_set,)") {
            return Err("phase_3: call of scim_entry_to_mod not recognised".into());
        }
        if !b.contains(".collect::<Result<Vec<_>,_>>()?;self.qs_write.internal_batch_modify(asserts.into_iter())") {
            return Err("phase_3: modlists are not all built before the single batch modify".into());
        }
    }

    // ---- delete filters
    let scoped = |f: &FoundFn, what: &str| -> Result<usize, String> {
        let fs = all_macros(&f.block, "filter");
        for m in &fs {
            let t = nsp(&m.tokens);
            let ok = t.starts_with("f_and!([f_eq(Attribute::SyncParentUuid,PartialValue::Refer(sync_uuid))") || t.starts_with("f_and(vec![f_eq(Attribute::SyncParentUuid,PartialValue::Refer(sync_uuid))");
            if !ok {
                return Err(format!("{what}: a delete filter is not `f_and([f_eq(SyncParentUuid, Refer(sync_uuid)), ..])`: `{}`", toks(&m.tokens)));
            }
        }
        let b = nsp(&f.block);
        if b.matches("internal_delete(").count() != 1 || !b.contains("self.qs_write.internal_delete(&delete_filter)") {
            return Err(format!("{what}: not exactly one `internal_delete(&delete_filter)`"));
        }
        if b.contains("internal_delete(&filter_all") || b.contains("delete_filter=filter_all") {
            return Err(format!("{what}: delete filter built with filter_all!"));
        }
        Ok(fs.len())
    };
    let rc = find_fn(&scim, "scim_sync_apply_phase_refresh_cleanup")?;
    let n_rc = scoped(&rc, "refresh_cleanup")?;
    g.push_str(&format!(
        "/-- `scim_sync_apply_phase_refresh_cleanup`: every delete filter is `f_and([f_eq(SyncParentUuid, Refer(sync_uuid)), ..])` built with `filter!` ({n_rc} constructions) -/\ndef cleanupFiltersScoped : Nat := {n_rc}\n"
    ));
    let p4 = find_fn(&scim, "scim_sync_apply_phase_4")?;
    let n_p4 = scoped(&p4, "phase_4")?;
    g.push_str(&format!(
        "/-- `scim_sync_apply_phase_4`: every delete filter is `f_and([f_eq(SyncParentUuid, Refer(sync_uuid)), ..])` built with `filter!` ({n_p4} constructions) -/\ndef phase4FiltersScoped : Nat := {n_p4}\n"
    ));
    {
        let bins: Vec<syn::ExprBinary> = all_binaries(&p4.block).into_iter().filter(|b| nsp(&b.right) == "Some(sync_uuid)").collect();
        if bins.len() != 1 {
            return Err(format!("phase_4: {} comparisons with Some(sync_uuid), expected 1", bins.len()));
        }
        let b = &bins[0];
        if nsp(&b.left) != "ent.get_ava_single_refer(Attribute::SyncParentUuid)" {
            return Err(format!("phase_4: ownership comparison reads `{}`", toks(&b.left)));
        }
        g.push_str(&format!(
            "/-- `scim_sync_apply_phase_4`, `Delete` arm: `{}` returns `AccessDenied` -/\ndef phase4Foreign (parent : Option Nat) (syncUuid : Nat) : Bool := {}\n",
            nsp(b).replace("!=", " != ").replace("==", " == "),
            cmp_lean(&b.op, "parent", "some syncUuid")?
        ));
        let t = nsp(&p4.block);
        let i = t.find("ifent.mask_recycled_ts().is_none(){");
        let j = t.find("elseifent.get_ava_single_refer(Attribute::SyncParentUuid)");
        let k = t.find("Some(Err(OperationError::AccessDenied))");
        let first = matches!((i, j, k), (Some(i), Some(j), Some(k)) if i < j && j < k) && t.contains(".collect::<Result<Vec<_>,_>>()?;");
        g.push_str(&format!(
            "/-- `scim_sync_apply_phase_4`, `Delete` arm: masked candidates (`mask_recycled_ts().is_none()`) are skipped before the ownership test -/\ndef phase4MaskedSkippedFirst : Bool := {first}\n"
        ));
    }

    // ---- cred import
    let ci = parse_file(repo, "server/lib/src/plugins/cred_import.rs")?;
    let mi = find_fn(&ci, "CredImport::modify_inner")?;
    {
        let mut rows = vec![];
        for i in all_ifs(&mi.block) {
            let c = nsp(&i.cond);
            if let Some(rest) = c.strip_prefix("letSome(vs)=entry.pop_ava(") {
                let src = rest.strip_suffix(")").ok_or_else(|| format!("cred_import: pop_ava condition `{c}`"))?;
                struct Sets(Vec<String>);
                impl<'ast> Visit<'ast> for Sets {
                    fn visit_expr_method_call(&mut self, m: &'ast syn::ExprMethodCall) {
                        if m.method == "set_ava" && nsp(&m.receiver) == "entry" {
                            if let Some(a) = m.args.first() {
                                self.0.push(nsp(a));
                            }
                        }
                        syn::visit::visit_expr_method_call(self, m);
                    }
                }
                let mut s = Sets(vec![]);
                s.visit_block(&i.then_branch);
                s.0.sort();
                s.0.dedup();
                if s.0.len() != 1 {
                    return Err(format!("cred_import: the block of {src} sets {:?}", s.0));
                }
                rows.push(format!("({}, {})", attr_atom(src)?, attr_atom(&s.0[0])?));
            }
        }
        if rows.is_empty() {
            return Err("cred_import: no `if let Some(vs) = entry.pop_ava(..)` blocks".into());
        }
        let n_pop = nsp(&mi.block).matches("entry.pop_ava(").count();
        if n_pop != rows.len() {
            return Err(format!("cred_import: {n_pop} pop_ava calls, {} recognised", rows.len()));
        }
        g.push_str(&format!(
            "/-- `CredImport::modify_inner` (plugins/cred_import.rs): popped import attribute ↦ attribute it `set_ava`s -/\ndef credImportTargets : List (Nat × Nat) := [{}]\n",
            rows.join(", ")
        ));
    }
    g.push_str("end Kanidm.Gen.SyncScope\n");
    let text = format!(
        "import KanidmModel.Generated.AccessProtected\n-- GENERATED by vtranslate from server/lib/src/{{idm/scim.rs, plugins/cred_import.rs, constants/uuids.rs}}. Do not edit: rewritten on every check run.\nset_option linter.unusedVariables false\n{g}"
    );
    let path = format!("{out}/SyncScopeOps.lean");
    if !std::fs::read_to_string(&path).map(|old| old == text).unwrap_or(false) {
        std::fs::write(&path, &text).map_err(|e| format!("{path}: {e}"))?;
    }
    Ok(format!("sync-scope: dynMin={dyn_min}, phases, gates, stub, modlists, filters ({n_rc}+{n_p4}), import targets"))
}
