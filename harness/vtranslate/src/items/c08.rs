//! C08 / C09 translator item `repl-merge-ops`: regenerates `Generated/ReplMergeOps.lean` from
//!   entry.rs        `Entry::merge_state` — the four change-state arms (which side's change state a
//!                   tombstone arm keeps, the tombstone/tombstone comparison), `take_left`, the eight
//!                   guarded arms of the attribute match in source order (which cid, which value, which
//!                   side is `self` of `repl_merge_valueset`), the two one-sided arms, `retain`, `at`;
//!                   `Entry::is_add_conflict`, `Entry::resolve_add_conflict` (comparison, origin test)
//!   repl/proto.rs   `ReplIncrementalEntryV1::new` — the range test, its default, the replicated test
//!   valueset/*.rs   which types override `repl_merge_valueset` with something other than `None`
//! and item `repl-reap-ops` (C09): regenerates `Generated/ReapOps.lean` from
//!   repl/entry.rs   `EntryChangeState::can_delete`
//!   repl/ruv.rs     `trim_up_to` (which cids leave, empty servers dropped), `filter_ruv_range`
//!   be/mod.rs       `reap_tombstones` (anchor before trim, partition by `can_delete(trim_cid)`)
//!   server/recycle.rs `purge_tombstones`, `purge_recycled`; server/mod.rs the two `trim_cid`s;
//!   repl/cid.rs     `sub_secs`; constants/mod.rs the two `#[cfg(not(test))]` windows
//! Any shape not recognised is an `Err` (never a guess).
use crate::util::*;
use quote::ToTokens;
use syn::visit::Visit;
use syn::{Expr, Stmt};

pub fn run(item: &str, repo: &str, out: &str) -> Option<Result<String, String>> {
    match item {
        "repl-merge-ops" => Some(repl_merge_ops(repo, out)),
        "repl-reap-ops" => Some(repl_reap_ops(repo, out)),
        _ => None,
    }
}

fn squash<T: ToTokens>(t: &T) -> String {
    t.to_token_stream().to_string().chars().filter(|c| !c.is_whitespace()).collect()
}

/// A comparison between two named operands, rendered over a strict order `lt`.
fn cmp_lt(e: &Expr, names: &[(&str, &str)], what: &str) -> Result<String, String> {
    let e = match e {
        Expr::Paren(p) => &*p.expr,
        other => other,
    };
    let Expr::Binary(b) = e else { return Err(format!("{what}: `{}` is not a comparison", squash(e))) };
    let name = |x: &Expr| -> Result<String, String> {
        let s = squash(x);
        let s = s.trim_start_matches('&').trim_start_matches('*').to_string();
        names.iter().find(|(r, _)| *r == s).map(|(_, l)| l.to_string()).ok_or_else(|| format!("{what}: unknown operand `{s}`"))
    };
    let (l, r) = (name(&b.left)?, name(&b.right)?);
    if l == r {
        return Err(format!("{what}: both operands are `{l}`"));
    }
    Ok(match b.op {
        syn::BinOp::Lt(_) => format!("lt {l} {r}"),
        syn::BinOp::Gt(_) => format!("lt {r} {l}"),
        syn::BinOp::Le(_) => format!("!(lt {r} {l})"),
        syn::BinOp::Ge(_) => format!("!(lt {l} {r})"),
        syn::BinOp::Ne(_) => format!("(lt {l} {r} || lt {r} {l})"),
        syn::BinOp::Eq(_) => format!("!(lt {l} {r} || lt {r} {l})"),
        _ => return Err(format!("{what}: unsupported operator in `{}`", squash(e))),
    })
}

/// All `match` expressions of a block whose scrutinee squashes to `scrut`.
fn matches_on(block: &syn::Block, scrut: &str) -> Vec<syn::ExprMatch> {
    struct V<'a>(&'a str, Vec<syn::ExprMatch>);
    impl<'a, 'ast> Visit<'ast> for V<'a> {
        fn visit_expr_match(&mut self, m: &'ast syn::ExprMatch) {
            if squash(&m.expr) == self.0 {
                self.1.push(m.clone());
            }
            syn::visit::visit_expr_match(self, m);
        }
    }
    let mut v = V(scrut, vec![]);
    v.visit_block(block);
    v.1
}

fn arm_block(a: &syn::Arm) -> Result<syn::Block, String> {
    match &*a.body {
        Expr::Block(b) => Ok(b.block.clone()),
        other => Err(format!("arm body `{}` is not a block", squash(other).chars().take(60).collect::<String>())),
    }
}

fn side(s: &str) -> Result<&'static str, String> {
    match s {
        "left" => Ok(".left"),
        "right" => Ok(".right"),
        x => Err(format!("unknown side `{x}`")),
    }
}

/// The effect of one arm body of the attribute match: (cid side, value pick).
fn arm_effect(body: &syn::Block, what: &str) -> Result<(String, String), String> {
    let s = squash(body);
    let inner = s.strip_prefix('{').and_then(|x| x.strip_suffix('}')).ok_or_else(|| format!("{what}: no block"))?;
    // changes.insert(attr_name.clone(), cid_X.clone());
    let (cid, rest) = if let Some(r) = inner.strip_prefix("changes.insert(attr_name.clone(),cid_left.clone());") {
        ("left", r)
    } else if let Some(r) = inner.strip_prefix("changes.insert(attr_name.clone(),cid_right.clone());") {
        ("right", r)
    } else {
        return Err(format!("{what}: the arm does not start with `changes.insert(attr_name.clone(), cid_*.clone());`: `{}`", inner.chars().take(80).collect::<String>()));
    };
    // the clippy attribute on the merge arms is not part of the behaviour
    let rest = rest.replace("#[allow(clippy::todo)]", "");
    let merge = |a: &str, b: &str| format!(
        "ifletSome(merged_attr_state)=vs_{a}.repl_merge_valueset(vs_{b},trim_cid){{eattrs.insert(attr_name.clone(),merged_attr_state);}}else{{eattrs.insert(attr_name.clone(),vs_{a}.clone());}}"
    );
    let val = if rest.is_empty() {
        ".none"
    } else if rest == "eattrs.insert(attr_name.clone(),vs_left.clone());" {
        ".left"
    } else if rest == "eattrs.insert(attr_name.clone(),vs_right.clone());" {
        ".right"
    } else if rest == merge("left", "right") {
        ".mergeLeftNewer"
    } else if rest == merge("right", "left") {
        ".mergeRightNewer"
    } else {
        return Err(format!("{what}: value handling not recognised: `{}`", rest.chars().take(120).collect::<String>()));
    };
    Ok((side(cid)?.to_string(), val.to_string()))
}

/// `(Some(cid_left), None)`-style arm: cid + `if let Some(valueset) = X.attrs.get(attr_name) { eattrs.insert(.., valueset.clone()); }`
fn one_sided(body: &syn::Block, what: &str) -> Result<(String, String), String> {
    let s = squash(body);
    let inner = s.strip_prefix('{').and_then(|x| x.strip_suffix('}')).ok_or_else(|| format!("{what}: no block"))?;
    let (cid, rest) = if let Some(r) = inner.strip_prefix("changes.insert(attr_name.clone(),cid_left.clone());") {
        ("left", r)
    } else if let Some(r) = inner.strip_prefix("changes.insert(attr_name.clone(),cid_right.clone());") {
        ("right", r)
    } else {
        return Err(format!("{what}: no `changes.insert`"));
    };
    let tmpl = |src: &str| format!("ifletSome(valueset)={src}.attrs.get(attr_name){{eattrs.insert(attr_name.clone(),valueset.clone());}}");
    let val = if rest == tmpl("self") {
        ".left"
    } else if rest == tmpl("db_ent") {
        ".right"
    } else if rest.is_empty() {
        ".none"
    } else {
        return Err(format!("{what}: value handling not recognised: `{}`", rest.chars().take(120).collect::<String>()));
    };
    Ok((side(cid)?.to_string(), val.to_string()))
}

/// which side's `valid.ecstate` the entry built at the end of an arm carries
fn kept_ecstate(body: &syn::Block, what: &str) -> Result<&'static str, String> {
    let s = squash(body);
    let l = s.matches("ecstate:self.valid.ecstate.clone()").count();
    let r = s.matches("ecstate:db_ent.valid.ecstate.clone()").count();
    match (l, r) {
        (1, 0) => Ok(".left"),
        (0, 1) => Ok(".right"),
        _ => Err(format!("{what}: cannot tell which change state is kept ({l} self, {r} db_ent)")),
    }
}

fn repl_merge_ops(repo: &str, out: &str) -> Result<String, String> {
    let ent = parse_file(repo, "server/lib/src/entry.rs")?;
    // ------------------------------------------------------------------ merge_state
    let ms = find_fn(&ent, "merge_state")?;
    let outer = matches_on(&ms.block, "(self_cs.current(),db_cs.current())");
    if outer.len() != 1 {
        return Err(format!("merge_state: expected one match on the two change states, found {}", outer.len()));
    }
    let outer = &outer[0];
    if outer.arms.len() != 4 {
        return Err(format!("merge_state: expected 4 change-state arms, found {}", outer.arms.len()));
    }
    let mut live_live = None;
    let mut tomb_live = None;
    let mut live_tomb = None;
    let mut tomb_tomb = None;
    for a in &outer.arms {
        if a.guard.is_some() {
            return Err("merge_state: guarded change-state arm".into());
        }
        let p = squash(&a.pat);
        let slot = match p.as_str() {
            "(State::Live{at:at_left,changes:changes_left,},State::Live{at:at_right,changes:changes_right,},)" => &mut live_live,
            "(State::Tombstone{at:left_at},State::Live{..})" => &mut tomb_live,
            "(State::Live{..},State::Tombstone{..})" => &mut live_tomb,
            "(State::Tombstone{at:left_at},State::Tombstone{at:right_at})" => &mut tomb_tomb,
            other => return Err(format!("merge_state: unrecognised change-state pattern `{other}`")),
        };
        if slot.is_some() {
            return Err(format!("merge_state: change-state pattern `{p}` twice"));
        }
        *slot = Some(arm_block(a)?);
    }
    let (live_live, tomb_live, live_tomb, tomb_tomb) = (
        live_live.ok_or("merge_state: no Live/Live arm")?,
        tomb_live.ok_or("merge_state: no Tombstone/Live arm")?,
        live_tomb.ok_or("merge_state: no Live/Tombstone arm")?,
        tomb_tomb.ok_or("merge_state: no Tombstone/Tombstone arm")?,
    );
    // ---- Live/Live
    let ll = squash(&live_live);
    if ll.matches("changes_left.keys().chain(changes_right.keys()).collect()").count() != 1 {
        return Err("merge_state: the attribute set is no longer the union of both change maps' keys".into());
    }
    if ll.matches("forattr_nameinattr_set.into_iter(){").count() != 1 {
        return Err("merge_state: loop over attr_set not found".into());
    }
    let am = matches_on(&live_live, "(changes_left.get(attr_name),changes_right.get(attr_name))");
    if am.len() != 1 || am[0].arms.len() != 4 {
        return Err("merge_state: expected one 4-armed match on the two attribute cids".into());
    }
    let mut both = None;
    let mut left_only = None;
    let mut right_only = None;
    let mut neither = false;
    for a in &am[0].arms {
        if a.guard.is_some() {
            return Err("merge_state: guarded attribute-cid arm".into());
        }
        match squash(&a.pat).as_str() {
            "(Some(cid_left),Some(cid_right))" => both = Some(arm_block(a)?),
            "(Some(cid_left),None)" => left_only = Some(one_sided(&arm_block(a)?, "merge_state (Some(cid_left), None)")?),
            "(None,Some(cid_right))" => right_only = Some(one_sided(&arm_block(a)?, "merge_state (None, Some(cid_right))")?),
            "(None,None)" => neither = squash(&a.body) == "{debug_assert!(false);}",
            other => return Err(format!("merge_state: unrecognised attribute-cid pattern `{other}`")),
        }
    }
    if !neither {
        return Err("merge_state: the (None, None) arm is no longer `debug_assert!(false)`".into());
    }
    let both = both.ok_or("merge_state: no (Some, Some) arm")?;
    let left_only = left_only.ok_or("merge_state: no (Some, None) arm")?;
    let right_only = right_only.ok_or("merge_state: no (None, Some) arm")?;
    // `let take_left = cid_left > cid_right;` must be the first statement, the value match the second
    if both.stmts.len() != 2 {
        return Err(format!("merge_state: the (Some, Some) arm has {} statements, expected `let take_left` + one match", both.stmts.len()));
    }
    let take_left = match &both.stmts[0] {
        Stmt::Local(l) if squash(&l.pat) == "take_left" => {
            let init = l.init.as_ref().ok_or("merge_state: take_left without value")?;
            cmp_lt(&init.expr, &[("cid_left", "cidLeft"), ("cid_right", "cidRight")], "merge_state take_left")?
        }
        other => return Err(format!("merge_state: first statement of the (Some, Some) arm is `{}`", squash(other))),
    };
    let take_left_src = match &both.stmts[0] {
        Stmt::Local(l) => l.init.as_ref().map(|i| i.expr.to_token_stream().to_string()).unwrap_or_default(),
        _ => String::new(),
    };
    let vm = match &both.stmts[1] {
        Stmt::Expr(Expr::Match(m), _) if squash(&m.expr) == "(self.attrs.get(attr_name),db_ent.attrs.get(attr_name))" => m.clone(),
        other => return Err(format!("merge_state: second statement of the (Some, Some) arm is `{}`", squash(other).chars().take(80).collect::<String>())),
    };
    let mut arms_lean = vec![];
    for (i, a) in vm.arms.iter().enumerate() {
        let what = format!("merge_state value arm {i}");
        let p = squash(&a.pat);
        let (ls, rs) = match p.as_str() {
            "(Some(vs_left),Some(vs_right))" => (true, true),
            "(Some(vs_left),None)" | "(Some(_vs_left),None)" => (true, false),
            "(None,Some(vs_right))" | "(None,Some(_vs_right))" => (false, true),
            "(None,None)" => (false, false),
            other => return Err(format!("{what}: unrecognised pattern `{other}`")),
        };
        let guarded = match &a.guard {
            None => false,
            Some((_, g)) if squash(g) == "take_left" => true,
            Some((_, g)) => return Err(format!("{what}: unrecognised guard `{}`", squash(g))),
        };
        let (cid, val) = arm_effect(&arm_block(a)?, &what)?;
        // an arm may only use a value its pattern binds
        let uses_left = val == ".left" || val.starts_with(".merge");
        let uses_right = val == ".right" || val.starts_with(".merge");
        if (uses_left && !(ls && p.contains("Some(vs_left)"))) || (uses_right && !(rs && p.contains("Some(vs_right)"))) {
            return Err(format!("{what}: uses a value its pattern `{p}` does not bind"));
        }
        arms_lean.push(format!("  ⟨{ls}, {rs}, {guarded}, ⟨{cid}, {val}⟩⟩"));
    }
    let retain = match ll.matches("ecstate.retain(|k,_|schema.is_replicated(k));").count() {
        1 => true,
        0 => false,
        n => return Err(format!("merge_state: {n} retain calls")),
    };
    let at_from = if ll.matches("EntryChangeState::build(State::Live{at:at_left.clone(),changes,})").count() == 1 {
        ".left"
    } else if ll.matches("EntryChangeState::build(State::Live{at:at_right.clone(),changes,})").count() == 1 {
        ".right"
    } else {
        return Err("merge_state: construction of the merged change state not recognised".into());
    };
    if ll.matches("valid:EntryIncremental{uuid:self.valid.uuid,ecstate,}").count() != 1 || !ll.contains("attrs:eattrs,") {
        return Err("merge_state: the merged entry is no longer built from `ecstate` and `eattrs`".into());
    }
    // ---- tombstone arms
    let tl_keeps = kept_ecstate(&tomb_live, "merge_state (Tombstone, Live)")?;
    let lt_keeps = kept_ecstate(&live_tomb, "merge_state (Live, Tombstone)")?;
    let tt = squash(&tomb_tomb);
    let tt_cond = {
        let conds = if_conditions(&tomb_tomb);
        if conds.len() != 1 {
            return Err(format!("merge_state (Tombstone, Tombstone): expected one `if`, found {}", conds.len()));
        }
        cmp_lt(&conds[0], &[("left_at", "leftAt"), ("right_at", "rightAt")], "merge_state (Tombstone, Tombstone)")?
    };
    if !tt.contains("{(left_at,self.valid.ecstate.clone())}else{(right_at,db_ent.valid.ecstate.clone())};") {
        return Err("merge_state (Tombstone, Tombstone): the two branches are no longer (left, self) / (right, db_ent)".into());
    }
    if tt.matches("valid:EntryIncremental{uuid:db_ent.valid.uuid,ecstate,}").count() != 1 {
        return Err("merge_state (Tombstone, Tombstone): result no longer carries the chosen change state".into());
    }
    // ------------------------------------------------------------------ is_add_conflict / resolve_add_conflict
    let iac = find_fn(&ent, "is_add_conflict")?;
    let iac_s = squash(&iac.block);
    if iac_s.matches("match(self_cs.current(),db_cs.current()){(State::Live{at:at_left,..},State::Live{at:at_right,..})=>{").count() != 1 || !iac_s.ends_with("_=>false,}}") {
        return Err("is_add_conflict: match on the two change states not recognised".into());
    }
    let at_names = [("at_left", "atLeft"), ("at_right", "atRight")];
    let find_at_cmp = |block: &syn::Block, what: &str| -> Result<String, String> {
        struct V(Vec<Expr>);
        impl<'ast> Visit<'ast> for V {
            fn visit_expr_binary(&mut self, b: &'ast syn::ExprBinary) {
                let (l, r) = (squash(&b.left), squash(&b.right));
                if (l == "at_left" && r == "at_right") || (l == "at_right" && r == "at_left") {
                    self.0.push(Expr::Binary(b.clone()));
                }
                syn::visit::visit_expr_binary(self, b);
            }
            // debug_assert!(..) arguments are macro tokens: not visited
        }
        let mut v = V(vec![]);
        v.visit_block(block);
        if v.0.len() != 1 {
            return Err(format!("{what}: expected exactly one comparison of at_left and at_right, found {}", v.0.len()));
        }
        cmp_lt(&v.0[0], &at_names, what)
    };
    let add_when = find_at_cmp(&iac.block, "is_add_conflict")?;
    let rac = find_fn(&ent, "resolve_add_conflict")?;
    let rac_s = squash(&rac.block);
    let loses = find_at_cmp(&rac.block, "resolve_add_conflict")?;
    if !rac_s.contains("{trace!(\"RI>DE,returnDE\");(None,Entry{valid:EntryIncremental{uuid:db_ent.valid.uuid,ecstate:db_cs.clone(),},state:EntryCommitted{id:db_ent.state.id,},attrs:db_ent.attrs.clone(),},)}") {
        return Err("resolve_add_conflict: the arm that keeps the database entry not recognised".into());
    }
    if rac_s.matches("letmutattrs=self.attrs.clone();letecstate=self_cs.clone();").count() != 1 {
        return Err("resolve_add_conflict: the arm that takes the incoming entry not recognised".into());
    }
    let origin_only = if rac_s.matches("letconflict=ifat_right.s_uuid==cid.s_uuid{").count() == 1 {
        true
    } else {
        return Err("resolve_add_conflict: origin test for the conflict copy not recognised".into());
    };
    for needle in [
        "letmutcnf_ent=Entry{valid:EntryInvalid{cid:cid.clone(),ecstate:db_cs.clone(),},state:EntryNew,attrs:db_ent.attrs.clone(),};",
        "cnf_ent.add_ava(Attribute::SourceUuid,Value::Uuid(db_ent.valid.uuid));",
        "cnf_ent.purge_ava(Attribute::Uuid);",
        "cnf_ent.add_ava(Attribute::Uuid,Value::Uuid(new_uuid));",
        "cnf_ent.add_ava(Attribute::Class,EntryClass::Recycled.into());",
        "cnf_ent.add_ava(Attribute::Class,EntryClass::Conflict.into());",
    ] {
        if rac_s.matches(needle).count() != 1 {
            return Err(format!("resolve_add_conflict: expected exactly one `{needle}`"));
        }
    }
    // ------------------------------------------------------------------ ReplIncrementalEntryV1::new
    let proto = parse_file(repo, "server/lib/src/repl/proto.rs")?;
    let rin = find_fn(&proto, "ReplIncrementalEntryV1::new")?;
    let rin_s = squash(&rin.block);
    let within = {
        let pre = "letwithin=schema.is_replicated(attr_name)&&ctx_range.get(&cid.s_uuid).map(|repl_range|{";
        let pre_norepl = "letwithin=ctx_range.get(&cid.s_uuid).map(|repl_range|{";
        let (needs_repl, start) = if let Some(i) = rin_s.find(pre) {
            (true, i + pre.len())
        } else if let Some(i) = rin_s.find(pre_norepl) {
            (false, i + pre_norepl.len())
        } else {
            return Err("ReplIncrementalEntryV1::new: `let within = …` not recognised".into());
        };
        let rest = &rin_s[start..];
        let end = rest.find("})").ok_or("ReplIncrementalEntryV1::new: closure end not found")?;
        let body = &rest[..end];
        let after = &rest[end + 2..];
        let default = if after.starts_with(".unwrap_or(false);") {
            false
        } else if after.starts_with(".unwrap_or(true);") {
            true
        } else {
            return Err("ReplIncrementalEntryV1::new: default of the range lookup not recognised".into());
        };
        let e: Expr = syn::parse_str(body).map_err(|e| format!("ReplIncrementalEntryV1::new: range test `{body}`: {e}"))?;
        let vars = super::vars(&[("cid.ts", "ts"), ("repl_range.ts_max", "tsMax"), ("repl_range.ts_min", "tsMin")]);
        (needs_repl, lean_expr(&e, &vars).map_err(|e| format!("ReplIncrementalEntryV1::new: {e}"))?, default, body.to_string())
    };
    if rin_s.matches("ifwithin{").count() != 1 || !rin_s.contains("State::Tombstone{at}=>ReplStateV1::Tombstone{at:at.into()},") {
        return Err("ReplIncrementalEntryV1::new: use of `within` / the tombstone arm not recognised".into());
    }
    // ------------------------------------------------------------------ valueset overrides
    let dir = format!("{repo}/server/lib/src/valueset");
    let mut merging: Vec<String> = vec![];
    let mut files: Vec<_> = std::fs::read_dir(&dir).map_err(|e| format!("{dir}: {e}"))?.filter_map(|e| e.ok()).map(|e| e.file_name().to_string_lossy().to_string()).filter(|n| n.ends_with(".rs") && n != "mod.rs").collect();
    files.sort();
    for f in files {
        let ast = parse_file(repo, &format!("server/lib/src/valueset/{f}"))?;
        struct V(Vec<String>);
        impl<'ast> Visit<'ast> for V {
            fn visit_impl_item_fn(&mut self, i: &'ast syn::ImplItemFn) {
                if i.sig.ident == "repl_merge_valueset" {
                    self.0.push(i.block.to_token_stream().to_string().chars().filter(|c| !c.is_whitespace()).collect());
                }
            }
        }
        let mut v = V(vec![]);
        v.visit_file(&ast);
        if v.0.iter().any(|b| b != "{None}") {
            merging.push(f.trim_end_matches(".rs").to_string());
        }
    }
    // the default
    let vmod = parse_file(repo, "server/lib/src/valueset/mod.rs")?;
    let dflt = find_fn(&vmod, "ValueSetT::repl_merge_valueset")?;
    if !squash(&dflt.block).ends_with("None}") {
        return Err("ValueSetT::repl_merge_valueset: the default implementation no longer returns None".into());
    }
    let b = |x: bool| if x { "true" } else { "false" };
    let body = format!(
        "namespace Kanidm.Gen.ReplMergeOps\n\
/-- `self` (the incoming replication entry) is the left side, `db_ent` the right side. -/\n\
inductive Side where\n  | left\n  | right\nderiving DecidableEq, Repr\n\
/-- which value an arm of the attribute merge inserts into `eattrs` -/\n\
inductive ValPick where\n  | left\n  | right\n\
  /-- `vs_left.repl_merge_valueset(vs_right, trim_cid)` or, if that is `None`, `vs_left.clone()` -/\n  | mergeLeftNewer\n\
  /-- `vs_right.repl_merge_valueset(vs_left, trim_cid)` or, if that is `None`, `vs_right.clone()` -/\n  | mergeRightNewer\n  | none\nderiving DecidableEq, Repr\n\
structure Arm where\n  cid : Side\n  val : ValPick\nderiving DecidableEq, Repr\n\
/-- one arm of `match (self.attrs.get(attr_name), db_ent.attrs.get(attr_name))`: the pattern (left value\n\
present, right value present), whether it carries the guard `if take_left`, and what it inserts -/\n\
structure GuardedArm where\n  leftSome : Bool\n  rightSome : Bool\n  guarded : Bool\n  arm : Arm\nderiving DecidableEq, Repr\n\
/-- Entry::merge_state: `let take_left = {tls};` -/\n\
def takeLeft {{α : Type}} (lt : α → α → Bool) (cidLeft cidRight : α) : Bool := {tl}\n\
/-- Entry::merge_state, both sides have a change cid: the {n} arms in source order -/\n\
def bothArms : List GuardedArm := [\n{arms}]\n\
/-- Entry::merge_state: `(Some(cid_left), None)` and `(None, Some(cid_right))` arms of the outer attribute match -/\n\
def leftOnlyArm : Arm := ⟨{loc}, {lov}⟩\n\
def rightOnlyArm : Arm := ⟨{roc}, {rov}⟩\n\
/-- Entry::merge_state: `ecstate.retain(|k, _| schema.is_replicated(k))` after the loop -/\n\
def retainReplicated : Bool := {retain}\n\
/-- Entry::merge_state, Live/Live: `at` of the merged change state -/\n\
def liveAtFrom : Side := {atf}\n\
/-- Entry::merge_state: whose `valid.ecstate` the (Tombstone, Live) and (Live, Tombstone) arms keep -/\n\
def tombLiveKeeps : Side := {tlk}\n\
def liveTombKeeps : Side := {ltk}\n\
/-- Entry::merge_state, (Tombstone, Tombstone): the condition under which the left change state is kept, else the right -/\n\
def tombTombPickLeft {{α : Type}} (lt : α → α → Bool) (leftAt rightAt : α) : Bool := {ttc}\n\
/-- Entry::is_add_conflict: both live and this comparison of the two `at`; every other pair `false` -/\n\
def addConflictWhen {{α : Type}} (lt : α → α → Bool) (atLeft atRight : α) : Bool := {addw}\n\
/-- Entry::resolve_add_conflict: the condition under which the database entry is returned unchanged -/\n\
def incomingLoses {{α : Type}} (lt : α → α → Bool) (atLeft atRight : α) : Bool := {loses}\n\
/-- Entry::resolve_add_conflict: the conflict copy is built `if at_right.s_uuid == cid.s_uuid` (only on the loser's origin) -/\n\
def copyOnlyAtOrigin : Bool := {orig}\n\
/-- ReplIncrementalEntryV1::new: `{rsrc}` -/\n\
def withinRange (ts tsMin tsMax : Nat) : Bool := {within}\n\
/-- ReplIncrementalEntryV1::new: `.unwrap_or(..)` when the origin server is not in the requested ranges -/\n\
def rangeAbsentDefault : Bool := {rdef}\n\
/-- ReplIncrementalEntryV1::new: `schema.is_replicated(attr_name) &&` in front of the range test -/\n\
def rangeRequiresReplicated : Bool := {rrepl}\n\
/-- valueset/*.rs whose `repl_merge_valueset` is not the default `None` (C11's subject) -/\n\
def mergingValuesets : List String := [{mv}]\n\
end Kanidm.Gen.ReplMergeOps\n",
        tls = take_left_src,
        tl = take_left,
        n = arms_lean.len(),
        arms = arms_lean.join(",\n"),
        loc = left_only.0,
        lov = left_only.1,
        roc = right_only.0,
        rov = right_only.1,
        retain = b(retain),
        atf = at_from,
        tlk = tl_keeps,
        ltk = lt_keeps,
        ttc = tt_cond,
        addw = add_when,
        loses = loses,
        orig = b(origin_only),
        rsrc = within.3,
        within = within.1,
        rdef = b(within.2),
        rrepl = b(within.0),
        mv = merging.iter().map(|m| format!("\"{m}\"")).collect::<Vec<_>>().join(", "),
    );
    write_generated(
        out,
        "ReplMergeOps",
        "server/lib/src/entry.rs (is_add_conflict, resolve_add_conflict, merge_state) + server/lib/src/repl/proto.rs (ReplIncrementalEntryV1::new) + server/lib/src/valueset/*.rs",
        &body,
    )?;
    Ok(format!(
        "ReplMergeOps: take_left `{take_left}`, {} value arms, one-sided {}/{} {}/{}, retain {retain}, at {at_from}, tombstone arms keep {tl_keeps}/{lt_keeps}, ts/ts `{tt_cond}`, add-conflict `{add_when}`, incoming loses `{loses}`, copy at origin {origin_only}, range `{}` default {} replicated {}, merging valuesets {:?}",
        arms_lean.len(), left_only.0, left_only.1, right_only.0, right_only.1, within.1, within.2, within.0, merging
    ))
}

/// `#[cfg(not(test))] pub const NAME: u64 = EXPR;`
fn const_not_test(file: &syn::File, name: &str) -> Result<i128, String> {
    for it in &file.items {
        if let syn::Item::Const(c) = it {
            if c.ident == name && c.attrs.iter().any(|a| squash(a) == "#[cfg(not(test))]") {
                return eval_int(&c.expr, &|_| None);
            }
        }
    }
    Err(format!("no `#[cfg(not(test))] const {name}`"))
}

fn once(hay: &str, needle: &str, what: &str) -> Result<usize, String> {
    match hay.matches(needle).count() {
        1 => Ok(hay.find(needle).unwrap_or(0)),
        n => Err(format!("{what}: expected exactly one `{needle}`, found {n}")),
    }
}

fn repl_reap_ops(repo: &str, out: &str) -> Result<String, String> {
    // ---- can_delete
    let ent = parse_file(repo, "server/lib/src/repl/entry.rs")?;
    let cd = find_fn(&ent, "EntryChangeState::can_delete")?;
    let ms = matches_on(&cd.block, "&self.st");
    if ms.len() != 1 || ms[0].arms.len() != 2 {
        return Err("can_delete: expected one two-armed match on &self.st".into());
    }
    let mut tomb = None;
    let mut live = None;
    for a in &ms[0].arms {
        match squash(&a.pat).as_str() {
            "State::Live{..}" => {
                live = Some(match squash(&a.body).as_str() {
                    "false" => false,
                    "true" => true,
                    o => return Err(format!("can_delete: Live arm is `{o}`")),
                })
            }
            "State::Tombstone{at}" => tomb = Some(cmp_lt(&a.body, &[("at", "at_"), ("cid", "cid")], "can_delete")?),
            o => return Err(format!("can_delete: unrecognised pattern `{o}`")),
        }
    }
    let (tomb, live) = (tomb.ok_or("can_delete: no Tombstone arm")?, live.ok_or("can_delete: no Live arm")?);
    // ---- trim_up_to / filter_ruv_range
    let ruv = parse_file(repo, "server/lib/src/repl/ruv.rs")?;
    let tu = squash(&find_fn(&ruv, "ReplicationUpdateVectorWriteTransaction::trim_up_to")?.block);
    let trim_removes = if tu.matches("for(cid,ex_idl)inself.data.range((Unbounded,Excluded(cid))){").count() == 1 && tu.matches("self.data.split_off_lt(cid);").count() == 1 {
        "lt c trim"
    } else {
        return Err("trim_up_to: the walked range / split_off_lt not recognised".into());
    };
    once(&tu, "if!server_range.remove(&cid.ts){", "trim_up_to")?;
    let drops_empty = tu.matches("ifserver_range.is_empty(){remove_suuid.push(cid.s_uuid);").count() == 1 && tu.matches("fors_uuidinremove_suuid{letx=self.ranged.remove(&s_uuid);").count() == 1;
    if !drops_empty {
        return Err("trim_up_to: removal of servers without timestamps not recognised".into());
    }
    let fr = find_fn(&ruv, "ReplicationUpdateVectorTransaction::filter_ruv_range")?;
    let conds = if_conditions(&fr.block);
    if conds.len() != 1 {
        return Err(format!("filter_ruv_range: expected one `if`, found {}", conds.len()));
    }
    let fr_s = squash(&fr.block);
    once(&fr_s, "(Some(first),Some(last))=>{iflast<&trim_cid.ts{None}else{Some(Ok((*s_uuid,ReplCidRange{ts_min:*first,ts_max:*last,},)))}}", "filter_ruv_range").or_else(|_| {
        // any other comparison is rendered below, but the two branches must keep their roles
        if fr_s.contains("{None}else{Some(Ok((*s_uuid,ReplCidRange{ts_min:*first,ts_max:*last,},)))}") { Ok(0) } else { Err("filter_ruv_range: branches not recognised".to_string()) }
    })?;
    let filter_drops = lean_expr(&conds[0], &super::vars(&[("last", "last"), ("trim_cid.ts", "trimTs")])).map_err(|e| format!("filter_ruv_range: {e}"))?;
    // ---- reap_tombstones
    let be = parse_file(repo, "server/lib/src/be/mod.rs")?;
    let rt = squash(&find_fn(&be, "BackendWriteTransaction::reap_tombstones")?.block);
    let i_anchor = once(&rt, "self.get_ruv().insert_change(cid,IDLBitRange::default())?;", "reap_tombstones")?;
    let i_trim = once(&rt, "letidl=self.get_ruv().trim_up_to(trim_cid)", "reap_tombstones")?;
    let anchor_first = i_anchor < i_trim;
    let tests_trim = rt.matches(".partition(|e|e.get_changestate().can_delete(trim_cid));").count() == 1;
    if !tests_trim {
        return Err("reap_tombstones: partition by can_delete(trim_cid) not recognised".into());
    }
    once(&rt, "let(tombstones,leftover):(Vec<_>,Vec<_>)=entries.into_iter()", "reap_tombstones")?;
    once(&rt, "letid_list:IDLBitRange=tombstones.iter().map(|e|e.get_id()).collect();", "reap_tombstones")?;
    once(&rt, "self.get_idlayer().delete_identry(id_list.into_iter())?;", "reap_tombstones")?;
    // ---- purge_tombstones / purge_recycled
    let rec = parse_file(repo, "server/lib/src/server/recycle.rs")?;
    let pt = squash(&find_fn(&rec, "QueryServerWriteTransaction::purge_tombstones")?.block);
    let anchors_txn = pt.matches("lettrim_cid=self.trim_cid().clone();letanchor_cid=self.get_txn_cid().clone();").count() == 1 && pt.matches(".reap_tombstones(&anchor_cid,&trim_cid)").count() == 1;
    if !anchors_txn {
        return Err("purge_tombstones: anchor / trim cids not recognised".into());
    }
    let pr = squash(&find_fn(&rec, "QueryServerWriteTransaction::purge_recycled")?.block);
    once(&pr, "letcid=self.cid.sub_secs(RECYCLEBIN_MAX_AGE)", "purge_recycled")?;
    let expired = if pr.matches("filter_all!(f_and!([f_eq(Attribute::Class,EntryClass::Recycled.into()),f_lt(Attribute::LastModifiedCid,PartialValue::new_cid(cid)),]))").count() == 1 {
        "lt lastMod cutoff"
    } else {
        return Err("purge_recycled: search filter not recognised".into());
    };
    let tomb_at_txn = pr.matches("e.to_tombstone(self.cid.clone())").count() == 1 && pr.matches(".modify(&self.cid,&rc,&tombstone_cand)").count() == 1;
    if !tomb_at_txn {
        return Err("purge_recycled: to_tombstone(self.cid) / backend modify not recognised".into());
    }
    // ---- trim_cid and sub_secs
    let srv = parse_file(repo, "server/lib/src/server/mod.rs")?;
    let w = squash(&find_fn(&srv, "QueryServer::write")?.block);
    let r = squash(&find_fn(&srv, "QueryServer::read")?.block);
    let from_changelog = w.matches("lettrim_cid=cid.sub_secs(CHANGELOG_MAX_AGE)?;").count() == 1 && r.matches("lettrim_cid=cid_max.sub_secs(CHANGELOG_MAX_AGE)?;").count() == 1;
    if !from_changelog {
        return Err("QueryServer::read/write: trim_cid is no longer cid.sub_secs(CHANGELOG_MAX_AGE)".into());
    }
    let cid = parse_file(repo, "server/lib/src/repl/cid.rs")?;
    let ss = squash(&find_fn(&cid, "Cid::sub_secs")?.block);
    if ss != "{self.ts.checked_sub(Duration::from_secs(secs)).map(|r|Cid{s_uuid:uuid!(\"00000000-0000-0000-0000-000000000000\"),ts:r,}).ok_or(OperationError::InvalidReplChangeId)}" {
        return Err(format!("Cid::sub_secs: body not recognised: {ss}"));
    }
    let consts = parse_file(repo, "server/lib/src/constants/mod.rs")?;
    let cl = const_not_test(&consts, "CHANGELOG_MAX_AGE")?;
    let rb = const_not_test(&consts, "RECYCLEBIN_MAX_AGE")?;
    let b = |x: bool| if x { "true" } else { "false" };
    let body = format!(
        "namespace Kanidm.Gen.ReapOps\n\
/-- EntryChangeState::can_delete: the Tombstone arm compares `at` with the cid given, the Live arm is a constant -/\n\
def canDeleteTomb {{α : Type}} (lt : α → α → Bool) (at_ cid : α) : Bool := {tomb}\n\
def canDeleteLive : Bool := {live}\n\
/-- ReplicationUpdateVectorWriteTransaction::trim_up_to: `self.data.range((Unbounded, Excluded(cid)))` and `self.data.split_off_lt(cid)`: which cids leave the vector -/\n\
def trimRemoves {{α : Type}} (lt : α → α → Bool) (c trim : α) : Bool := {tr}\n\
/-- trim_up_to: a server whose timestamp set becomes empty is removed from `ranged` -/\n\
def trimDropsEmptyServers : Bool := {de}\n\
/-- ReplicationUpdateVectorTransaction::filter_ruv_range: the condition under which a server is left out of the view -/\n\
def filterDrops (last trimTs : Nat) : Bool := {fd}\n\
/-- BackendWriteTransaction::reap_tombstones: `insert_change(cid, ..)` (the anchor) precedes `trim_up_to(trim_cid)`; the entries found are partitioned by `can_delete(trim_cid)` -/\n\
def anchorBeforeTrim : Bool := {af}\n\
def reapTestsTrimCid : Bool := {tt}\n\
/-- QueryServerWriteTransaction::purge_tombstones: `reap_tombstones(&anchor_cid, &trim_cid)` with anchor = `get_txn_cid()`, trim = `trim_cid()` -/\n\
def purgeAnchorsAtTxnCid : Bool := {at}\n\
/-- QueryServer::write / read: `trim_cid = cid.sub_secs(CHANGELOG_MAX_AGE)`; Cid::sub_secs keeps the timestamp minus the seconds under the nil server uuid (0), an error if it would be negative -/\n\
def trimFromChangelogMaxAge : Bool := {fc}\n\
def subSecsServer : Nat := 0\n\
/-- constants/mod.rs, `#[cfg(not(test))]`: seconds -/\n\
def changelogMaxAge : Nat := {cl}\n\
def recyclebinMaxAge : Nat := {rb}\n\
/-- QueryServerWriteTransaction::purge_recycled: recycled entries with `f_lt(LastModifiedCid, cid.sub_secs(RECYCLEBIN_MAX_AGE))` become tombstones `to_tombstone(self.cid)` -/\n\
def recycleExpired {{α : Type}} (lt : α → α → Bool) (lastMod cutoff : α) : Bool := {ex}\n\
def purgeRecycledTombstonesAtTxnCid : Bool := {ta}\n\
end Kanidm.Gen.ReapOps\n",
        tomb = tomb,
        live = b(live),
        tr = trim_removes,
        de = b(drops_empty),
        fd = filter_drops,
        af = b(anchor_first),
        tt = b(tests_trim),
        at = b(anchors_txn),
        fc = b(from_changelog),
        cl = cl,
        rb = rb,
        ex = expired,
        ta = b(tomb_at_txn),
    );
    write_generated(
        out,
        "ReapOps",
        "server/lib/src/repl/entry.rs (can_delete) + server/lib/src/repl/ruv.rs (trim_up_to, filter_ruv_range) + server/lib/src/be/mod.rs (reap_tombstones) + server/lib/src/server/recycle.rs (purge_recycled, purge_tombstones) + server/lib/src/server/mod.rs (trim_cid) + server/lib/src/repl/cid.rs (sub_secs) + server/lib/src/constants/mod.rs",
        &body,
    )?;
    Ok(format!(
        "ReapOps: can_delete tomb `{tomb}` live {live}, trim removes `{trim_removes}`, view drops `{filter_drops}`, anchor first {anchor_first}, windows {cl}/{rb} s, expired `{expired}`"
    ))
}
