//! C30 translator item `pwformat-tables`: everything table- or operator-like in
//! libs/crypto/src/lib.rs that the import-format model and the verify wrapper turn on:
//! constants, the `verify_ctx` length guard, the variants of `enum Kdf`, the primitive each
//! `verify_ctx` arm runs, the `to_dbpasswordv1` / `TryFrom<DbPasswordV1>` variant maps, the leading
//! `if` chain and the `{tag}` match of `TryFrom<&str>`, `parse_pbkdf2`'s and `parse_crypt`'s tables.
//! Arm bodies are compared token-for-token against the shapes the model transcribes; anything else
//! is an `Err` (reported as broken obligation `translate:pwformat-tables`).
use crate::util::*;
use quote::ToTokens;
use syn::{Expr, Item, Pat, Stmt};

pub fn run(item: &str, repo: &str, out: &str) -> Option<Result<String, String>> {
    match item {
        "pwformat-tables" => Some(tables(repo, out)),
        _ => None,
    }
}

fn toks<T: ToTokens>(t: &T) -> String {
    t.to_token_stream().to_string()
}

/// `impl TryFrom<ARG> for Password { fn try_from … }`
fn try_from_impl(ast: &syn::File, arg: &str) -> Result<syn::Block, String> {
    let mut found = vec![];
    for it in &ast.items {
        if let Item::Impl(i) = it {
            let Some((_, path, _)) = &i.trait_ else { continue };
            let Some(last) = path.segments.last() else { continue };
            if last.ident != "TryFrom" || toks(&last.arguments) != arg || toks(&i.self_ty) != "Password" {
                continue;
            }
            for ii in &i.items {
                if let syn::ImplItem::Fn(f) = ii {
                    if f.sig.ident == "try_from" {
                        found.push(f.block.clone());
                    }
                }
            }
        }
    }
    match found.len() {
        1 => Ok(found.remove(0)),
        n => Err(format!("impl TryFrom{arg} for Password: {n} try_from functions")),
    }
}

/// The trailing expression of a block.
fn tail(b: &syn::Block) -> Result<&Expr, String> {
    match b.stmts.last() {
        Some(Stmt::Expr(e, None)) => Ok(e),
        _ => Err(format!("block has no trailing expression: `{}`", toks(b))),
    }
}

/// `if c1 {b1} else if c2 {b2} … else {e}` ↦ ([(c, b)], e)
fn if_chain(e: &Expr) -> Result<(Vec<(Expr, syn::Block)>, syn::Block), String> {
    let mut arms = vec![];
    let mut cur = e;
    loop {
        match cur {
            Expr::If(i) => {
                arms.push(((*i.cond).clone(), i.then_branch.clone()));
                match &i.else_branch {
                    Some((_, next)) => match &**next {
                        Expr::Block(b) => return Ok((arms, b.block.clone())),
                        other => cur = other,
                    },
                    None => return Err("if chain without a final else".into()),
                }
            }
            _ => return Err(format!("expected an if chain, found `{}`", toks(cur))),
        }
    }
}

fn str_lits_of_pat(p: &Pat) -> Result<Vec<String>, String> {
    match p {
        Pat::Lit(l) => match &l.lit {
            syn::Lit::Str(s) => Ok(vec![s.value()]),
            _ => Err(format!("non-string pattern `{}`", toks(p))),
        },
        Pat::Or(o) => {
            let mut v = vec![];
            for c in &o.cases {
                v.extend(str_lits_of_pat(c)?);
            }
            Ok(v)
        }
        _ => Err(format!("unsupported pattern `{}`", toks(p))),
    }
}

fn chars(s: &str) -> String {
    let body: Vec<String> = s
        .chars()
        .map(|c| match c {
            '\'' => "'\\''".to_string(),
            '\\' => "'\\\\'".to_string(),
            c if c.is_ascii_graphic() || c == ' ' => format!("'{c}'"),
            c => format!("(Char.ofNat {})", c as u32),
        })
        .collect();
    format!("[{}]", body.join(","))
}

fn lean_const(name: &str) -> String {
    // PW_MAX_LENGTH_CHECK -> pwMaxLengthCheck
    let mut out = String::new();
    for (i, part) in name.split('_').enumerate() {
        let p = part.to_lowercase();
        if i == 0 {
            out.push_str(&p);
        } else {
            let mut cs = p.chars();
            if let Some(f) = cs.next() {
                out.push(f.to_ascii_uppercase());
                out.extend(cs);
            }
        }
    }
    out
}

/// the identifier following `marker` in a token string
fn ident_after<'a>(s: &'a str, marker: &str) -> Result<&'a str, String> {
    let i = s.find(marker).ok_or_else(|| format!("`{marker}` not found in `{s}`"))?;
    let rest = &s[i + marker.len()..];
    let end = rest.find(|c: char| !(c.is_alphanumeric() || c == '_')).unwrap_or(rest.len());
    if end == 0 {
        return Err(format!("no identifier after `{marker}` in `{s}`"));
    }
    Ok(&rest[..end])
}

/// Find the first `match <scrutinee>` (token string) inside a block.
fn find_match(b: &syn::Block, scrutinee: &str) -> Result<syn::ExprMatch, String> {
    use syn::visit::Visit;
    struct V<'a>(&'a str, Vec<syn::ExprMatch>);
    impl<'a, 'ast> Visit<'ast> for V<'a> {
        fn visit_expr_match(&mut self, m: &'ast syn::ExprMatch) {
            if m.expr.to_token_stream().to_string() == self.0 {
                self.1.push(m.clone());
            }
            syn::visit::visit_expr_match(self, m);
        }
    }
    let mut v = V(scrutinee, vec![]);
    v.visit_block(b);
    match v.1.len() {
        1 => Ok(v.1.remove(0)),
        n => Err(format!("expected one `match {scrutinee}`, found {n}")),
    }
}

/// `Kdf::X { .. }` / `Kdf::X(a, b)` / `DbPasswordV1::X …` ↦ (enum, variant, positional bindings)
fn variant_pat(p: &Pat) -> Result<(String, String, Vec<String>), String> {
    let (path, binds) = match p {
        Pat::Struct(s) => (&s.path, vec![]),
        Pat::TupleStruct(t) => (&t.path, t.elems.iter().map(|e| toks(e)).collect()),
        Pat::Reference(r) => return variant_pat(&r.pat),
        _ => return Err(format!("unsupported variant pattern `{}`", toks(p))),
    };
    let segs: Vec<String> = path.segments.iter().map(|s| s.ident.to_string()).collect();
    if segs.len() != 2 {
        return Err(format!("unsupported variant path `{}`", toks(p)));
    }
    Ok((segs[0].clone(), segs[1].clone(), binds))
}

fn hash_name(s: &str) -> Result<&'static str, String> {
    match s {
        "Sha1" => Ok(".Sha1"),
        "Sha256" => Ok(".Sha256"),
        "Sha512" => Ok(".Sha512"),
        _ => Err(format!("unknown hash `{s}`")),
    }
}

/// Classify the body of one `verify_ctx` arm.
fn verify_prim(variant: &str, binds: &[String], body: &str) -> Result<String, String> {
    let has = |x: &str| body.contains(x);
    if has("HsmContextMissing") {
        return Ok(".hsmMissing".into());
    }
    if has("Algorithm :: Argon2id") && has("hash_password_into") {
        if has("hmac_s256") {
            return Ok(".tpmArgon2id".into());
        }
        if has("cleartext . as_bytes ()") && has("salt . as_slice ()") && has("& check_key == key") {
            return Ok(".argon2id".into());
        }
        return Err(format!("{variant}: unrecognised argon2id arm `{body}`"));
    }
    if has("pbkdf2_hmac :: <") {
        let h = ident_after(body, "pbkdf2_hmac :: < ")?;
        let want = format!(
            "pbkdf2_hmac :: < {h} > (cleartext . as_bytes () , salt . as_slice () , * cost , chal_key . as_mut_slice () ,) ; Ok (& chal_key == key)"
        );
        if !has(&want) || !has("let key_len = key . len () ;") || binds != ["cost", "salt", "key"] {
            return Err(format!("{variant}: unrecognised pbkdf2 arm `{body}` (bindings {binds:?})"));
        }
        return Ok(format!(".pbkdf2 {}", hash_name(h)?));
    }
    if has("let mut hasher = Sha") {
        let h = ident_after(body, "let mut hasher = ")?;
        // the update sequence
        let mut feeds = vec![];
        let mut rest = body;
        while let Some(i) = rest.find("hasher . update (") {
            let after = &rest[i + "hasher . update (".len()..];
            let end = after.find(") ;").ok_or("unterminated update")?;
            feeds.push(after[..end].trim().to_string());
            rest = &after[end..];
        }
        let (salt_bind, key_bind) = match binds {
            [k] => (None, k.clone()),
            [s, k] => (Some(s.clone()), k.clone()),
            _ => return Err(format!("{variant}: unexpected bindings {binds:?}")),
        };
        let mut lf = vec![];
        for f in &feeds {
            if f == "cleartext . as_bytes ()" {
                lf.push(".cleartext");
            } else if Some(f) == salt_bind.as_ref() {
                lf.push(".salt");
            } else {
                return Err(format!("{variant}: hasher fed with `{f}`"));
            }
        }
        let want_tail = format!("let r = hasher . finalize () ; Ok ({key_bind} == & (r . to_vec ()))");
        if !has(&want_tail) || !has(&format!("let mut hasher = {h} :: new () ;")) {
            return Err(format!("{variant}: unrecognised digest arm `{body}`"));
        }
        return Ok(format!(".digest {} [{}]", hash_name(h)?, lf.join(", ")));
    }
    if has("Md4 :: new ()") {
        if has("cleartext . encode_utf16 () . map (| c | c . to_le_bytes ())")
            && has("hasher . update (& clear_utf16le) ;")
            && has("Ok (chal_key . as_slice () == key)")
        {
            return Ok(".md4Utf16le".into());
        }
        return Err(format!("{variant}: unrecognised md4 arm `{body}`"));
    }
    if has("crypt_md5 :: do_md5_crypt") {
        if has("let chal_key = crypt_md5 :: do_md5_crypt (cleartext . as_bytes () , s) ; Ok (chal_key == * h)") {
            return Ok(".md5Crypt".into());
        }
        return Err(format!("{variant}: unrecognised md5-crypt arm `{body}`"));
    }
    for (f, h) in [("sha256_check", ".Sha256"), ("sha512_check", ".Sha512")] {
        let want = format!("let is_valid = sha_crypt :: {f} (cleartext , h . as_str ()) . is_ok () ; Ok (is_valid)");
        if has(&want) {
            return Ok(format!(".shaCrypt {h}"));
        }
    }
    Err(format!("{variant}: unrecognised verify arm `{body}`"))
}

fn tables(repo: &str, out: &str) -> Result<String, String> {
    let rel = "libs/crypto/src/lib.rs";
    let ast = parse_file(repo, rel)?;

    // ---- constants ------------------------------------------------------------------
    fn cval(ast: &syn::File, name: &str, depth: u32) -> Result<i128, String> {
        if depth > 8 {
            return Err(format!("constant {name}: definition too deep"));
        }
        let e = find_const(ast, name).ok_or_else(|| format!("constant {name} not found"))?;
        eval_int(&e, &|n| cval(ast, n, depth + 1).ok())
    }
    let consts = [
        "PW_MAX_LENGTH_CHECK",
        "PBKDF2_MIN_NIST_KEY_LEN",
        "PBKDF2_SHA1_MIN_KEY_LEN",
        "DS_SHA1_HASH_LEN",
        "DS_SHA256_HASH_LEN",
        "DS_SHA512_HASH_LEN",
        "ARGON2_VERSION",
    ];
    let mut body = String::from("namespace Kanidm.Gen.PwFormat\n");
    for c in consts {
        body += &format!("def {} : Nat := {}\n", lean_const(c), cval(&ast, c, 0)?);
    }

    // ---- verify_ctx guard --------------------------------------------------------------
    let vf = find_fn(&ast, "Password::verify_ctx")?;
    let guard = match vf.block.stmts.first() {
        Some(Stmt::Expr(Expr::If(i), _)) if i.else_branch.is_none() => i.clone(),
        _ => return Err("verify_ctx: the first statement is not the length guard".into()),
    };
    let then_s = toks(&guard.then_branch);
    if !then_s.ends_with("return Ok (false) ; }") {
        return Err(format!("verify_ctx: guard does not `return Ok(false)`: `{then_s}`"));
    }
    let v = super::vars(&[("cleartext.len()", "len"), ("PW_MAX_LENGTH_CHECK", "pwMaxLengthCheck")]);
    body += &format!("/-- `{}` -/\ndef tooLong (len : Nat) : Bool := {}\n", toks(&guard.cond), lean_expr(&guard.cond, &v)?);

    // ---- parse_django_password -------------------------------------------------------------
    let df = find_fn(&ast, "parse_django_password")?;
    let conds = if_conditions(&df.block);
    let cs: Vec<String> = conds.iter().map(toks).collect();
    if cs.len() != 2 || cs[0] != "django_pbkdf . len () != 4" {
        return Err(format!("parse_django_password: unexpected conditions {cs:?}"));
    }
    let dbody = toks(&df.block);
    for need in [
        "let django_pbkdf : Vec < & str > = value . split ('$') . collect () ;",
        "let cost = django_pbkdf [1] ; let salt = django_pbkdf [2] ; let hash = django_pbkdf [3] ;",
        "let c = cost . parse :: < u32 > () ? ;",
        "let s : Vec < _ > = salt . as_bytes () . to_vec () ;",
        "let h = general_purpose :: STANDARD . decode (hash) ? ;",
        "{ Err (PasswordError :: InvalidLength) } else { Ok (Password { material : Kdf :: PBKDF2 (c , s , h) , }) }",
    ] {
        if !dbody.contains(need) {
            return Err(format!("parse_django_password: expected `{need}` in `{dbody}`"));
        }
    }
    let v = super::vars(&[("h.len()", "len"), ("PBKDF2_MIN_NIST_KEY_LEN", "pbkdf2MinNistKeyLen")]);
    body += &format!(
        "/-- `{}` (parse_django_password) -/\ndef djangoKeyTooShort (len : Nat) : Bool := {}\n",
        cs[1],
        lean_expr(&conds[1], &v)?
    );

    // ---- enum Kdf ------------------------------------------------------------------------
    let kdf = ast
        .items
        .iter()
        .find_map(|it| match it {
            Item::Enum(e) if e.ident == "Kdf" => Some(e),
            _ => None,
        })
        .ok_or("enum Kdf not found")?;
    let variants: Vec<String> = kdf.variants.iter().map(|v| v.ident.to_string()).collect();
    body += "/-- variants of `enum Kdf` in source order -/\ninductive KdfTag where\n  | ";
    body += &variants.join(" | ");
    body += "\n  deriving DecidableEq, Repr\n";
    body += "/-- hash functions named in verify_ctx -/\ninductive Hash where\n  | Sha1 | Sha256 | Sha512\n  deriving DecidableEq, Repr\n";
    body += "/-- what a hasher is fed, in `update` order -/\ninductive Feed where\n  | cleartext | salt\n  deriving DecidableEq, Repr\n";
    body += "/-- the primitive each verify_ctx arm runs -/\ninductive Prim where\n  | tpmArgon2id | hsmMissing | argon2id\n  | pbkdf2 (h : Hash)\n  | digest (h : Hash) (feeds : List Feed)\n  | md4Utf16le | md5Crypt\n  | shaCrypt (h : Hash)\n  deriving DecidableEq, Repr\n";

    // ---- verify_ctx arms (hsm = None) --------------------------------------------------
    let vm = find_match(&vf.block, "(& self . material , hsm)")?;
    let mut vt: Vec<(String, String)> = vec![];
    for arm in &vm.arms {
        let Pat::Tuple(t) = &arm.pat else { return Err(format!("verify_ctx: arm pattern `{}`", toks(&arm.pat))) };
        if t.elems.len() != 2 {
            return Err(format!("verify_ctx: arm pattern `{}`", toks(&arm.pat)));
        }
        let second = toks(&t.elems[1]);
        if second.starts_with("Some") {
            continue; // not reachable without an HSM context
        }
        if second != "None" && second != "_" {
            return Err(format!("verify_ctx: second pattern `{second}`"));
        }
        let (en, var, binds) = variant_pat(&t.elems[0])?;
        if en != "Kdf" || arm.guard.is_some() {
            return Err(format!("verify_ctx: arm `{}`", toks(&arm.pat)));
        }
        if vt.iter().any(|(k, _)| *k == var) {
            continue; // an earlier arm already decides this variant
        }
        let prim = verify_prim(&var, &binds, &toks(&arm.body))?;
        vt.push((var, prim));
    }
    body += "/-- verify_ctx arms (hsm = None), in source order -/\ndef verifyTable : List (KdfTag × Prim) := [\n";
    body += &vt.iter().map(|(k, p)| format!("  (.{k}, {p})")).collect::<Vec<_>>().join(",\n");
    body += "]\n";

    // ---- storage maps ----------------------------------------------------------------------
    let tf = find_fn(&ast, "Password::to_dbpasswordv1")?;
    let tm = find_match(&tf.block, "& self . material")?;
    let mut to_db = vec![];
    for arm in &tm.arms {
        let (en, var, _) = variant_pat(&arm.pat)?;
        let b = toks(&arm.body);
        if en != "Kdf" {
            return Err(format!("to_dbpasswordv1: arm `{}`", toks(&arm.pat)));
        }
        to_db.push((var, ident_after(&b, "DbPasswordV1 :: ")?.to_string()));
    }
    let ff = try_from_impl(&ast, "< DbPasswordV1 >")?;
    let fm = find_match(&ff, "value")?;
    let mut from_db = vec![];
    for arm in &fm.arms {
        let (en, var, _) = variant_pat(&arm.pat)?;
        let b = toks(&arm.body);
        if en != "DbPasswordV1" || !b.starts_with("Ok (Password { material : Kdf :: ") {
            return Err(format!("TryFrom<DbPasswordV1>: arm `{}` => `{b}`", toks(&arm.pat)));
        }
        from_db.push((var, ident_after(&b, "material : Kdf :: ")?.to_string()));
    }
    let pairs = |v: &[(String, String)]| v.iter().map(|(a, b)| format!("(.{a}, .{b})")).collect::<Vec<_>>().join(", ");
    body += &format!(
        "/-- to_dbpasswordv1: Kdf variant ↦ DbPasswordV1 variant (named by the Kdf variant of the same name) -/\ndef toDb : List (KdfTag × KdfTag) := [{}]\n",
        pairs(&to_db)
    );
    body += &format!(
        "/-- TryFrom<DbPasswordV1>: DbPasswordV1 variant ↦ Kdf variant -/\ndef fromDb : List (KdfTag × KdfTag) := [{}]\n",
        pairs(&from_db)
    );

    // ---- TryFrom<&str>: the `{tag}` match ------------------------------------------------------
    let sf = try_from_impl(&ast, "< & str >")?;
    let tagm = find_match(&sf, "hash_format . as_str ()")?;
    body += "/-- how the import layer handles a `{tag}`: arms of the `match hash_format.as_str()` in source order -/\ninductive TagParser where\n  | pbkdf2 | invalidFormat | argon | crypt\n  /-- unsalted digest: exact length `n` -/\n  | ds (n : Nat) (k : KdfTag)\n  /-- salted digest: split at `n`; `strict` = additionally `sh.len() <= n` is refused -/\n  | dss (n : Nat) (strict : Bool) (k : KdfTag)\n  deriving DecidableEq, Repr\n";
    let mut tag_rows = vec![];
    let n_arms = tagm.arms.len();
    for (i, arm) in tagm.arms.iter().enumerate() {
        let b = toks(&arm.body);
        if let Pat::Wild(_) = arm.pat {
            if i != n_arms - 1 || b != "Err (PasswordError :: NoDecoderFound (hash_format))" {
                return Err(format!("tag match: wildcard arm `{b}` (position {i})"));
            }
            continue;
        }
        let tags = str_lits_of_pat(&arm.pat)?;
        let parser = if b == "{ parse_pbkdf2 (& hash_format , hash_value) }" {
            ".pbkdf2".to_string()
        } else if b == "Err (PasswordError :: InvalidFormat)" {
            ".invalidFormat".to_string()
        } else if b == "parse_argon (hash_value)" {
            ".argon".to_string()
        } else if b == "parse_crypt (hash_value)" {
            ".crypt".to_string()
        } else if b.contains("split_at_checked") {
            let c = ident_after(&b, "split_at_checked (")?;
            let k = ident_after(&b, "material : Kdf :: ")?;
            let strict_part = format!("if sh . len () <= {c} {{ return Err (PasswordError :: InvalidSaltLength) ; }} ");
            let strict = b.contains(&strict_part);
            let want = format!(
                "{{ let sh = general_purpose :: STANDARD . decode (hash_value) ? ; {}let (h , s) = sh . split_at_checked ({c}) . ok_or (PasswordError :: InvalidLength) ? ; Ok (Password {{ material : Kdf :: {k} (s . to_vec () , h . to_vec ()) , }}) }}",
                if strict { strict_part.as_str() } else { "" }
            );
            if b != want {
                return Err(format!("tag match: salted digest arm {tags:?}:\n  found  `{b}`\n  wanted `{want}`"));
            }
            format!(".dss {} {} .{k}", lean_const(c), strict)
        } else {
            let c = ident_after(&b, "if h . len () != ")?;
            let k = ident_after(&b, "material : Kdf :: ")?;
            let want = format!(
                "{{ let h = general_purpose :: STANDARD . decode (hash_value) ? ; if h . len () != {c} {{ return Err (PasswordError :: InvalidSaltLength) ; }} Ok (Password {{ material : Kdf :: {k} (h . to_vec ()) , }}) }}"
            );
            if b != want {
                return Err(format!("tag match: digest arm {tags:?}:\n  found  `{b}`\n  wanted `{want}`"));
            }
            format!(".ds {} .{k}", lean_const(c))
        };
        for t in tags {
            tag_rows.push(format!("  ({}, {parser})", chars(&t)));
        }
    }
    body += "def tagTable : List (List Char × TagParser) := [\n";
    body += &tag_rows.join(",\n");
    body += "]\n";
    // the text around the match: split at '}', strip '{', lower-case
    let sbody = toks(&sf);
    for need in [
        "match value . split_once ('}')",
        "Some ((format , value)) => (format . strip_prefix ('{') . unwrap_or (format) . to_lowercase () , value ,)",
        "None => { return Err (PasswordError :: InvalidFormat) ; }",
    ] {
        if !sbody.contains(need) {
            return Err(format!("TryFrom<&str>: expected `{need}`"));
        }
    }

    // ---- parse_pbkdf2 ----------------------------------------------------------------------------
    let pf = find_fn(&ast, "parse_pbkdf2")?;
    let pm = find_match(&pf.block, "hash_format")?;
    let mut prow = vec![];
    let n_arms = pm.arms.len();
    for (i, arm) in pm.arms.iter().enumerate() {
        let b = toks(&arm.body);
        if let Pat::Wild(_) = arm.pat {
            if i != n_arms - 1 || b != "Err (PasswordError :: UnsupportedAlgorithm (hash_format . to_string ()))" {
                return Err(format!("parse_pbkdf2: wildcard arm `{b}`"));
            }
            continue;
        }
        let c = ident_after(&b, "if h . len () < ")?;
        let k = ident_after(&b, "material : Kdf :: ")?;
        let want = format!(
            "{{ if h . len () < {c} {{ Err (PasswordError :: InvalidKeyLength) }} else {{ Ok (Password {{ material : Kdf :: {k} (c , s , h) , }}) }} }}"
        );
        if b != want {
            return Err(format!("parse_pbkdf2: arm:\n  found  `{b}`\n  wanted `{want}`"));
        }
        for t in str_lits_of_pat(&arm.pat)? {
            prow.push(format!("  ({}, {}, .{k})", chars(&t), lean_const(c)));
        }
    }
    let pbody = toks(&pf.block);
    for need in [
        "let ol_pbkdf : Vec < & str > = hash_value . split ('$') . collect () ; if ol_pbkdf . len () != 3",
        "return Err (PasswordError :: InvalidLength) ;",
        "let cost = ol_pbkdf [0] ; let salt = ol_pbkdf [1] ; let hash = ol_pbkdf [2] ; let c : u32 = cost . parse () ? ;",
        "let s = ab64_to_b64 ! (salt) ;",
        "GeneralPurposeConfig :: new () . with_decode_allow_trailing_bits (true) ;",
        "GeneralPurpose :: new (& alphabet :: STANDARD , base64_decoder_config) ;",
        "let h = ab64_to_b64 ! (hash) ;",
    ] {
        if !pbody.contains(need) {
            return Err(format!("parse_pbkdf2: expected `{need}`"));
        }
    }
    body += "/-- parse_pbkdf2: `match hash_format` arms: tag ↦ (minimum key length, Kdf variant) -/\ndef pbkdf2Table : List (List Char × Nat × KdfTag) := [\n";
    body += &prow.join(",\n");
    body += "]\n";

    // ---- parse_crypt ---------------------------------------------------------------------------------
    let cf = find_fn(&ast, "parse_crypt")?;
    let (arms, els) = if_chain(tail(&cf.block)?)?;
    if toks(&els) != "{ Err (PasswordError :: UnsupportedAlgorithm (\"crypt\" . to_string ())) }" {
        return Err(format!("parse_crypt: final else `{}`", toks(&els)));
    }
    let mut crow = vec![];
    for (i, (c, b)) in arms.iter().enumerate() {
        let cs = toks(c);
        let bs = toks(b);
        let (lit, want_cond, want_body): (String, String, String);
        let k = ident_after(&bs, "material : Kdf :: ")?.to_string();
        if i == 0 {
            lit = cs.split('"').nth(1).unwrap_or("").to_string();
            want_cond = format!("let Some (crypt_md5_phc) = hash_value . strip_prefix (\"{lit}\")");
            want_body = format!("{{ let (salt , hash) = crypt_md5_phc . split_once ('$') . ok_or (PasswordError :: ParsingFailed) ? ; let s = salt . as_bytes () . to_vec () ; let h = hash . as_bytes () . to_vec () ; Ok (Password {{ material : Kdf :: {k} {{ s , h }} , }}) }}");
        } else {
            lit = cs.split('"').nth(1).unwrap_or("").to_string();
            want_cond = format!("hash_value . starts_with (\"{lit}\")");
            want_body = format!("{{ Ok (Password {{ material : Kdf :: {k} {{ h : hash_value . to_string () , }} , }}) }}");
        }
        if cs != want_cond || bs != want_body {
            return Err(format!("parse_crypt: arm {i}:\n  found  `{cs}` `{bs}`\n  wanted `{want_cond}` `{want_body}`"));
        }
        crow.push(format!("({}, .{k})", chars(&lit)));
    }
    if crow.len() != 3 || !crow[0].ends_with(".CRYPT_MD5)") {
        return Err(format!("parse_crypt: expected the md5 arm first and three arms, found {crow:?}"));
    }
    body += &format!(
        "/-- parse_crypt: prefix ↦ Kdf variant, in `if` order (the first is split at the next `$`, the others keep the whole string) -/\ndef cryptTable : List (List Char × KdfTag) := [{}]\n",
        crow.join(", ")
    );

    // ---- TryFrom<&str>: the leading if chain ----------------------------------------------------------------
    let (arms, els) = if_chain(tail(&sf)?)?;
    if toks(&els) != "{ Err (PasswordError :: NoDecoderFound (value . chars () . take (5) . collect () ,)) }" {
        return Err(format!("TryFrom<&str>: final else `{}`", toks(&els)));
    }
    body += "/-- parsers the leading `if` chain of TryFrom<&str> hands over to -/\ninductive TopParser where\n  | parse_django_password | parse_ipanthash | parse_sambantpassword | braced\n  deriving DecidableEq, Repr\n";
    let mut rows = vec![];
    for (c, b) in &arms {
        let cs = toks(c);
        let bs = toks(b);
        let lit = cs.split('"').nth(1).unwrap_or("").to_string();
        let (strip, arg) = if cs == format!("value . starts_with (\"{lit}\")") {
            (false, "value")
        } else if cs == format!("let Some (hash_value) = value . strip_prefix (\"{lit}\")") {
            (true, "hash_value")
        } else {
            return Err(format!("TryFrom<&str>: condition `{cs}`"));
        };
        let parser = if bs.contains("match hash_format . as_str ()") {
            if strip {
                return Err("TryFrom<&str>: the `{` branch strips its prefix".into());
            }
            "braced".to_string()
        } else {
            let f = ident_after(&bs, "{ ")?.to_string();
            if bs != format!("{{ {f} ({arg}) }}") {
                return Err(format!("TryFrom<&str>: branch `{bs}` for `{cs}`"));
            }
            f
        };
        if !["parse_django_password", "parse_ipanthash", "parse_sambantpassword", "braced"].contains(&parser.as_str()) {
            return Err(format!("TryFrom<&str>: unknown parser `{parser}`"));
        }
        rows.push(format!("  ({}, {strip}, .{parser})", chars(&lit)));
    }
    body += "/-- TryFrom<&str>: the leading `if` chain in order: (prefix, `strip_prefix` (true) or `starts_with` (false), parser) -/\ndef prefixTable : List (List Char × Bool × TopParser) := [\n";
    body += &rows.join(",\n");
    body += "]\nend Kanidm.Gen.PwFormat\n";

    // parse_ipanthash / parse_sambantpassword: decoders and order
    let ib = toks(&find_fn(&ast, "parse_ipanthash")?.block);
    let want = "{ let h = base64 :: engine :: general_purpose :: URL_SAFE_NO_PAD . decode (hash_value) . or_else (| _ | base64 :: engine :: general_purpose :: URL_SAFE . decode (hash_value)) ? ; Ok (Password { material : Kdf :: NT_MD4 (h) , }) }";
    if ib != want {
        return Err(format!("parse_ipanthash:\n  found  `{ib}`\n  wanted `{want}`"));
    }
    let sb = toks(&find_fn(&ast, "parse_sambantpassword")?.block);
    let want = "{ let h = hex :: decode (hash_value) . map_err (| _ | PasswordError :: ParsingFailed) ? ; Ok (Password { material : Kdf :: NT_MD4 (h) , }) }";
    if sb != want {
        return Err(format!("parse_sambantpassword:\n  found  `{sb}`\n  wanted `{want}`"));
    }
    // the ab64_to_b64! macro
    let mac = ast
        .items
        .iter()
        .find_map(|it| match it {
            Item::Macro(m) if m.ident.as_ref().map(|i| i == "ab64_to_b64").unwrap_or(false) => Some(toks(&m.mac.tokens)),
            _ => None,
        })
        .ok_or("macro ab64_to_b64 not found")?;
    let want = "($ ab64 : expr) => { { let mut s = $ ab64 . replace (\".\" , \"+\") ; match s . len () & 3 { 0 => { } 1 => { } 2 => s . push_str (\"==\") , 3 => s . push_str (\"=\") , _ => unreachable ! () , } s } } ;";
    if mac != want {
        return Err(format!("ab64_to_b64!:\n  found  `{mac}`\n  wanted `{want}`"));
    }

    write_generated(
        out,
        "PwFormatTables",
        &format!("{rel} (consts, enum Kdf, TryFrom<&str> for Password, parse_django_password, parse_ipanthash, parse_sambantpassword, parse_pbkdf2, ab64_to_b64!, parse_crypt, verify_ctx, to_dbpasswordv1, TryFrom<DbPasswordV1>)"),
        &body,
    )?;
    Ok(format!(
        "PwFormatTables: {} consts, {} Kdf variants, {} verify arms, {} tags, {} pbkdf2 tags, {} crypt prefixes, {} prefixes",
        consts.len(),
        variants.len(),
        vt.len(),
        tag_rows.len(),
        prow.len(),
        crow.len(),
        rows.len()
    ))
}
