//! C46 translator item `radius-ops`: the decision-carrying tokens of
//! rlm_kanidm/module/src/logic.rs are re-read from the source and emitted as Lean defs:
//! the `AuthError` enum, the membership predicate + quantifier of `user_in_required_groups`,
//! the identity-source order of `AuthRequest::user_id`, the early-return table and guard polarity
//! of `Module::authorise`, the status that `fetch_token` maps to "no such user", and the lookup
//! key / initial value / assignment of `resolve_group_configs`.
//! Any shape not recognised is an `Err` (never a guess).
use crate::util::*;
use quote::ToTokens;
use syn::visit::Visit;
use syn::{Expr, Pat, Stmt};

pub fn run(item: &str, repo: &str, out: &str) -> Option<Result<String, String>> {
    match item {
        "radius-ops" => Some(radius_ops(repo, out)),
        _ => None,
    }
}

fn ts<T: ToTokens>(t: &T) -> String {
    t.to_token_stream().to_string()
}

fn lower_camel(s: &str) -> String {
    let mut c = s.chars();
    match c.next() {
        Some(f) => f.to_lowercase().collect::<String>() + c.as_str(),
        None => String::new(),
    }
}

fn strip(e: &Expr) -> &Expr {
    match e {
        Expr::Paren(p) => strip(&p.expr),
        Expr::Group(g) => strip(&g.expr),
        Expr::Reference(r) => strip(&r.expr),
        _ => e,
    }
}

/// `self.required_groups.contains(&group.F)` combined with `||`, `&&`, `!`.
fn member_expr(e: &Expr, closure_arg: &str) -> Result<String, String> {
    match strip(e) {
        Expr::Binary(b) => {
            let l = member_expr(&b.left, closure_arg)?;
            let r = member_expr(&b.right, closure_arg)?;
            match b.op {
                syn::BinOp::Or(_) => Ok(format!("({l} || {r})")),
                syn::BinOp::And(_) => Ok(format!("({l} && {r})")),
                _ => Err(format!("unsupported operator in membership predicate `{}`", ts(e))),
            }
        }
        Expr::Unary(u) if matches!(u.op, syn::UnOp::Not(_)) => {
            Ok(format!("(!{})", member_expr(&u.expr, closure_arg)?))
        }
        Expr::MethodCall(m) if m.method == "contains" && m.args.len() == 1 => {
            let recv = path_string(&m.receiver).unwrap_or_default();
            if recv != "self.required_groups" {
                return Err(format!("membership test against `{recv}`, expected self.required_groups"));
            }
            let arg = path_string(&m.args[0]).unwrap_or_default();
            let field = arg
                .strip_prefix(&format!("{closure_arg}."))
                .ok_or_else(|| format!("membership argument `{arg}` is not a field of the group"))?;
            match field {
                "uuid" | "spn" => Ok(format!("required.contains {field}")),
                f => Err(format!("unknown group field `{f}`")),
            }
        }
        other => Err(format!("unrecognised membership predicate `{}`", ts(other))),
    }
}

/// The single `return Err(AuthError::X)` of a block.
fn returned_err(block: &syn::Block) -> Result<String, String> {
    struct V(Vec<String>, Vec<String>);
    impl<'ast> Visit<'ast> for V {
        fn visit_expr_return(&mut self, r: &'ast syn::ExprReturn) {
            match r.expr.as_deref().and_then(err_variant) {
                Some(v) => self.0.push(v),
                None => self.1.push(ts(r)),
            }
        }
    }
    let mut v = V(vec![], vec![]);
    v.visit_block(block);
    if !v.1.is_empty() {
        return Err(format!("early return that is not `Err(AuthError::X)`: {:?}", v.1));
    }
    match v.0.len() {
        1 => Ok(v.0.remove(0)),
        n => Err(format!("expected exactly one `return Err(AuthError::X)`, found {n} in `{}`", ts(block))),
    }
}

/// `Err(AuthError::X)` ↦ X
fn err_variant(e: &Expr) -> Option<String> {
    if let Expr::Call(c) = strip(e) {
        if path_string(&c.func).as_deref() == Some("Err") && c.args.len() == 1 {
            let p = path_string(&c.args[0])?;
            return p.strip_prefix("AuthError::").map(|s| s.to_string());
        }
    }
    None
}

fn expr_block(e: &Expr) -> Result<syn::Block, String> {
    match e {
        Expr::Block(b) => Ok(b.block.clone()),
        other => Err(format!("expected a block, found `{}`", ts(other))),
    }
}

fn norm(s: &str) -> String {
    s.chars().filter(|c| !c.is_whitespace()).collect()
}

fn radius_ops(repo: &str, out: &str) -> Result<String, String> {
    let rel = "rlm_kanidm/module/src/logic.rs";
    let ast = parse_file(repo, rel)?;

    // ---- enum AuthError --------------------------------------------------------------
    let mut variants: Vec<String> = vec![];
    for it in &ast.items {
        if let syn::Item::Enum(e) = it {
            if e.ident == "AuthError" {
                for v in &e.variants {
                    if !matches!(v.fields, syn::Fields::Unit) {
                        return Err(format!("AuthError::{} carries data", v.ident));
                    }
                    variants.push(v.ident.to_string());
                }
            }
        }
    }
    if variants.is_empty() {
        return Err("enum AuthError not found".into());
    }
    let known = |v: &str| -> Result<String, String> {
        if variants.iter().any(|x| x == v) {
            Ok(format!(".{}", lower_camel(v)))
        } else {
            Err(format!("AuthError::{v} is not a variant"))
        }
    };

    // ---- user_in_required_groups ------------------------------------------------------
    let f = find_fn(&ast, "Module::user_in_required_groups")?;
    let body = match f.block.stmts.as_slice() {
        [Stmt::Expr(e, None)] => e.clone(),
        _ => return Err(format!("user_in_required_groups: expected a single expression body, found `{}`", ts(&f.block))),
    };
    let (quant_any, pred_src, pred) = match strip(&body) {
        Expr::MethodCall(m) if (m.method == "any" || m.method == "all") && m.args.len() == 1 => {
            match strip(&m.receiver) {
                Expr::MethodCall(it) if it.method == "iter" && path_string(&it.receiver).as_deref() == Some("user_groups") => {}
                other => return Err(format!("user_in_required_groups iterates `{}`, expected user_groups.iter()", ts(other))),
            }
            let cl = match &m.args[0] {
                Expr::Closure(c) => c,
                other => return Err(format!("expected a closure, found `{}`", ts(other))),
            };
            let arg = match cl.inputs.iter().collect::<Vec<_>>().as_slice() {
                [Pat::Ident(p)] => p.ident.to_string(),
                _ => return Err("closure must take one plain argument".into()),
            };
            let inner = match strip(&cl.body) {
                Expr::Block(b) => match b.block.stmts.as_slice() {
                    [Stmt::Expr(e, None)] => e.clone(),
                    _ => return Err(format!("closure body is not a single expression: `{}`", ts(&cl.body))),
                },
                e => e.clone(),
            };
            (m.method == "any", ts(&inner), member_expr(&inner, &arg)?)
        }
        other => return Err(format!("user_in_required_groups: unrecognised body `{}`", ts(other))),
    };

    // ---- AuthRequest::user_id ---------------------------------------------------------
    let f = find_fn(&ast, "AuthRequest::user_id")?;
    let body = match f.block.stmts.as_slice() {
        [Stmt::Expr(e, None)] => e.clone(),
        _ => return Err("user_id: expected a single expression body".into()),
    };
    let mut order_rev: Vec<String> = vec![];
    let mut cur = strip(&body).clone();
    loop {
        let leaf = |e: &Expr| -> Result<String, String> {
            let p = path_string(e).unwrap_or_default();
            p.strip_prefix("self.")
                .and_then(|s| s.strip_suffix(".as_deref()"))
                .map(|s| s.to_string())
                .ok_or_else(|| format!("user_id: unrecognised identity source `{}`", ts(e)))
        };
        match &cur {
            Expr::MethodCall(m) if m.method == "or" && m.args.len() == 1 => {
                order_rev.push(leaf(&m.args[0])?);
                let next = strip(&m.receiver).clone();
                cur = next;
            }
            e => {
                order_rev.push(leaf(e)?);
                break;
            }
        }
    }
    order_rev.reverse();
    let mut id_order = vec![];
    for f in &order_rev {
        id_order.push(match f.as_str() {
            "tls_san_dn_cn" => "0",
            "tls_cn" => "1",
            "user_name" => "2",
            o => return Err(format!("user_id: unknown identity field `{o}`")),
        });
    }

    // ---- Module::authorise --------------------------------------------------------------
    let f = find_fn(&ast, "Module::authorise")?;
    let mut err_no_user = None;
    let mut fetch_by_user_id = false;
    let mut arm_none = None;
    let mut arm_err = None;
    let mut arm_some_ok = false;
    let mut guard: Option<(bool, String)> = None;
    let mut resolve_on_token_groups = false;
    let mut final_ok = false;
    let mut secret_src = None;
    let mut vlan_src = None;
    let n = f.block.stmts.len();
    for (i, st) in f.block.stmts.iter().enumerate() {
        match st {
            Stmt::Local(l) => {
                let pat = norm(&ts(&l.pat));
                let init = match &l.init {
                    Some(i) => i,
                    None => return Err(format!("authorise: `let {pat}` without initialiser")),
                };
                match pat.as_str() {
                    "Some(user_id)" => {
                        if norm(&ts(&init.expr)) != "request.user_id()" {
                            return Err(format!("authorise: user_id taken from `{}`", ts(&init.expr)));
                        }
                        let (_, div) = init.diverge.as_ref().ok_or("authorise: `let Some(user_id)` without else")?;
                        err_no_user = Some(returned_err(&expr_block(div)?)?);
                    }
                    "token_result" => {
                        fetch_by_user_id = norm(&ts(&init.expr)) == "self.fetch_token(user_id).await";
                        if !fetch_by_user_id {
                            return Err(format!("authorise: token fetched by `{}`", ts(&init.expr)));
                        }
                    }
                    "token" => {
                        let m = match strip(&init.expr) {
                            Expr::Match(m) if norm(&ts(&m.expr)) == "token_result" => m,
                            other => return Err(format!("authorise: token bound by `{}`", ts(other))),
                        };
                        for arm in &m.arms {
                            if arm.guard.is_some() {
                                return Err("authorise: guarded arm in token match".into());
                            }
                            match norm(&ts(&arm.pat)).as_str() {
                                "Ok(Some(tok))" => arm_some_ok = norm(&ts(&arm.body)) == "tok",
                                "Ok(None)" => arm_none = Some(returned_err(&expr_block(&arm.body)?)?),
                                "Err(err)" => arm_err = Some(returned_err(&expr_block(&arm.body)?)?),
                                p => return Err(format!("authorise: unexpected token arm `{p}`")),
                            }
                        }
                    }
                    p if p.starts_with("GroupConfig{") => {
                        resolve_on_token_groups =
                            norm(&ts(&init.expr)) == "self.resolve_group_configs(&token.groups)";
                        if !resolve_on_token_groups {
                            return Err(format!("authorise: group config resolved by `{}`", ts(&init.expr)));
                        }
                    }
                    "reply" | "control" => {
                        let s = match strip(&init.expr) {
                            Expr::Struct(s) => s,
                            other => return Err(format!("authorise: `{pat}` built by `{}`", ts(other))),
                        };
                        for fv in &s.fields {
                            let name = ts(&fv.member);
                            if name == "cleartext_password" {
                                secret_src = Some(norm(&ts(&fv.expr)));
                            }
                            if name == "tunnel_private_group_id" {
                                vlan_src = Some(norm(&ts(&fv.expr)));
                            }
                        }
                    }
                    p => return Err(format!("authorise: unexpected binding `{p}`")),
                }
            }
            Stmt::Expr(Expr::If(iff), _) => {
                if guard.is_some() || iff.else_branch.is_some() {
                    return Err("authorise: more than one `if`, or an else branch".into());
                }
                let (neg, call) = match strip(&iff.cond) {
                    Expr::Unary(u) if matches!(u.op, syn::UnOp::Not(_)) => (true, norm(&ts(&u.expr))),
                    e => (false, norm(&ts(e))),
                };
                if call != "self.user_in_required_groups(&token.groups)" {
                    return Err(format!("authorise: guard is `{call}`"));
                }
                guard = Some((neg, returned_err(&iff.then_branch)?));
            }
            Stmt::Expr(e, None) if i == n - 1 => {
                final_ok = norm(&ts(e)) == "Ok(AuthResponse{reply,control})";
                if !final_ok {
                    return Err(format!("authorise: final expression `{}`", ts(e)));
                }
            }
            Stmt::Expr(Expr::MethodCall(m), Some(_))
                if path_string(&m.receiver).as_deref() == Some("request")
                    && ["debug", "info", "error"].contains(&m.method.to_string().as_str()) => {}
            other => return Err(format!("authorise: unrecognised statement `{}`", ts(other))),
        }
    }
    let err_no_user = err_no_user.ok_or("authorise: no `let Some(user_id) … else`")?;
    let arm_none = arm_none.ok_or("authorise: no `Ok(None)` arm")?;
    let arm_err = arm_err.ok_or("authorise: no `Err(err)` arm")?;
    let (guard_neg, err_not_member) = guard.ok_or("authorise: membership guard not found")?;
    if !(arm_some_ok && fetch_by_user_id && resolve_on_token_groups && final_ok) {
        return Err("authorise: token arm / resolve call / final Ok not in the expected shape".into());
    }
    if secret_src.as_deref() != Some("Some(token.secret.clone())") {
        return Err(format!("authorise: cleartext_password is `{secret_src:?}`"));
    }
    if vlan_src.as_deref() != Some("vlan.to_string()") {
        return Err(format!("authorise: tunnel_private_group_id is `{vlan_src:?}`"));
    }

    // ---- fetch_token ----------------------------------------------------------------------
    let f = find_fn(&ast, "Module::fetch_token")?;
    let m = f
        .block
        .stmts
        .iter()
        .find_map(|s| match s {
            Stmt::Expr(Expr::Match(m), None) => Some(m.clone()),
            _ => None,
        })
        .ok_or("fetch_token: no tail match")?;
    if norm(&ts(&m.expr)) != "lookup_result" {
        return Err("fetch_token: match scrutinee".into());
    }
    let looked_up = f.block.stmts.iter().any(|s| {
        norm(&ts(s)) == "letlookup_result=self.client.idm_account_radius_token_get(user_id).await;"
    });
    if !looked_up || m.arms.len() != 3 {
        return Err("fetch_token: lookup statement / arm count not as expected".into());
    }
    if !(norm(&ts(&m.arms[0].pat)) == "Ok(token)" && norm(&ts(&m.arms[0].body)) == "Ok(Some(token))") {
        return Err("fetch_token: first arm".into());
    }
    let status = {
        let a = &m.arms[1];
        let g = a.guard.as_ref().map(|(_, g)| norm(&ts(g))).unwrap_or_default();
        if !(norm(&ts(&a.pat)) == "Err(ClientError::Http(status,_,_))" && norm(&ts(&a.body)) == "Ok(None)") {
            return Err("fetch_token: second arm".into());
        }
        let name = g
            .strip_prefix("status==StatusCode::")
            .ok_or_else(|| format!("fetch_token: guard `{g}`"))?
            .to_string();
        match name.as_str() {
            "NOT_FOUND" => 404,
            "FORBIDDEN" => 403,
            "UNAUTHORIZED" => 401,
            "BAD_REQUEST" => 400,
            "INTERNAL_SERVER_ERROR" => 500,
            o => return Err(format!("fetch_token: unknown status constant {o}")),
        }
    };
    {
        let a = &m.arms[2];
        if !(norm(&ts(&a.pat)) == "Err(error)" && norm(&ts(&a.body)).starts_with("Err(ModuleError::Http(")) || a.guard.is_some() {
            return Err("fetch_token: third arm".into());
        }
    }

    // ---- resolve_group_configs ------------------------------------------------------------
    let f = find_fn(&ast, "Module::resolve_group_configs")?;
    let mut vlan_init = None;
    let mut key_field = None;
    let mut assign = None;
    let mut loops = 0;
    for st in &f.block.stmts {
        match st {
            Stmt::Local(l) if norm(&ts(&l.pat)) == "mutvlan" => {
                vlan_init = l.init.as_ref().map(|i| norm(&ts(&i.expr)));
            }
            Stmt::Expr(Expr::ForLoop(fl), _) => {
                loops += 1;
                if !(norm(&ts(&fl.pat)) == "group" && norm(&ts(&fl.expr)) == "user_groups") {
                    return Err(format!("resolve_group_configs: loop `for {} in {}`", ts(&fl.pat), ts(&fl.expr)));
                }
                match fl.body.stmts.as_slice() {
                    [Stmt::Expr(Expr::If(iff), _)] if iff.else_branch.is_none() => {
                        let c = norm(&ts(&iff.cond));
                        key_field = c
                            .strip_prefix("letSome(group_config)=self.group_configs.get(&group.")
                            .and_then(|s| s.strip_suffix(")"))
                            .map(|s| s.to_string());
                        for s in &iff.then_branch.stmts {
                            let t = norm(&ts(s));
                            if t.starts_with("vlan=") {
                                assign = Some(t);
                            }
                        }
                    }
                    _ => return Err("resolve_group_configs: loop body is not a single `if let`".into()),
                }
            }
            _ => {}
        }
    }
    if loops != 1 {
        return Err("resolve_group_configs: expected one loop".into());
    }
    if vlan_init.as_deref() != Some("self.cfg.radius_default_vlan") {
        return Err(format!("resolve_group_configs: vlan starts at `{vlan_init:?}`"));
    }
    if assign.as_deref() != Some("vlan=group_config.vlan;") {
        return Err(format!("resolve_group_configs: vlan assignment `{assign:?}`"));
    }
    let key_field = key_field.ok_or("resolve_group_configs: lookup key not recognised")?;
    if key_field != "spn" && key_field != "uuid" {
        return Err(format!("resolve_group_configs: lookup by `{key_field}`"));
    }
    let tail_ok = matches!(f.block.stmts.last(), Some(Stmt::Expr(e, None)) if norm(&ts(e)) == "GroupConfig{vlan,reply_attributes,}");
    if !tail_ok {
        return Err("resolve_group_configs: result expression".into());
    }

    // ---- emit -------------------------------------------------------------------------------
    let mut b = String::from("namespace Kanidm.Gen.Radius\n");
    b += "/-- `enum AuthError`, variants in source order. -/\ninductive AuthError where\n";
    for v in &variants {
        b += &format!("  | {}\n", lower_camel(v));
    }
    b += "deriving DecidableEq, Repr\n";
    b += "def AuthError.name : AuthError → String\n";
    for v in &variants {
        b += &format!("  | .{} => \"{v}\"\n", lower_camel(v));
    }
    b += &format!(
        "/-- user_in_required_groups closure: `{pred_src}` -/\ndef memberPred (required : List Nat) (spn uuid : Nat) : Bool := {pred}\n"
    );
    b += &format!(
        "/-- quantifier over the user's groups: `.{}(..)` -/\ndef memberAny : Bool := {}\n",
        if quant_any { "any" } else { "all" },
        quant_any
    );
    b += &format!(
        "/-- AuthRequest::user_id preference order ({}); 0 = tls_san_dn_cn, 1 = tls_cn, 2 = user_name -/\ndef idOrder : List Nat := [{}]\n",
        order_rev.join(" then "),
        id_order.join(", ")
    );
    b += &format!("/-- no user id in the request -/\ndef errNoUser : AuthError := {}\n", known(&err_no_user)?);
    b += &format!("/-- token match arm `Ok(None)` -/\ndef errNotFound : AuthError := {}\n", known(&arm_none)?);
    b += &format!("/-- token match arm `Err(err)` -/\ndef errLookup : AuthError := {}\n", known(&arm_err)?);
    b += &format!(
        "/-- `if {}self.user_in_required_groups(&token.groups) {{ return Err(..) }}`: the early return is taken when membership equals this -/\ndef returnWhenMember : Bool := {}\n",
        if guard_neg { "!" } else { "" },
        !guard_neg
    );
    b += &format!("def errGuard : AuthError := {}\n", known(&err_not_member)?);
    b += &format!("/-- fetch_token: the HTTP status mapped to `Ok(None)` -/\ndef notFoundStatus : Nat := {status}\n");
    b += &format!(
        "/-- resolve_group_configs: `self.group_configs.get(&group.{key_field})` -/\ndef cfgKey (spn uuid : Nat) : Nat := {key_field}\n"
    );
    b += "end Kanidm.Gen.Radius\n";
    write_generated(out, "RadiusOps", &format!("{rel} (AuthError, user_in_required_groups, user_id, authorise, fetch_token, resolve_group_configs)"), &b)?;
    Ok(format!(
        "RadiusOps: {} AuthError variants, pred `{pred}`, any={quant_any}, idOrder {:?}, status {status}, key {key_field}",
        variants.len(),
        id_order
    ))
}
