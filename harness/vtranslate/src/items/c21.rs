//! C21 translator item: constants, mask/prefix arithmetic and the accepted-range disjunction of
//! `plugins/gidnumber.rs::apply_gidnumber`, plus the byte window of `utils.rs::uuid_to_gid_u32`.
use crate::util::*;
use quote::ToTokens;
use std::collections::BTreeMap;
use syn::{Expr, Stmt};

pub fn run(item: &str, repo: &str, out: &str) -> Option<Result<String, String>> {
    match item {
        "gid-consts" => Some(gid_consts(repo, out)),
        _ => None,
    }
}

fn toks<T: ToTokens>(t: &T) -> String {
    t.to_token_stream().to_string()
}

/// All `const NAME: u32 = <int expr>;` of the file, evaluated.
fn u32_consts(ast: &syn::File) -> Result<BTreeMap<String, i128>, String> {
    let mut m: BTreeMap<String, i128> = BTreeMap::new();
    for it in &ast.items {
        if let syn::Item::Const(c) = it {
            if toks(&c.ty) != "u32" {
                continue;
            }
            let snapshot = m.clone();
            let v = eval_int(&c.expr, &|n| snapshot.get(n).cloned())
                .map_err(|e| format!("const {}: {e}", c.ident))?;
            if !(0..=u32::MAX as i128).contains(&v) {
                return Err(format!("const {} = {v} does not fit u32", c.ident));
            }
            m.insert(c.ident.to_string(), v);
        }
    }
    Ok(m)
}

/// `(A..=B).contains(&gid)` / `(A..B).contains(&gid)` → (A, B, inclusive)
fn range_contains(e: &Expr) -> Result<(String, String, bool), String> {
    let bad = || format!("not a `(A..=B).contains(&gid)` term: `{}`", toks(e));
    let m = match e {
        Expr::MethodCall(m) if m.method == "contains" && m.args.len() == 1 => m,
        Expr::Paren(p) => return range_contains(&p.expr),
        _ => return Err(bad()),
    };
    if toks(&m.args[0]) != "& gid" {
        return Err(bad());
    }
    let mut recv = &*m.receiver;
    while let Expr::Paren(p) = recv {
        recv = &p.expr;
    }
    match recv {
        Expr::Range(r) => {
            let lo = r.start.as_ref().and_then(|s| path_string(s)).ok_or_else(bad)?;
            let hi = r.end.as_ref().and_then(|s| path_string(s)).ok_or_else(bad)?;
            let incl = matches!(r.limits, syn::RangeLimits::Closed(_));
            Ok((lo, hi, incl))
        }
        _ => Err(bad()),
    }
}

fn flatten_or<'a>(e: &'a Expr, acc: &mut Vec<&'a Expr>) {
    match e {
        Expr::Binary(b) if matches!(b.op, syn::BinOp::Or(_)) => {
            flatten_or(&b.left, acc);
            flatten_or(&b.right, acc);
        }
        Expr::Paren(p) if matches!(&*p.expr, Expr::Binary(b) if matches!(b.op, syn::BinOp::Or(_))) => {
            flatten_or(&p.expr, acc)
        }
        _ => acc.push(e),
    }
}

fn gid_consts(repo: &str, out: &str) -> Result<String, String> {
    let rel = "server/lib/src/plugins/gidnumber.rs";
    let ast = parse_file(repo, rel)?;
    let consts = u32_consts(&ast)?;
    let f = find_fn(&ast, "apply_gidnumber")?;
    // outer shape: if COND { generate } else if let Some(gid) = e.get_ava_single_uint32(..) { check } else { Ok(()) }
    let outer = match f.block.stmts.as_slice() {
        [Stmt::Expr(Expr::If(i), None)] => i,
        _ => return Err("apply_gidnumber: body is not a single if/else-if-let/else expression".into()),
    };
    let cond = toks(&outer.cond);
    let want_cond = "(e . attribute_equality (Attribute :: Class , & EntryClass :: PosixGroup . into ()) || e . attribute_equality (Attribute :: Class , & EntryClass :: PosixAccount . into ())) && ! e . attribute_pres (Attribute :: GidNumber)";
    if cond != want_cond {
        return Err(format!("apply_gidnumber: generate-branch condition changed: `{cond}`"));
    }
    // --- generate branch: let gid = uuid_to_gid_u32(u_ref); let gid = gid OP CONST; ... -------
    let mut ops: Vec<(String, String)> = vec![];
    let mut seen_src = false;
    let mut stored = false;
    for st in &outer.then_branch.stmts {
        if let Stmt::Local(l) = st {
            if toks(&l.pat) == "gid" {
                let init = l.init.as_ref().ok_or("let gid without initialiser")?;
                match &*init.expr {
                    Expr::Call(c) if toks(&c.func) == "uuid_to_gid_u32" && toks(&c.args) == "u_ref" => {
                        if seen_src || !ops.is_empty() {
                            return Err("apply_gidnumber: uuid_to_gid_u32 is not the first binding of gid".into());
                        }
                        seen_src = true;
                    }
                    Expr::Binary(b) => {
                        if !seen_src || toks(&b.left) != "gid" {
                            return Err(format!("apply_gidnumber: unexpected gid rebinding `{}`", toks(l)));
                        }
                        let op = match b.op {
                            syn::BinOp::BitAnd(_) => "&&&",
                            syn::BinOp::BitOr(_) => "|||",
                            _ => return Err(format!("apply_gidnumber: unsupported operator in `{}`", toks(l))),
                        };
                        let c = path_string(&b.right).ok_or_else(|| format!("operand of `{}`", toks(l)))?;
                        if !consts.contains_key(&c) {
                            return Err(format!("apply_gidnumber: unknown constant {c}"));
                        }
                        ops.push((op.to_string(), c));
                    }
                    o => return Err(format!("apply_gidnumber: unexpected gid binding `{}`", toks(o))),
                }
            } else if toks(&l.pat) == "gid_v" {
                if toks(&l.init.as_ref().ok_or("gid_v")?.expr) != "Value :: new_uint32 (gid)" {
                    return Err("apply_gidnumber: gid_v is not Value::new_uint32(gid)".into());
                }
            }
        } else if toks(st).contains("set_ava (& Attribute :: GidNumber , once (gid_v))") {
            stored = true;
        }
    }
    if !seen_src || ops.is_empty() || !stored {
        return Err(format!("apply_gidnumber: generate branch not recognised (source {seen_src}, ops {ops:?}, stored {stored})"));
    }
    // --- check branch ------------------------------------------------------------------------
    let else_if = match outer.else_branch.as_ref().map(|(_, e)| &**e) {
        Some(Expr::If(i)) => i,
        _ => return Err("apply_gidnumber: no else-if-let branch".into()),
    };
    if toks(&else_if.cond) != "let Some (gid) = e . get_ava_single_uint32 (Attribute :: GidNumber)" {
        return Err(format!("apply_gidnumber: check-branch binding changed: `{}`", toks(&else_if.cond)));
    }
    match else_if.else_branch.as_ref().map(|(_, e)| toks(&**e)) {
        Some(s) if s == "{ Ok (()) }" => {}
        other => return Err(format!("apply_gidnumber: final else is not `Ok(())`: {other:?}")),
    }
    let inner = match else_if.then_branch.stmts.as_slice() {
        [Stmt::Expr(Expr::If(i), None)] => i,
        _ => return Err("apply_gidnumber: check branch is not a single if/else".into()),
    };
    match inner.then_branch.stmts.as_slice() {
        [Stmt::Expr(e, None)] if toks(e) == "Ok (())" => {}
        _ => return Err("apply_gidnumber: accepted arm is not `Ok(())`".into()),
    }
    let rej = inner.else_branch.as_ref().map(|(_, e)| toks(&**e)).unwrap_or_default();
    if !rej.trim_end().ends_with("Err (OperationError :: PL0001GidOverlapsSystemRange) }") {
        return Err("apply_gidnumber: rejecting arm does not end in Err(PL0001GidOverlapsSystemRange)".into());
    }
    let mut terms = vec![];
    flatten_or(&inner.cond, &mut terms);
    let mut intervals = vec![];
    for t in terms {
        let (lo, hi, incl) = range_contains(t)?;
        let lo_v = *consts.get(&lo).ok_or_else(|| format!("unknown constant {lo}"))?;
        let hi_v = *consts.get(&hi).ok_or_else(|| format!("unknown constant {hi}"))?;
        let hi_incl = if incl { hi_v } else { hi_v - 1 };
        intervals.push((lo, lo_v, hi, hi_incl, incl));
    }
    if intervals.is_empty() {
        return Err("apply_gidnumber: no accepted ranges found".into());
    }
    // --- uuid_to_gid_u32 ------------------------------------------------------------------------
    let urel = "server/lib/src/utils.rs";
    let uast = parse_file(repo, urel)?;
    let uf = find_fn(&uast, "uuid_to_gid_u32")?;
    let usrc = toks(&uf.block);
    let want = "{ let b_ref = u . as_bytes () ; let mut x : [u8 ; 4] = [0 ; 4] ; x . clone_from_slice (& b_ref [12 .. 16]) ; u32 :: from_be_bytes (x) }";
    if usrc != want {
        return Err(format!("uuid_to_gid_u32: body changed: `{usrc}`"));
    }
    // --- emit -----------------------------------------------------------------------------------
    let mut body = String::from("namespace Kanidm.Gen.Gid\n");
    for (k, v) in &consts {
        body += &format!("def {k} : Nat := {v}\n");
    }
    let mut expr = "x".to_string();
    for (op, c) in &ops {
        expr = format!("({expr} {op} {c})");
    }
    body += &format!(
        "/-- the generate branch: `uuid_to_gid_u32(u)` then {} -/\ndef gen (x : Nat) : Nat := {expr}\n",
        ops.iter().map(|(o, c)| format!("`gid {} {c}`", if o == "&&&" { "&" } else { "|" })).collect::<Vec<_>>().join(", ")
    );
    body += "/-- the accepted ranges of the check branch, in source order, as inclusive intervals -/\ndef allowed : List (Nat × Nat) := [";
    body += &intervals.iter().map(|(lo, _, hi, hv, incl)| if *incl { format!("({lo}, {hi})") } else { format!("({lo}, {hv})") }).collect::<Vec<_>>().join(", ");
    body += "]\n";
    body += "/-- the disjunction guarding `Ok(())` in the check branch -/\ndef accept (g : Nat) : Bool :=\n  ";
    body += &intervals
        .iter()
        .map(|(lo, _, hi, hv, incl)| {
            if *incl {
                format!("(decide ({lo} ≤ g) && decide (g ≤ {hi}))")
            } else {
                format!("(decide ({lo} ≤ g) && decide (g ≤ {hv}))")
            }
        })
        .collect::<Vec<_>>()
        .join(" ||\n  ");
    body += "\n";
    body += "/-- `uuid_to_gid_u32`: big-endian u32 of uuid bytes [12, 16) -/\ndef uuidByteLo : Nat := 12\ndef uuidByteHi : Nat := 16\n";
    body += "end Kanidm.Gen.Gid\n";
    write_generated(out, "GidConsts", &format!("{rel} (consts, fn apply_gidnumber), {urel} (fn uuid_to_gid_u32)"), &body)?;
    Ok(format!("GidConsts: {} consts, gen ops {:?}, {} accepted ranges", consts.len(), ops, intervals.len()))
}
