//! C35 translator item `accountpolicy-ops`: initial accumulator, per-field comparison operators,
//! assignments, the NIST post-step condition of `ResolvedAccountPolicy::fold_from`, the defaults of
//! `From<&EntrySealedCommitted> for Option<AccountPolicy>`, the `CredentialType` discriminants and
//! the constants involved — regenerated as Lean data from
//! `server/lib/src/idm/accountpolicy.rs`, `server/lib/src/value.rs`,
//! `server/lib/src/constants/mod.rs`, `libs/crypto/src/lib.rs`.
use crate::util::*;
use quote::ToTokens;
use std::collections::BTreeMap;
use syn::visit::Visit;

pub fn run(item: &str, repo: &str, out: &str) -> Option<Result<String, String>> {
    match item {
        "accountpolicy-ops" => Some(accountpolicy_ops(repo, out)),
        _ => None,
    }
}

fn toks<T: ToTokens>(t: &T) -> String {
    t.to_token_stream().to_string()
}

fn const_of(file: &syn::File, name: &str) -> Result<i128, String> {
    let e = find_const(file, name).ok_or_else(|| format!("const {name} not found"))?;
    match toks(&e).as_str() {
        "u32 :: MAX" => Ok(u32::MAX as i128),
        "u16 :: MAX" => Ok(u16::MAX as i128),
        _ => eval_int(&e, &|_| None),
    }
}

/// `enum CredentialType { Any = 0, … }` ↦ [(name, discriminant)] in declaration order.
fn credential_types(file: &syn::File) -> Result<Vec<(String, i128)>, String> {
    struct V(Option<syn::ItemEnum>);
    impl<'ast> Visit<'ast> for V {
        fn visit_item_enum(&mut self, e: &'ast syn::ItemEnum) {
            if e.ident == "CredentialType" {
                self.0 = Some(e.clone());
            }
        }
    }
    let mut v = V(None);
    v.visit_file(file);
    let e = v.0.ok_or("enum CredentialType not found")?;
    let attrs: String = e.attrs.iter().map(toks).collect::<Vec<_>>().join(" ");
    if !attrs.contains("PartialOrd") || !attrs.contains("Ord") {
        return Err(format!("CredentialType no longer derives PartialOrd/Ord: {attrs}"));
    }
    let mut out = vec![];
    for var in &e.variants {
        let d = var.discriminant.as_ref().ok_or_else(|| format!("CredentialType::{} has no explicit discriminant", var.ident))?;
        let n = match toks(&d.1).as_str() {
            "u16 :: MAX" => u16::MAX as i128,
            _ => eval_int(&d.1, &|_| None)?,
        };
        out.push((var.ident.to_string(), n));
    }
    // derived Ord compares declaration order; the model compares discriminants: they must agree
    if !out.windows(2).all(|w| w[0].1 < w[1].1) {
        return Err(format!("CredentialType discriminants are not strictly increasing in declaration order: {out:?}"));
    }
    Ok(out)
}

fn accountpolicy_ops(repo: &str, out: &str) -> Result<String, String> {
    let rel = "server/lib/src/idm/accountpolicy.rs";
    let ast = parse_file(repo, rel)?;
    let consts_mod = parse_file(repo, "server/lib/src/constants/mod.rs")?;
    let crypto = parse_file(repo, "libs/crypto/src/lib.rs")?;
    let value_rs = parse_file(repo, "server/lib/src/value.rs")?;

    let creds = credential_types(&value_rs)?;
    let mut env: BTreeMap<String, i128> = BTreeMap::new();
    for c in ["MAXIMUM_AUTH_PRIVILEGE_EXPIRY", "MAXIMUM_AUTH_SESSION_EXPIRY"] {
        env.insert(c.to_string(), const_of(&consts_mod, c)?);
    }
    for c in ["PW_MFA_MIN_LENGTH", "PW_SFA_MIN_LENGTH_NIST", "PW_MAX_LENGTH_NIST"] {
        env.insert(c.to_string(), const_of(&crypto, c)?);
    }
    for (n, d) in &creds {
        env.insert(format!("CredentialType::{n}"), *d);
    }
    let value_of = |e: &syn::Expr| -> Result<Option<i128>, String> {
        let t = toks(e);
        if t == "None" {
            return Ok(None);
        }
        let key = path_string(e).unwrap_or_default();
        env.get(&key).copied().map(Some).ok_or_else(|| format!("unknown value `{t}`"))
    };

    // ---- fold_from
    let f = find_fn(&ast, "ResolvedAccountPolicy::fold_from")?;
    // initial accumulator
    let init = f
        .block
        .stmts
        .iter()
        .find_map(|s| match s {
            syn::Stmt::Local(l) if toks(&l.pat) == "mut accumulate" => l.init.as_ref().map(|i| (*i.expr).clone()),
            _ => None,
        })
        .ok_or("fold_from: `let mut accumulate = ResolvedAccountPolicy {..}` not found")?;
    let init = match init {
        syn::Expr::Struct(s) if toks(&s.path) == "ResolvedAccountPolicy" && s.rest.is_none() => s,
        o => return Err(format!("fold_from: unexpected initial accumulator `{}`", toks(&o))),
    };
    let mut init_vals: BTreeMap<String, Option<i128>> = BTreeMap::new();
    for fv in &init.fields {
        init_vals.insert(toks(&fv.member), value_of(&fv.expr)?);
    }
    let want_fields = [
        "privilege_expiry", "authsession_expiry", "pw_min_length", "pw_max_length", "credential_policy",
        "webauthn_att_ca_list", "limit_search_max_filter_test", "limit_search_max_results", "allow_primary_cred_fallback",
    ];
    let mut got: Vec<&String> = init_vals.keys().collect();
    got.sort();
    let mut want: Vec<String> = want_fields.iter().map(|s| s.to_string()).collect();
    want.sort();
    if got.iter().map(|s| s.as_str()).collect::<Vec<_>>() != want.iter().map(|s| s.as_str()).collect::<Vec<_>>() {
        return Err(format!("ResolvedAccountPolicy fields changed: {got:?}"));
    }
    for (k, must_none) in [
        ("webauthn_att_ca_list", true), ("limit_search_max_filter_test", true), ("limit_search_max_results", true),
        ("allow_primary_cred_fallback", true), ("privilege_expiry", false), ("authsession_expiry", false),
        ("pw_min_length", false), ("pw_max_length", false), ("credential_policy", false),
    ] {
        if init_vals[k].is_none() != must_none {
            return Err(format!("fold_from: initial {k} = {:?}", init_vals[k]));
        }
    }

    // conditions, in source order
    let conds = if_conditions(&f.block);
    let cs: Vec<String> = conds.iter().map(toks).collect();
    let expect_shape = [
        (false, ""), (false, ""), (false, ""), (false, ""),
        (true, "let Some (pol_lim) = acc_pol . limit_search_max_results"),
        (true, "let Some (acc_lim) = accumulate . limit_search_max_results"),
        (false, ""),
        (true, "let Some (pol_lim) = acc_pol . limit_search_max_filter_test"),
        (true, "let Some (acc_lim) = accumulate . limit_search_max_filter_test"),
        (false, ""),
        (true, "let Some (acc_pol_w_att_ca) = acc_pol . webauthn_att_ca_list"),
        (true, "let Some (res_w_att_ca) = accumulate . webauthn_att_ca_list . as_mut ()"),
        (true, "let Some (allow_primary_cred_fallback) = acc_pol . allow_primary_cred_fallback"),
        (false, ""),
    ];
    if cs.len() != expect_shape.len() {
        return Err(format!("fold_from: expected {} if-conditions, found {}: {cs:?}", expect_shape.len(), cs.len()));
    }
    for (i, (is_let, want)) in expect_shape.iter().enumerate() {
        if *is_let && cs[i] != *want {
            return Err(format!("fold_from: condition {i}: expected `{want}`, found `{}`", cs[i]));
        }
    }
    let field_cmp = |i: usize, field: &str| -> Result<String, String> {
        let mut v = BTreeMap::new();
        v.insert(format!("acc_pol.{field}"), "p".to_string());
        v.insert(format!("accumulate.{field}"), "a".to_string());
        let lean = lean_expr(&conds[i], &v)?;
        if !lean.contains('p') || !lean.contains('a') || !matches!(&conds[i], syn::Expr::Binary(_)) {
            return Err(format!("fold_from: condition {i} `{}` is not a comparison of the {field} fields", cs[i]));
        }
        Ok(lean)
    };
    let priv_cmp = field_cmp(0, "privilege_expiry")?;
    let sess_cmp = field_cmp(1, "authsession_expiry")?;
    let pwmin_cmp = field_cmp(2, "pw_min_length")?;
    let cred_cmp = field_cmp(3, "credential_policy")?;
    let lim_cmp = |i: usize| -> Result<String, String> {
        let mut v = BTreeMap::new();
        v.insert("pol_lim".to_string(), "p".to_string());
        v.insert("acc_lim".to_string(), "a".to_string());
        let lean = lean_expr(&conds[i], &v)?;
        if !lean.contains('p') || !lean.contains('a') {
            return Err(format!("fold_from: condition {i} `{}` does not compare pol_lim with acc_lim", cs[i]));
        }
        Ok(lean)
    };
    let limres_cmp = lim_cmp(6)?;
    let limfil_cmp = lim_cmp(9)?;
    let mut nv = BTreeMap::new();
    nv.insert("accumulate.credential_policy".to_string(), "cred".to_string());
    nv.insert("accumulate.pw_min_length".to_string(), "pwMin".to_string());
    for (k, d) in &env {
        nv.insert(k.clone(), d.to_string());
    }
    let nist = lean_expr(&conds[13], &nv)?;
    if !nist.contains("cred") || !nist.contains("pwMin") {
        return Err(format!("fold_from: NIST condition `{}` does not mention both fields", cs[13]));
    }

    // assignments, in source order
    struct A(Vec<String>);
    impl<'ast> Visit<'ast> for A {
        fn visit_expr_assign(&mut self, a: &'ast syn::ExprAssign) {
            self.0.push(a.to_token_stream().to_string());
            syn::visit::visit_expr_assign(self, a);
        }
    }
    let mut a = A(vec![]);
    a.visit_block(&f.block);
    let want_assign = [
        "accumulate . privilege_expiry = acc_pol . privilege_expiry",
        "accumulate . authsession_expiry = acc_pol . authsession_expiry",
        "accumulate . pw_min_length = acc_pol . pw_min_length",
        "accumulate . credential_policy = acc_pol . credential_policy",
        "accumulate . limit_search_max_results = Some (pol_lim)",
        "accumulate . limit_search_max_results = Some (pol_lim)",
        "accumulate . limit_search_max_filter_test = Some (pol_lim)",
        "accumulate . limit_search_max_filter_test = Some (pol_lim)",
        "accumulate . webauthn_att_ca_list = Some (acc_pol_w_att_ca)",
        "accumulate . allow_primary_cred_fallback = match accumulate . allow_primary_cred_fallback { Some (acc_fallback) => Some (allow_primary_cred_fallback && acc_fallback) , None => Some (allow_primary_cred_fallback) , }",
        "accumulate . pw_min_length = PW_SFA_MIN_LENGTH_NIST",
    ];
    if a.0 != want_assign {
        let diff: Vec<_> = a.0.iter().zip(want_assign.iter()).filter(|(x, y)| x.as_str() != **y).collect();
        return Err(format!("fold_from: assignments changed ({} found, {} expected); first differences: {:?}", a.0.len(), want_assign.len(), diff.iter().take(2).collect::<Vec<_>>()));
    }
    let body_toks = toks(&f.block);
    if !body_toks.contains("res_w_att_ca . intersection (& acc_pol_w_att_ca)") {
        return Err("fold_from: `res_w_att_ca.intersection(&acc_pol_w_att_ca)` not found".into());
    }

    // ---- defaults of From<&EntrySealedCommitted> for Option<AccountPolicy>
    let f = find_fn(&ast, "From@Option::from")?;
    let mut defaults: BTreeMap<String, (String, i128)> = BTreeMap::new();
    for s in &f.block.stmts {
        if let syn::Stmt::Local(l) = s {
            let name = toks(&l.pat);
            if let Some(init) = &l.init {
                if let syn::Expr::MethodCall(m) = &*init.expr {
                    if m.method == "unwrap_or" && m.args.len() == 1 {
                        let d = value_of(&m.args[0])?.ok_or("None default")?;
                        let recv = toks(&m.receiver);
                        defaults.insert(name, (recv, d));
                    }
                }
            }
        }
    }
    let want_defaults = [
        ("authsession_expiry", "val . get_ava_single_uint32 (Attribute :: AuthSessionExpiry)"),
        ("privilege_expiry", "val . get_ava_single_uint32 (Attribute :: PrivilegeExpiry)"),
        ("pw_min_length", "val . get_ava_single_uint32 (Attribute :: AuthPasswordMinimumLength)"),
        ("credential_policy", "val . get_ava_single_credential_type (Attribute :: CredentialTypeMinimum)"),
    ];
    if defaults.len() != want_defaults.len() {
        return Err(format!("AccountPolicy::from: defaults changed: {defaults:?}"));
    }
    for (n, recv) in want_defaults {
        match defaults.get(n) {
            Some((r, _)) if r == recv => {}
            o => return Err(format!("AccountPolicy::from: `{n}` is read as {o:?}, expected `{recv}`")),
        }
    }

    let g = |k: &str| init_vals[k].unwrap();
    let mut body = String::from("namespace Kanidm.Gen.AccountPolicy\n");
    body += &format!(
        "/-- `enum CredentialType` discriminants in declaration order ({}); derived `Ord` = this order. -/\ndef credDiscriminants : List Nat := [{}]\n",
        creds.iter().map(|(n, _)| n.as_str()).collect::<Vec<_>>().join(", "),
        creds.iter().map(|(_, d)| d.to_string()).collect::<Vec<_>>().join(", ")
    );
    body += &format!("def credMfa : Nat := {}\n", env["CredentialType::Mfa"]);
    body += &format!("def pwSfaMin : Nat := {}\n", env["PW_SFA_MIN_LENGTH_NIST"]);
    body += "/-! Initial accumulator of `fold_from`. -/\n";
    body += &format!("def initPrivilegeExpiry : Nat := {}\n", g("privilege_expiry"));
    body += &format!("def initAuthsessionExpiry : Nat := {}\n", g("authsession_expiry"));
    body += &format!("def initPwMinLength : Nat := {}\n", g("pw_min_length"));
    body += &format!("def initPwMaxLength : Nat := {}\n", g("pw_max_length"));
    body += &format!("def initCredentialPolicy : Nat := {}\n", g("credential_policy"));
    body += "/-! Defaults of `From<&EntrySealedCommitted> for Option<AccountPolicy>` (`unwrap_or`). -/\n";
    body += &format!("def defaultPrivilegeExpiry : Nat := {}\n", defaults["privilege_expiry"].1);
    body += &format!("def defaultAuthsessionExpiry : Nat := {}\n", defaults["authsession_expiry"].1);
    body += &format!("def defaultPwMinLength : Nat := {}\n", defaults["pw_min_length"].1);
    body += &format!("def defaultCredentialPolicy : Nat := {}\n", defaults["credential_policy"].1);
    body += "/-! The closure's comparisons (`p` = the policy's field, `a` = the accumulator's), in source order. -/\n";
    for (name, src, lean) in [
        ("privTakes", &cs[0], &priv_cmp), ("sessTakes", &cs[1], &sess_cmp), ("pwMinTakes", &cs[2], &pwmin_cmp),
        ("credTakes", &cs[3], &cred_cmp), ("limResultsTakes", &cs[6], &limres_cmp), ("limFilterTakes", &cs[9], &limfil_cmp),
    ] {
        body += &format!("/-- `{src}` -/\ndef {name} (p a : Nat) : Bool := {lean}\n");
    }
    body += &format!("/-- post-step: `{}` -/\ndef nistApplies (cred pwMin : Nat) : Bool := {nist}\n", cs[13]);
    body += "end Kanidm.Gen.AccountPolicy\n";
    write_generated(out, "AccountPolicyOps", &format!("{rel} (fold_from, From<&EntrySealedCommitted>), value.rs (CredentialType), constants"), &body)?;
    Ok(format!("AccountPolicyOps: init priv={} sess={} pwmin={} cred={} sfa={}", g("privilege_expiry"), g("authsession_expiry"), g("pw_min_length"), g("credential_policy"), env["PW_SFA_MIN_LENGTH_NIST"]))
}
