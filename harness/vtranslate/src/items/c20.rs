//! C20 translator item `base-protect` (DESIGN §4.1 `Gen.Constants` for the uuid range, plus the
//! checks of the Base plugin).
//!
//! Regenerates `KanidmModel/Generated/BaseProtectOps.lean` from
//!  * `server/lib/src/constants/uuids.rs`: `UUID_ANONYMOUS`, `UUID_DOES_NOT_EXIST`,
//!    `DYNAMIC_RANGE_MINIMUM_UUID`;
//!  * `server/lib/src/plugins/base.rs`
//!     - `Base::pre_create_transform`: the accepted size of the `uuid` value set (`Some(1)` arm),
//!       the comparison `uuid_ref < DYNAMIC_RANGE_MINIMUM_UUID`, the `is_internal()` exemption
//!       and the class it adds, the single `system_range_invalid = true`, and the order of the
//!       rejecting checks after the loop (range flag, UUID_DOES_NOT_EXIST, exists-in-db);
//!     - `Base::pre_modify` / `Base::pre_batch_modify`: per `Modify` variant whether its attribute
//!       is inspected (`Some(a)`) or not (`None`), the attribute compared with, the error returned,
//!       and that the whole modlist / every modlist of the modset is iterated;
//!  * `server/lib/src/modify.rs`: the variants of `enum Modify` (the model has exactly five);
//!  * `server/lib/src/entry.rs` `apply_modlist`: which variants call a mutating `*_ava*` method;
//!  * `server/lib/src/plugins/mod.rs`: the position of the `base::Base::…` call in
//!    `run_pre_create_transform`, `run_pre_modify`, `run_pre_batch_modify` (and that its result is
//!    propagated with `?`).
//! Anything not recognised is an error, never a guess.
use crate::util::*;
use quote::ToTokens;

pub fn run(item: &str, repo: &str, out: &str) -> Option<Result<String, String>> {
    match item {
        "base-protect" => Some(base_protect(repo, out)),
        _ => None,
    }
}

fn toks<T: ToTokens>(t: &T) -> String {
    t.to_token_stream().to_string()
}

fn nsp<T: ToTokens>(t: &T) -> String {
    toks(t).chars().filter(|c| !c.is_whitespace()).collect()
}

/// `uuid!("…")` ↦ u128
fn uuid_const(file: &syn::File, name: &str) -> Result<u128, String> {
    let e = find_const(file, name).ok_or_else(|| format!("const {name} not found"))?;
    let m = match &e {
        syn::Expr::Macro(m) if m.mac.path.is_ident("uuid") => m,
        o => return Err(format!("const {name} is not uuid!(..): {}", toks(o))),
    };
    let lit: syn::LitStr = syn::parse2(m.mac.tokens.clone()).map_err(|e| format!("{name}: {e}"))?;
    let hex: String = lit.value().chars().filter(|c| *c != '-').collect();
    if hex.len() != 32 {
        return Err(format!("{name}: bad uuid literal {}", lit.value()));
    }
    u128::from_str_radix(&hex, 16).map_err(|e| format!("{name}: {e}"))
}

/// The expression of a statement (`expr;`, tail `expr`), if it is one.
fn stmt_expr(s: &syn::Stmt) -> Option<&syn::Expr> {
    match s {
        syn::Stmt::Expr(e, _) => Some(e),
        _ => None,
    }
}

/// Does the block contain a `return Err(..)`?
fn returns_err(b: &syn::Block) -> bool {
    struct V(bool);
    impl<'ast> syn::visit::Visit<'ast> for V {
        fn visit_expr_return(&mut self, r: &'ast syn::ExprReturn) {
            if let Some(e) = &r.expr {
                if toks(e).starts_with("Err (") {
                    self.0 = true;
                }
            }
        }
    }
    let mut v = V(false);
    syn::visit::Visit::visit_block(&mut v, b);
    v.0
}

/// Every `if` expression of a block, pre-order.
fn all_ifs(b: &syn::Block) -> Vec<syn::ExprIf> {
    struct V(Vec<syn::ExprIf>);
    impl<'ast> syn::visit::Visit<'ast> for V {
        fn visit_expr_if(&mut self, i: &'ast syn::ExprIf) {
            self.0.push(i.clone());
            syn::visit::visit_expr_if(self, i);
        }
    }
    let mut v = V(vec![]);
    syn::visit::Visit::visit_block(&mut v, b);
    v.0
}

/// Every `match` expression of a block, pre-order.
fn all_matches(b: &syn::Block) -> Vec<syn::ExprMatch> {
    struct V(Vec<syn::ExprMatch>);
    impl<'ast> syn::visit::Visit<'ast> for V {
        fn visit_expr_match(&mut self, i: &'ast syn::ExprMatch) {
            self.0.push(i.clone());
            syn::visit::visit_expr_match(self, i);
        }
    }
    let mut v = V(vec![]);
    syn::visit::Visit::visit_block(&mut v, b);
    v.0
}

/// All assignments `name = <expr>` of a block: the right-hand sides.
fn assignments(b: &syn::Block, name: &str) -> Vec<String> {
    struct V<'a>(&'a str, Vec<String>);
    impl<'a, 'ast> syn::visit::Visit<'ast> for V<'a> {
        fn visit_expr_assign(&mut self, a: &'ast syn::ExprAssign) {
            if toks(&a.left) == self.0 {
                self.1.push(toks(&a.right));
            }
            syn::visit::visit_expr_assign(self, a);
        }
    }
    let mut v = V(name, vec![]);
    syn::visit::Visit::visit_block(&mut v, b);
    v.1
}

const KINDS: &[&str] = &["Present", "Removed", "Purged", "Set", "Assert"];

fn cmp_lean(op: &syn::BinOp, l: &str, r: &str) -> Result<String, String> {
    use syn::BinOp;
    Ok(match op {
        BinOp::Lt(_) => format!("decide ({l} < {r})"),
        BinOp::Le(_) => format!("decide ({l} ≤ {r})"),
        BinOp::Gt(_) => format!("decide ({l} > {r})"),
        BinOp::Ge(_) => format!("decide ({l} ≥ {r})"),
        BinOp::Eq(_) => format!("decide ({l} = {r})"),
        BinOp::Ne(_) => format!("decide ({l} ≠ {r})"),
        o => return Err(format!("unsupported comparison operator `{}`", toks(o))),
    })
}

/// `Modify::X(..)` pattern ↦ X
fn modify_variant(p: &syn::Pat) -> Result<String, String> {
    let path = match p {
        syn::Pat::TupleStruct(t) => &t.path,
        syn::Pat::Path(p) => &p.path,
        syn::Pat::Struct(s) => &s.path,
        o => return Err(format!("unrecognised Modify pattern `{}`", toks(o))),
    };
    let segs: Vec<String> = path.segments.iter().map(|s| s.ident.to_string()).collect();
    if segs.len() == 2 && segs[0] == "Modify" {
        Ok(segs[1].clone())
    } else {
        Err(format!("unrecognised Modify pattern path `{}`", segs.join("::")))
    }
}

fn pat_cases(p: &syn::Pat) -> Vec<&syn::Pat> {
    match p {
        syn::Pat::Or(o) => o.cases.iter().flat_map(pat_cases).collect(),
        syn::Pat::Paren(p) => pat_cases(&p.pat),
        syn::Pat::Reference(r) => pat_cases(&r.pat),
        o => vec![o],
    }
}

/// The per-variant table, compared attribute and error of `pre_modify` / `pre_batch_modify`.
struct ModCheck {
    checks: Vec<bool>,
    attr: String,
    err: String,
}

fn mod_check(f: &FoundFn, fname: &str, expected_iter: &str) -> Result<ModCheck, String> {
    // the tail expression of the function: `<iter>.try_for_each(|modify| { .. })`
    let tail = f.block.stmts.last().and_then(stmt_expr).ok_or_else(|| format!("{fname}: no tail expression"))?;
    let call = match tail {
        syn::Expr::MethodCall(m) if m.method == "try_for_each" && m.args.len() == 1 => m,
        o => return Err(format!("{fname}: tail is not `<iter>.try_for_each(..)`: `{}`", toks(o))),
    };
    if nsp(&call.receiver) != expected_iter {
        return Err(format!("{fname}: iterates `{}`, expected `{expected_iter}`", nsp(&call.receiver)));
    }
    let closure = match &call.args[0] {
        syn::Expr::Closure(c) => c,
        o => return Err(format!("{fname}: try_for_each argument is not a closure: `{}`", toks(o))),
    };
    if closure.inputs.len() != 1 || toks(&closure.inputs[0]) != "modify" {
        return Err(format!("{fname}: closure parameter is not `modify`"));
    }
    let body = match &*closure.body {
        syn::Expr::Block(b) => &b.block,
        o => return Err(format!("{fname}: closure body is not a block: `{}`", toks(o))),
    };
    if body.stmts.len() != 2 {
        return Err(format!("{fname}: closure body has {} statements, expected `let attr = match ..;` and `if ..`", body.stmts.len()));
    }
    // let attr = match &modify { .. };
    let m = match &body.stmts[0] {
        syn::Stmt::Local(l) if toks(&l.pat) == "attr" => match l.init.as_ref().map(|i| &*i.expr) {
            Some(syn::Expr::Match(m)) => m,
            _ => return Err(format!("{fname}: `let attr` is not initialised by a match")),
        },
        o => return Err(format!("{fname}: first closure statement is not `let attr = match ..`: `{}`", toks(o))),
    };
    if nsp(&m.expr) != "&modify" && nsp(&m.expr) != "modify" {
        return Err(format!("{fname}: match scrutinee is `{}`", toks(&m.expr)));
    }
    let mut checks: Vec<Option<bool>> = vec![None; KINDS.len()];
    let mut wildcard: Option<bool> = None;
    for arm in &m.arms {
        if arm.guard.is_some() {
            return Err(format!("{fname}: match arm with a guard"));
        }
        let body = nsp(&arm.body);
        let val = match body.as_str() {
            "Some(a)" => true,
            "None" => false,
            o => return Err(format!("{fname}: arm body `{o}` is neither `Some(a)` nor `None`")),
        };
        for case in pat_cases(&arm.pat) {
            if matches!(case, syn::Pat::Wild(_)) {
                wildcard.get_or_insert(val);
                continue;
            }
            let v = modify_variant(case)?;
            let idx = KINDS.iter().position(|k| *k == v).ok_or_else(|| format!("{fname}: unknown Modify variant `{v}`"))?;
            if val {
                // `a` must be bound to the first field (the attribute)
                let first = match case {
                    syn::Pat::TupleStruct(t) => t.elems.first().map(toks),
                    _ => None,
                };
                if first.as_deref() != Some("a") {
                    return Err(format!("{fname}: arm for `{v}` yields Some(a) but `a` is not its first field"));
                }
            }
            if checks[idx].is_none() {
                checks[idx] = Some(val);
            }
        }
    }
    let checks: Vec<bool> = checks
        .iter()
        .enumerate()
        .map(|(i, c)| c.or(wildcard).ok_or_else(|| format!("{fname}: Modify::{} not covered", KINDS[i])))
        .collect::<Result<_, _>>()?;
    // if attr == Some(&Attribute::X) { ..; Err(OperationError::E) } else { Ok(()) }
    let i = match stmt_expr(&body.stmts[1]) {
        Some(syn::Expr::If(i)) => i,
        _ => return Err(format!("{fname}: second closure statement is not an `if`")),
    };
    let c = nsp(&i.cond);
    let attr = c
        .strip_prefix("attr==Some(&Attribute::")
        .and_then(|s| s.strip_suffix(')'))
        .ok_or_else(|| format!("{fname}: condition `{c}` is not `attr == Some(&Attribute::X)`"))?
        .to_string();
    let then_tail = i.then_branch.stmts.last().and_then(stmt_expr).map(nsp).unwrap_or_default();
    let err = then_tail
        .strip_prefix("Err(OperationError::")
        .and_then(|s| s.strip_suffix(')'))
        .ok_or_else(|| format!("{fname}: then-branch does not end in `Err(OperationError::X)`: `{then_tail}`"))?
        .to_string();
    match &i.else_branch {
        Some((_, e)) if nsp(e) == "{Ok(())}" => {}
        _ => return Err(format!("{fname}: else-branch is not `{{ Ok(()) }}`")),
    }
    Ok(ModCheck { checks, attr, err })
}

fn emit_checks(body: &mut String, name: &str, doc: &str, mc: &ModCheck) {
    *body += &format!("/-- {doc}: is the attribute of this `Modify` variant inspected? (0 Present, 1 Removed, 2 Purged, 3 Set, 4 Assert) -/\ndef {name}Checks : Nat → Bool\n");
    for (i, c) in mc.checks.iter().enumerate() {
        if i + 1 < mc.checks.len() {
            *body += &format!("  | {i} => {c}\n");
        } else {
            *body += &format!("  | _ => {c}\n");
        }
    }
    *body += &format!("/-- {doc}: the attribute an inspected modification must not name -/\ndef {name}Attr : Nat := Kanidm.Gen.Access.A.{}\n", mc.attr);
    *body += &format!("/-- {doc}: `OperationError::{}` -/\ndef {name}RejectsWithSystemProtectedAttribute : Bool := {}\n", mc.err, mc.err == "SystemProtectedAttribute");
}

/// Position of `base::Base::<f>(..)` in the statement list of `Plugins::<runner>` (None when it
/// is not called or its result is dropped).
fn base_index(file: &syn::File, runner: &str, f: &str) -> Result<(Option<usize>, usize), String> {
    let found = find_fn(file, &format!("Plugins::{runner}"))?;
    let n = found.block.stmts.len();
    let mut idx = None;
    for (i, s) in found.block.stmts.iter().enumerate() {
        let (e, is_tail) = match s {
            syn::Stmt::Expr(e, semi) => (e, semi.is_none()),
            o => return Err(format!("Plugins::{runner}: unexpected statement `{}`", toks(o))),
        };
        let (call, propagated) = match e {
            syn::Expr::Try(t) => (&*t.expr, true),
            o => (o, is_tail),
        };
        let c = match call {
            syn::Expr::Call(c) => c,
            o => return Err(format!("Plugins::{runner}: statement is not a plugin call: `{}`", toks(o))),
        };
        let path = nsp(&c.func);
        if !path.ends_with(&format!("::{f}")) {
            return Err(format!("Plugins::{runner}: calls `{path}`, expected a `::{f}`"));
        }
        if path == format!("base::Base::{f}") {
            if !propagated {
                // result dropped: the check has no effect
                continue;
            }
            if idx.is_none() {
                idx = Some(i);
            }
        }
    }
    Ok((idx, n))
}

/// Like `write_generated`, with the import of C24's generated atoms (`A.*`, `C.*`) first.
fn write_with_import(out_dir: &str, module: &str, header_src: &str, body: &str) -> Result<(), String> {
    let path = format!("{out_dir}/{module}.lean");
    let text = format!(
        "import KanidmModel.Generated.AccessProtected\n-- GENERATED by vtranslate from {header_src}. Do not edit: rewritten on every check run.\nset_option linter.unusedVariables false\n{body}"
    );
    if std::fs::read_to_string(&path).map(|old| old == text).unwrap_or(false) {
        return Ok(());
    }
    std::fs::write(&path, text).map_err(|e| format!("{path}: {e}"))
}

fn base_protect(repo: &str, out: &str) -> Result<String, String> {
    let uuids_rs = parse_file(repo, "server/lib/src/constants/uuids.rs")?;
    let base_rs = parse_file(repo, "server/lib/src/plugins/base.rs")?;
    let modify_rs = parse_file(repo, "server/lib/src/modify.rs")?;
    let entry_rs = parse_file(repo, "server/lib/src/entry.rs")?;
    let plugins_rs = parse_file(repo, "server/lib/src/plugins/mod.rs")?;

    let mut body = String::from("namespace Kanidm.Gen.BaseProtect\n");

    // ---- constants
    for (lean, c) in [
        ("uuidAnonymous", "UUID_ANONYMOUS"),
        ("uuidDoesNotExist", "UUID_DOES_NOT_EXIST"),
        ("dynamicRangeMinimum", "DYNAMIC_RANGE_MINIMUM_UUID"),
    ] {
        body += &format!("/-- `{c}` (constants/uuids.rs) as a 128-bit number -/\ndef {lean} : Nat := {}\n", uuid_const(&uuids_rs, c)?);
    }

    // ---- enum Modify
    let variants: Vec<String> = {
        let mut v = None;
        for it in &modify_rs.items {
            if let syn::Item::Enum(e) = it {
                if e.ident == "Modify" {
                    v = Some(e.variants.iter().map(|x| x.ident.to_string()).collect::<Vec<_>>());
                }
            }
        }
        v.ok_or("enum Modify not found in modify.rs")?
    };
    {
        let mut a = variants.clone();
        a.sort();
        let mut b: Vec<String> = KINDS.iter().map(|s| s.to_string()).collect();
        b.sort();
        if a != b {
            return Err(format!("enum Modify has variants {variants:?}; the model knows exactly {KINDS:?}"));
        }
    }

    // ---- apply_modlist: which variants mutate
    {
        let f = find_fn(&entry_rs, "apply_modlist")?;
        let ms = all_matches(&f.block);
        let m = ms.iter().find(|m| nsp(&m.expr) == "modify").ok_or("apply_modlist: `match modify` not found")?;
        let mut mutates: Vec<Option<bool>> = vec![None; KINDS.len()];
        for arm in &m.arms {
            let b = nsp(&arm.body);
            let mutating = ["self.add_ava(", "self.remove_ava(", "self.purge_ava(", "self.set_ava_set(", "self.set_ava(", "self.pop_ava("];
            let is_mut = mutating.iter().any(|p| b.contains(p));
            let is_assert = b.contains("self.assert_ava(");
            if is_mut == is_assert {
                return Err(format!("apply_modlist: arm `{}` is neither a single mutation nor an assertion: `{b}`", toks(&arm.pat)));
            }
            for case in pat_cases(&arm.pat) {
                let v = modify_variant(case)?;
                let idx = KINDS.iter().position(|k| *k == v).ok_or_else(|| format!("apply_modlist: unknown variant {v}"))?;
                mutates[idx] = Some(is_mut);
            }
        }
        body += "/-- `Entry::apply_modlist` (entry.rs): does this `Modify` variant call a mutating `*_ava` method? (0 Present, 1 Removed, 2 Purged, 3 Set, 4 Assert) -/\ndef applyMutates : Nat → Bool\n";
        for (i, c) in mutates.iter().enumerate() {
            let c = c.ok_or_else(|| format!("apply_modlist: Modify::{} not covered", KINDS[i]))?;
            if i + 1 < mutates.len() {
                body += &format!("  | {i} => {c}\n");
            } else {
                body += &format!("  | _ => {c}\n");
            }
        }
    }

    // ---- pre_modify / pre_batch_modify
    let pm = mod_check(&find_fn(&base_rs, "Base::pre_modify")?, "Base::pre_modify", "me.modlist.iter()")?;
    emit_checks(&mut body, "preModify", "`Base::pre_modify`", &pm);
    let pb = mod_check(
        &find_fn(&base_rs, "Base::pre_batch_modify")?,
        "Base::pre_batch_modify",
        "me.modset.values().flat_map(|ml|ml.iter())",
    )?;
    emit_checks(&mut body, "preBatchModify", "`Base::pre_batch_modify`", &pb);

    // ---- pre_create_transform
    let pc = find_fn(&base_rs, "Base::pre_create_transform")?;
    // (a) the accepted value-set size
    {
        let ms = all_matches(&pc.block);
        let m = ms
            .iter()
            .find(|m| nsp(&m.expr) == "entry.get_ava_set(Attribute::Uuid).map(|s|s.len())")
            .ok_or("pre_create_transform: `match entry.get_ava_set(Attribute::Uuid).map(|s| s.len())` not found")?;
        let pats: Vec<String> = m.arms.iter().map(|a| nsp(&a.pat)).collect();
        if pats.len() != 3 || pats[0] != "None" || !pats[1].starts_with("Some(") || !pats[2].starts_with("Some(") {
            return Err(format!("pre_create_transform: uuid count match has arms {pats:?}, expected None / Some(<n>) / Some(<binding>)"));
        }
        let n: u64 = pats[1][5..pats[1].len() - 1].parse().map_err(|_| format!("pre_create_transform: second arm `{}` is not Some(<literal>)", pats[1]))?;
        if !nsp(&m.arms[0].body).contains("entry.set_ava(&Attribute::Uuid,once(ava_uuid))") || !nsp(&m.arms[0].body).contains("Value::Uuid(Uuid::new_v4())") {
            return Err("pre_create_transform: the `None` arm no longer sets a fresh `Uuid::new_v4()`".into());
        }
        if nsp(&m.arms[1].body) != "{}" {
            return Err(format!("pre_create_transform: the `{}` arm is not empty", pats[1]));
        }
        let third_rejects = match &*m.arms[2].body {
            syn::Expr::Block(b) => returns_err(&b.block),
            _ => false,
        };
        body += &format!("/-- `pre_create_transform`: the size of the request's `uuid` value set that is accepted as is (`{}` arm) -/\ndef createUuidCountAccepted : Nat := {n}\n", pats[1]);
        body += &format!("/-- `pre_create_transform`: any other size returns an error -/\ndef createUuidCountOtherRejects : Bool := {third_rejects}\n");
    }
    // (b) the range comparison and what hangs off it
    {
        let ifs = all_ifs(&pc.block);
        let range_ifs: Vec<&syn::ExprIf> = ifs.iter().filter(|i| nsp(&i.cond).contains("DYNAMIC_RANGE_MINIMUM_UUID")).collect();
        if range_ifs.len() != 1 {
            return Err(format!("pre_create_transform: {} conditions mention DYNAMIC_RANGE_MINIMUM_UUID, expected 1", range_ifs.len()));
        }
        let ri = range_ifs[0];
        let b = match &*ri.cond {
            syn::Expr::Binary(b) => b,
            o => return Err(format!("pre_create_transform: range condition is not a comparison: `{}`", toks(o))),
        };
        let (l, r) = (nsp(&b.left), nsp(&b.right));
        let cmp = if l == "uuid_ref" && r == "DYNAMIC_RANGE_MINIMUM_UUID" {
            cmp_lean(&b.op, "u", "dynMin")?
        } else if r == "uuid_ref" && l == "DYNAMIC_RANGE_MINIMUM_UUID" {
            cmp_lean(&b.op, "dynMin", "u")?
        } else {
            return Err(format!("pre_create_transform: range condition compares `{l}` with `{r}`"));
        };
        body += &format!("/-- `pre_create_transform`: `{}` -/\ndef createRangeCmp (u dynMin : Nat) : Bool := {cmp}\n", toks(&ri.cond));
        if ri.else_branch.is_some() {
            return Err("pre_create_transform: the range condition gained an else branch".into());
        }
        if ri.then_branch.stmts.len() != 1 {
            return Err("pre_create_transform: the range branch is no longer a single if/else".into());
        }
        let inner = match stmt_expr(&ri.then_branch.stmts[0]) {
            Some(syn::Expr::If(i)) => i,
            _ => return Err("pre_create_transform: the range branch is no longer `if ce.ident.is_internal() {..} else {..}`".into()),
        };
        let exempt = match nsp(&inner.cond).as_str() {
            "ce.ident.is_internal()" => true,
            o => return Err(format!("pre_create_transform: exemption condition is `{o}`, expected `ce.ident.is_internal()`")),
        };
        let then_s = nsp(&inner.then_branch);
        let cls = then_s
            .strip_prefix("{entry.add_ava(Attribute::Class,EntryClass::")
            .and_then(|s| s.strip_suffix(".to_value());}"))
            .ok_or_else(|| format!("pre_create_transform: internal branch is not a single `entry.add_ava(Attribute::Class, EntryClass::X.to_value());`: `{then_s}`"))?;
        let else_b = match &inner.else_branch {
            Some((_, e)) => match &**e {
                syn::Expr::Block(b) => &b.block,
                o => return Err(format!("pre_create_transform: non-internal branch is not a block: `{}`", toks(o))),
            },
            None => return Err("pre_create_transform: the non-internal branch is gone".into()),
        };
        let sets = assignments(else_b, "system_range_invalid");
        let all_sets = assignments(&pc.block, "system_range_invalid");
        let flagged = sets == vec!["true".to_string()] && all_sets == vec!["true".to_string()];
        if !all_sets.iter().all(|s| s == "true") {
            return Err(format!("pre_create_transform: system_range_invalid is assigned {all_sets:?}"));
        }
        body += &format!("/-- `pre_create_transform`: identities for which `{}` holds are exempt from the range rule -/\ndef createInternalExempt : Bool := {exempt}\n", toks(&inner.cond));
        body += &format!("/-- `pre_create_transform`: the class added to an internal identity's entry in the range -/\ndef createInternalAddsClass : Nat := Kanidm.Gen.Access.C.{cls}\n");
        body += &format!("/-- `pre_create_transform`: the non-internal branch sets `system_range_invalid = true` (and nothing resets it) -/\ndef createRangeFlagSet : Bool := {flagged}\n");
    }
    // (c) the order of the rejecting checks after the second loop
    {
        let mut order: Vec<u32> = vec![];
        let mut seen_second_loop = 0;
        for s in &pc.block.stmts {
            let e = match stmt_expr(s) {
                Some(e) => e,
                None => continue,
            };
            match e {
                syn::Expr::ForLoop(_) => seen_second_loop += 1,
                syn::Expr::If(i) if seen_second_loop >= 2 => {
                    let c = nsp(&i.cond);
                    if !returns_err(&i.then_branch) {
                        return Err(format!("pre_create_transform: `if {c}` after the loops does not return an error"));
                    }
                    if c == "system_range_invalid" {
                        order.push(0);
                    } else if c == "cand_uuid.contains(&UUID_DOES_NOT_EXIST)" {
                        order.push(1);
                    } else {
                        return Err(format!("pre_create_transform: unrecognised check `if {c}` after the loops"));
                    }
                }
                syn::Expr::Match(m) if seen_second_loop >= 2 => {
                    if nsp(&m.expr) != "r" {
                        return Err(format!("pre_create_transform: unrecognised `match {}` after the loops", nsp(&m.expr)));
                    }
                    let arms = nsp(m);
                    if !arms.contains("Ok(b)=>{ifb{") || !arms.contains("returnErr(OperationError::Plugin(PluginError::Base(") || !arms.contains("Err(e)=>{") {
                        return Err("pre_create_transform: the exists-in-database match changed shape".into());
                    }
                    order.push(2);
                }
                syn::Expr::Call(c) if nsp(&c.func) == "Ok" => {}
                syn::Expr::If(_) | syn::Expr::Match(_) => {
                    return Err("pre_create_transform: a rejecting check appears before the loops finished".into());
                }
                o => return Err(format!("pre_create_transform: unrecognised top-level statement `{}`", toks(o))),
            }
        }
        if seen_second_loop != 2 {
            return Err(format!("pre_create_transform: {seen_second_loop} top-level for loops, expected 2"));
        }
        // `let r = qs.internal_exists(&filt_in);` must exist, and the filter must be built from cand_uuid with filter_all!
        let src = nsp(&pc.block);
        if !src.contains("letr=qs.internal_exists(&filt_in);") || !src.contains("letfilt_in=filter_all!(FC::Or(cand_uuid") {
            return Err("pre_create_transform: the database existence search is no longer `qs.internal_exists(&filter_all!(FC::Or(cand_uuid..)))`".into());
        }
        if !src.contains("if!cand_uuid.insert(uuid_ref){") {
            return Err("pre_create_transform: the in-request duplicate check `if !cand_uuid.insert(uuid_ref)` is gone".into());
        }
        body += &format!(
            "/-- `pre_create_transform`: the rejecting checks after the loops, in source order (0 range flag, 1 UUID_DOES_NOT_EXIST, 2 exists in the database incl. recycled/tombstones) -/\ndef createPostLoopChecks : List Nat := [{}]\n",
            order.iter().map(|x| x.to_string()).collect::<Vec<_>>().join(", ")
        );
    }

    // ---- plugin runners
    for (lean, runner, f) in [
        ("runPreCreateTransformBase", "run_pre_create_transform", "pre_create_transform"),
        ("runPreModifyBase", "run_pre_modify", "pre_modify"),
        ("runPreBatchModifyBase", "run_pre_batch_modify", "pre_batch_modify"),
    ] {
        let (idx, n) = base_index(&plugins_rs, runner, f)?;
        body += &format!(
            "/-- `Plugins::{runner}` (plugins/mod.rs): position of the `base::Base::{f}(..)?` call among its {n} plugin calls (`none`: not called or result dropped) -/\ndef {lean} : Option Nat := {}\n",
            match idx {
                Some(i) => format!("some {i}"),
                None => "none".to_string(),
            }
        );
    }

    body += "end Kanidm.Gen.BaseProtect\n";
    write_with_import(
        out,
        "BaseProtectOps",
        "server/lib/src/{constants/uuids.rs, plugins/base.rs, plugins/mod.rs, modify.rs, entry.rs}",
        &body,
    )?;
    Ok("BaseProtectOps: constants, pre_create_transform gates, pre_modify / pre_batch_modify tables, plugin order".into())
}
