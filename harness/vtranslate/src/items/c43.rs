//! C43 translator item `pam-ops`: the decision-carrying tokens of the PAM module
//! (unix_integration/pam_sparkle_common/src/core.rs, pam/{constants,module,conv}.rs and
//! unix_integration/common/src/{unix_passwd,unix_proto}.rs) are re-read from the source and
//! emitted as Lean defs (`lean/KanidmModel/Generated/PamOps.lean`):
//!
//! * `enum PamResultCode`, `enum PamAuthResponse`, `enum PamAuthRequest`, `enum ClientResponse`;
//! * `sm_authenticate_connected`: the code of a failed call, and per reply arm either the code
//!   returned (possibly depending on `ignore_unknown_user`) or the handler interaction, whether
//!   the stacked authtok is consulted and the request sent next; every `return` of the function
//!   must be a literal code, or an error handed up from a `PamHandler` call; `PAM_SUCCESS` may be
//!   named exactly once;
//! * `sm_authenticate_fallback`, `acct_mgmt`, `sm_authenticate`: lookup, unknown-user codes,
//!   expiry comparison and code, credential acquisition, verdict codes, dispatch;
//! * `CryptPw::from_str` prefix table and `check_pw` arms;
//! * a scan of the real `PamHandler` (`PamHandle`, `PamConv`): no `Err(..)` can carry `PAM_SUCCESS`.
//!
//! Any shape not recognised is an `Err` (never a guess).
use super::vars;
use crate::util::*;
use quote::ToTokens;
use syn::visit::Visit;
use syn::{Expr, Pat, Stmt};

pub fn run(item: &str, repo: &str, out: &str) -> Option<Result<String, String>> {
    match item {
        "pam-ops" => Some(pam_ops(repo, out)),
        _ => None,
    }
}

fn ts<T: ToTokens>(t: &T) -> String {
    t.to_token_stream().to_string()
}
fn norm<T: ToTokens>(t: &T) -> String {
    ts(t).chars().filter(|c| !c.is_whitespace()).collect::<String>().replace(",)", ")").replace(",}", "}")
}
fn lower_first(s: &str) -> String {
    let mut c = s.chars();
    match c.next() {
        Some(f) => f.to_lowercase().collect::<String>() + c.as_str(),
        None => String::new(),
    }
}
/// `PAM_AUTH_ERR` ↦ `authErr`
fn code_name(v: &str) -> Result<String, String> {
    let rest = v.strip_prefix("PAM_").ok_or_else(|| format!("result code `{v}` does not start with PAM_"))?;
    let mut out = String::new();
    for (i, part) in rest.split('_').enumerate() {
        let p = part.to_lowercase();
        if i == 0 {
            out += &p;
        } else {
            let mut c = p.chars();
            if let Some(f) = c.next() {
                out += &(f.to_uppercase().collect::<String>() + c.as_str());
            }
        }
    }
    Ok(out)
}
fn enum_variants(file: &syn::File, name: &str) -> Result<Vec<String>, String> {
    for it in &file.items {
        if let syn::Item::Enum(e) = it {
            if e.ident == name {
                return Ok(e.variants.iter().map(|v| v.ident.to_string()).collect());
            }
        }
    }
    Err(format!("enum {name} not found"))
}
/// `PamResultCode::X` ↦ X
fn code_lit(e: &Expr) -> Option<String> {
    let n = norm(e);
    n.strip_prefix("PamResultCode::").filter(|s| s.chars().all(|c| c.is_ascii_alphanumeric() || c == '_')).map(|s| s.to_string())
}

/// Every `return` of a piece of code, classified.
#[derive(Debug, Clone, PartialEq)]
enum Ret {
    /// literal code, inside an `Ok(None) =>` arm?
    Lit(String, bool),
    /// an identifier bound by an enclosing `Err(ident)` pattern
    HandedUp,
    Bad(String),
}
struct RetScan {
    err_idents: Vec<String>,
    in_ok_none: u32,
    rets: Vec<Ret>,
    calls: Vec<String>,
    has_loop: bool,
    has_swap: bool,
    success_tokens: u32,
}
impl RetScan {
    fn new() -> Self {
        RetScan { err_idents: vec![], in_ok_none: 0, rets: vec![], calls: vec![], has_loop: false, has_swap: false, success_tokens: 0 }
    }
}
fn err_binding(p: &Pat) -> Option<String> {
    let n = norm(p);
    n.strip_prefix("Err(").and_then(|s| s.strip_suffix(')')).filter(|s| s.chars().all(|c| c.is_ascii_alphanumeric() || c == '_')).map(|s| s.to_string())
}
impl<'ast> Visit<'ast> for RetScan {
    fn visit_arm(&mut self, a: &'ast syn::Arm) {
        let b = err_binding(&a.pat);
        let ok_none = norm(&a.pat) == "Ok(None)";
        if let Some(b) = &b {
            self.err_idents.push(b.clone());
        }
        if ok_none {
            self.in_ok_none += 1;
        }
        syn::visit::visit_arm(self, a);
        if ok_none {
            self.in_ok_none -= 1;
        }
        if b.is_some() {
            self.err_idents.pop();
        }
    }
    fn visit_expr_if(&mut self, i: &'ast syn::ExprIf) {
        // `if let Err(err) = <call> { .. }`
        let mut pushed = false;
        if let Expr::Let(l) = &*i.cond {
            if let Some(b) = err_binding(&l.pat) {
                self.visit_expr(&l.expr);
                self.err_idents.push(b);
                pushed = true;
            }
        }
        if !pushed {
            self.visit_expr(&i.cond);
        }
        self.visit_block(&i.then_branch);
        if pushed {
            self.err_idents.pop();
        }
        if let Some((_, e)) = &i.else_branch {
            self.visit_expr(e);
        }
    }
    fn visit_expr_return(&mut self, r: &'ast syn::ExprReturn) {
        let e = match &r.expr {
            Some(e) => e,
            None => {
                self.rets.push(Ret::Bad("return without value".into()));
                return;
            }
        };
        if let Some(c) = code_lit(e) {
            if c == "PAM_SUCCESS" {
                self.success_tokens += 1;
            }
            self.rets.push(Ret::Lit(c, self.in_ok_none > 0));
        } else {
            let n = norm(&**e);
            if self.err_idents.iter().any(|x| *x == n) {
                self.rets.push(Ret::HandedUp);
            } else {
                self.rets.push(Ret::Bad(n));
            }
        }
    }
    fn visit_expr_path(&mut self, p: &'ast syn::ExprPath) {
        if norm(p) == "PamResultCode::PAM_SUCCESS" {
            self.success_tokens += 1;
        }
    }
    fn visit_expr_method_call(&mut self, m: &'ast syn::ExprMethodCall) {
        if norm(&*m.receiver) == "pamh" {
            self.calls.push(m.method.to_string());
        }
        syn::visit::visit_expr_method_call(self, m);
    }
    fn visit_expr_call(&mut self, c: &'ast syn::ExprCall) {
        if norm(c) == "std::mem::swap(&mutauthtok,&mutstacked_authtok)" {
            self.has_swap = true;
        }
        syn::visit::visit_expr_call(self, c);
    }
    fn visit_expr_loop(&mut self, l: &'ast syn::ExprLoop) {
        self.has_loop = true;
        syn::visit::visit_expr_loop(self, l);
    }
}
// `return PamResultCode::PAM_SUCCESS` is counted by visit_expr_return and must not be counted
// again by visit_expr_path: visit_expr_return does not descend.

/// `if opts.ignore_unknown_user { .. A } else { .. B }` anywhere in `e`: (A, B); values are
/// `return X` or tail expressions `X`.
fn unknown_pair(what: &str, t: &impl ToTokens) -> Result<(String, String), String> {
    struct F(Option<(String, String)>, Vec<String>);
    fn last_code(b: &syn::Block) -> Option<String> {
        match b.stmts.last()? {
            Stmt::Expr(Expr::Return(r), _) => r.expr.as_ref().and_then(|e| code_lit(e)),
            Stmt::Expr(e, None) => code_lit(e),
            _ => None,
        }
    }
    impl<'ast> Visit<'ast> for F {
        fn visit_expr_if(&mut self, i: &'ast syn::ExprIf) {
            if norm(&*i.cond) == "opts.ignore_unknown_user" {
                let a = last_code(&i.then_branch);
                let b = match i.else_branch.as_ref().map(|(_, e)| &**e) {
                    Some(Expr::Block(b)) => last_code(&b.block),
                    _ => None,
                };
                match (a, b) {
                    (Some(a), Some(b)) if self.0.is_none() => self.0 = Some((a, b)),
                    _ => self.1.push(norm(i)),
                }
            } else {
                syn::visit::visit_expr_if(self, i);
            }
        }
    }
    let mut f = F(None, vec![]);
    let file: syn::Expr = syn::parse2(quote::quote!({ #t })).map_err(|e| format!("{what}: {e}"))?;
    f.visit_expr(&file);
    if !f.1.is_empty() {
        return Err(format!("{what}: unrecognised ignore_unknown_user branches {:?}", f.1));
    }
    f.0.ok_or_else(|| format!("{what}: no `if opts.ignore_unknown_user` found"))
}

/// `if let Some(expire) = expiration_date { if <cond> { .. return X; } };` ↦ (lean cond, source cond, X)
fn expiry(what: &str, st: &Stmt) -> Result<(String, String, String), String> {
    let outer = match st {
        Stmt::Expr(Expr::If(i), _) => i,
        o => return Err(format!("{what}: expected the expiry `if let`, found `{}`", ts(o))),
    };
    if norm(&*outer.cond) != "letSome(expire)=expiration_date" || outer.else_branch.is_some() {
        return Err(format!("{what}: expiry guard `{}`", ts(&*outer.cond)));
    }
    let inner = match outer.then_branch.stmts.as_slice() {
        [Stmt::Expr(Expr::If(i), _)] if i.else_branch.is_none() => i,
        _ => return Err(format!("{what}: expiry body is not a single `if`")),
    };
    let lean = lean_expr(&inner.cond, &vars(&[("current_time", "now"), ("expire", "expire")])).map_err(|e| format!("{what}: {e}"))?;
    let code = match inner.then_branch.stmts.last() {
        Some(Stmt::Expr(Expr::Return(r), _)) => r.expr.as_ref().and_then(|e| code_lit(e)),
        _ => None,
    }
    .ok_or_else(|| format!("{what}: expiry branch does not end in `return PamResultCode::X`"))?;
    for s in &inner.then_branch.stmts[..inner.then_branch.stmts.len() - 1] {
        if !matches!(s, Stmt::Macro(_)) {
            return Err(format!("{what}: unexpected statement in the expiry branch `{}`", ts(s)));
        }
    }
    Ok((lean, ts(&*inner.cond), code))
}

const LOOKUP_USER: &str = "letuser=users.into_iter().find(|etcuser|etcuser.name==account_id);";
const LOOKUP_SHADOW: &str = "letshadow=shadow.into_iter().find(|etcshadow|etcshadow.name==account_id);";
const EXPIRE_LET: &str = "letexpiration_date=shadow.epoch_expire_seconds;";

fn pam_ops(repo: &str, out: &str) -> Result<String, String> {
    let rel_core = "unix_integration/pam_sparkle_common/src/core.rs";
    let rel_const = "unix_integration/pam_sparkle_common/src/pam/constants.rs";
    let rel_module = "unix_integration/pam_sparkle_common/src/pam/module.rs";
    let rel_conv = "unix_integration/pam_sparkle_common/src/pam/conv.rs";
    let rel_proto = "unix_integration/common/src/unix_proto.rs";
    let rel_passwd = "unix_integration/common/src/unix_passwd.rs";
    let core = parse_file(repo, rel_core)?;
    let consts = parse_file(repo, rel_const)?;
    let proto = parse_file(repo, rel_proto)?;
    let passwd = parse_file(repo, rel_passwd)?;

    // ---- enums ------------------------------------------------------------------------------------
    let codes = enum_variants(&consts, "PamResultCode")?;
    let mut code_vals: Vec<(String, i128)> = vec![];
    for it in &consts.items {
        if let syn::Item::Enum(e) = it {
            if e.ident == "PamResultCode" {
                for v in &e.variants {
                    let d = v.discriminant.as_ref().ok_or_else(|| format!("PamResultCode::{} has no explicit value", v.ident))?;
                    code_vals.push((v.ident.to_string(), eval_int(&d.1, &|_| None)?));
                }
            }
        }
    }
    if code_vals.iter().find(|(n, _)| n == "PAM_SUCCESS").map(|(_, v)| *v) != Some(0) {
        return Err("PAM_SUCCESS is not 0".into());
    }
    if code_vals.iter().filter(|(_, v)| *v == 0).count() != 1 {
        return Err("more than one result code has value 0".into());
    }
    let code = |c: &str| -> Result<String, String> {
        if codes.iter().any(|x| x == c) {
            Ok(format!(".{}", code_name(c)?))
        } else {
            Err(format!("PamResultCode::{c} is not a variant"))
        }
    };
    let steps = enum_variants(&proto, "PamAuthResponse")?;
    let reqs = enum_variants(&proto, "PamAuthRequest")?;
    let responses = enum_variants(&proto, "ClientResponse")?;
    let others: Vec<String> = responses.iter().filter(|r| *r != "PamAuthenticateStepResponse").cloned().collect();
    if others.len() + 1 != responses.len() {
        return Err("ClientResponse has no PamAuthenticateStepResponse variant".into());
    }

    // ---- sm_authenticate_connected -----------------------------------------------------------------
    let f = find_fn(&core, "sm_authenticate_connected")?;
    let what = "sm_authenticate_connected";
    let mut whole = RetScan::new();
    whole.visit_block(&f.block);
    if whole.success_tokens != 1 {
        return Err(format!("{what}: PAM_SUCCESS is named {} times, expected exactly once (the Success arm)", whole.success_tokens));
    }
    if let Some(Ret::Bad(b)) = whole.rets.iter().find(|r| matches!(r, Ret::Bad(_))) {
        return Err(format!("{what}: `return {b}` is neither a literal code nor an error handed up from a PamHandler call"));
    }
    // preamble: everything before the loop
    let mut pre = RetScan::new();
    let mut the_loop = None;
    for st in &f.block.stmts {
        match st {
            Stmt::Expr(Expr::Loop(l), _) => the_loop = Some(l.clone()),
            s if the_loop.is_none() => pre.visit_stmt(s),
            s => return Err(format!("{what}: statement after the loop `{}`", ts(s))),
        }
    }
    let the_loop = the_loop.ok_or_else(|| format!("{what}: no loop"))?;
    if pre.calls != ["service_info", "account_id", "authtok"] {
        return Err(format!("{what}: handler calls before the loop are {:?}", pre.calls));
    }
    if pre.rets.iter().any(|r| *r != Ret::HandedUp) {
        return Err(format!("{what}: a return before the loop is not a handed-up handler error: {:?}", pre.rets));
    }
    if !f.block.stmts.iter().any(|s| norm(s) == "letmutreq=ClientRequest::PamAuthenticateInit{account_id,info};") {
        return Err(format!("{what}: initial request is not PamAuthenticateInit {{ account_id, info }}"));
    }
    if !f.block.stmts.iter().any(|s| norm(s).starts_with("letmutstacked_authtok=ifopts.use_first_pass{matchpamh.authtok(){")) {
        return Err(format!("{what}: stacked_authtok is not taken from pamh.authtok() under use_first_pass"));
    }
    // loop body: `let client_response = match daemon_client.call_and_wait(req, timeout) {..};` + `match client_response {..}`
    let (call_err, reply_match) = match the_loop.body.stmts.as_slice() {
        [Stmt::Local(l), Stmt::Expr(Expr::Match(m), _)] => {
            let init = l.init.as_ref().ok_or_else(|| format!("{what}: loop let without init"))?;
            let cm = match &*init.expr {
                Expr::Match(cm) if norm(&*cm.expr) == "daemon_client.call_and_wait(req,timeout)" && norm(&l.pat) == "client_response" => cm,
                o => return Err(format!("{what}: first loop statement `{}`", ts(o))),
            };
            let mut call_err = None;
            for a in &cm.arms {
                match norm(&a.pat).as_str() {
                    "Ok(r)" if norm(&*a.body) == "r" => {}
                    "Err(err)" => {
                        let mut s = RetScan::new();
                        s.visit_expr(&a.body);
                        match s.rets.as_slice() {
                            [Ret::Lit(c, _)] => call_err = Some(c.clone()),
                            o => return Err(format!("{what}: failed call returns {o:?}")),
                        }
                    }
                    p => return Err(format!("{what}: unexpected call_and_wait arm `{p}`")),
                }
            }
            if norm(&*m.expr) != "client_response" {
                return Err(format!("{what}: second loop statement matches `{}`", ts(&*m.expr)));
            }
            (call_err.ok_or_else(|| format!("{what}: no Err arm for call_and_wait"))?, m.clone())
        }
        _ => return Err(format!("{what}: loop body is not `let client_response = match ..; match client_response {{..}}`")),
    };
    let mut step_actions: Vec<(String, String, String)> = vec![]; // (variant, lean action, doc)
    let mut other_codes: Vec<(String, String)> = vec![];
    let mut none_codes: Vec<String> = vec![];
    for arm in &reply_match.arms {
        if arm.guard.is_some() {
            return Err(format!("{what}: guarded reply arm `{}`", ts(&arm.pat)));
        }
        let cases: Vec<&Pat> = match &arm.pat {
            Pat::Or(o) => o.cases.iter().collect(),
            p => vec![p],
        };
        let mut scan = RetScan::new();
        scan.visit_expr(&arm.body);
        let body = norm(&*arm.body);
        for c in cases {
            let p = norm(c);
            if let Some(rest) = p.strip_prefix("ClientResponse::PamAuthenticateStepResponse{response:PamAuthResponse::") {
                let k: String = rest.chars().take_while(|c| c.is_ascii_alphanumeric()).collect();
                if !steps.iter().any(|s| *s == k) {
                    return Err(format!("{what}: PamAuthResponse::{k} is not a variant"));
                }
                let next_req = body.find("req=ClientRequest::PamAuthenticateStep{request:PamAuthRequest::").map(|i| {
                    body[i + "req=ClientRequest::PamAuthenticateStep{request:PamAuthRequest::".len()..]
                        .chars()
                        .take_while(|c| c.is_ascii_alphanumeric())
                        .collect::<String>()
                });
                let action = match next_req {
                    None => {
                        // terminal arm
                        if !scan.calls.is_empty() {
                            return Err(format!("{what}: terminal arm {k} talks to the handler"));
                        }
                        match scan.rets.as_slice() {
                            [Ret::Lit(c, false)] => format!(".ret {}", code(c)?),
                            [Ret::Lit(_, false), Ret::Lit(_, false)] => {
                                let (a, b) = unknown_pair(&format!("{what}/{k}"), &*arm.body)?;
                                format!(".retIf {} {}", code(&a)?, code(&b)?)
                            }
                            o => return Err(format!("{what}: terminal arm {k} returns {o:?}")),
                        }
                    }
                    Some(q) => {
                        if !reqs.iter().any(|r| *r == q) {
                            return Err(format!("{what}: PamAuthRequest::{q} is not a variant"));
                        }
                        if !body.contains(&format!("session_id}};")) || !p.contains("session_id}") || p.contains("session_id:_") {
                            return Err(format!("{what}: arm {k} does not echo the session id"));
                        }
                        for r in &scan.rets {
                            match r {
                                Ret::HandedUp => {}
                                Ret::Lit(c, true) => none_codes.push(c.clone()),
                                o => return Err(format!("{what}: continue arm {k} has return {o:?}")),
                            }
                        }
                        let calls: Vec<&str> = scan.calls.iter().map(|s| s.as_str()).collect();
                        let inter = match (calls.as_slice(), scan.has_loop) {
                            ([], false) => "none",
                            (["message"], false) => "message",
                            (["message_device_grant"], false) => "deviceGrant",
                            (["prompt_for_password"], false) => "password",
                            (["prompt_for_mfacode"], false) => "mfaCode",
                            (["prompt_for_pin"], false) => "pin",
                            (["message", "prompt_for_pin", "prompt_for_pin", "message"], true) => {
                                if !body.contains("ifpin==confirm{break;}elseifletErr(err)=pamh.message(") {
                                    return Err(format!("{what}: SetupPin loop does not compare pin == confirm"));
                                }
                                "setupPin"
                            }
                            (c, l) => return Err(format!("{what}: arm {k}: unrecognised handler interaction {c:?} (loop: {l})")),
                        };
                        if scan.has_swap && !body.contains("letcred=ifletSome(cred)=authtok{cred}else{matchpamh.") {
                            return Err(format!("{what}: arm {k}: stacked authtok is swapped out but not used as the credential"));
                        }
                        // which value goes into the request
                        let carried = match q.as_str() {
                            "Password" | "MFACode" | "Pin" => body.contains(&format!("PamAuthRequest::{q}{{cred}}")),
                            "SetupPin" => body.contains("PamAuthRequest::SetupPin{pin}"),
                            "DeviceAuthorizationGrant" => body.contains("PamAuthRequest::DeviceAuthorizationGrant{data}"),
                            "MFAPoll" => body.contains("PamAuthRequest::MFAPoll,"),
                            _ => false,
                        };
                        if !carried {
                            return Err(format!("{what}: arm {k}: request PamAuthRequest::{q} does not carry the expected value"));
                        }
                        format!(".cont .{inter} {} .{}", scan.has_swap, lower_first(&q))
                    }
                };
                if step_actions.iter().any(|(v, _, _)| *v == k) {
                    return Err(format!("{what}: PamAuthResponse::{k} handled twice"));
                }
                step_actions.push((k, action, ts(c)));
            } else if let Some(rest) = p.strip_prefix("ClientResponse::") {
                let k: String = rest.chars().take_while(|c| c.is_ascii_alphanumeric()).collect();
                if !others.iter().any(|s| *s == k) {
                    return Err(format!("{what}: ClientResponse::{k} is not a (non-step) variant"));
                }
                if !scan.calls.is_empty() {
                    return Err(format!("{what}: arm {k} talks to the handler"));
                }
                match scan.rets.as_slice() {
                    [Ret::Lit(c, false)] => other_codes.push((k, c.clone())),
                    o => return Err(format!("{what}: arm {k} returns {o:?}")),
                }
            } else {
                return Err(format!("{what}: unrecognised reply pattern `{p}` (wildcards are not accepted)"));
            }
        }
    }
    for s in &steps {
        if !step_actions.iter().any(|(v, _, _)| v == s) {
            return Err(format!("{what}: PamAuthResponse::{s} has no arm"));
        }
    }
    for o in &others {
        if other_codes.iter().filter(|(v, _)| v == o).count() != 1 {
            return Err(format!("{what}: ClientResponse::{o} is not handled by exactly one arm"));
        }
    }

    // ---- sm_authenticate_fallback --------------------------------------------------------------------
    let f = find_fn(&core, "sm_authenticate_fallback")?;
    let what = "sm_authenticate_fallback";
    let mut scan = RetScan::new();
    scan.visit_block(&f.block);
    if scan.calls != ["account_id", "authtok", "prompt_for_password"] {
        return Err(format!("{what}: handler calls are {:?}", scan.calls));
    }
    if let Some(Ret::Bad(b)) = scan.rets.iter().find(|r| matches!(r, Ret::Bad(_))) {
        return Err(format!("{what}: `return {b}` is neither a literal code nor a handed-up handler error"));
    }
    let st: Vec<String> = f.block.stmts.iter().map(norm).collect();
    if st.len() != 11 {
        return Err(format!("{what}: expected 11 statements, found {}", st.len()));
    }
    if !(st[0].starts_with("letaccount_id=matchpamh.account_id(){") && st[1] == LOOKUP_USER && st[2] == LOOKUP_SHADOW) {
        return Err(format!("{what}: account / user / shadow lookup not in the expected shape"));
    }
    if !st[3].starts_with("let(_user,shadow)=match(user,shadow){(Some(user),Some(shadow))=>(user,shadow),_=>{") {
        return Err(format!("{what}: `(user, shadow)` match not in the expected shape: {}", st[3]));
    }
    let (unk_a, unk_b) = unknown_pair(what, &f.block.stmts[3])?;
    if st[4] != EXPIRE_LET {
        return Err(format!("{what}: expiry date taken from `{}`", st[4]));
    }
    let (exp_lean, exp_src, exp_code) = expiry(what, &f.block.stmts[5])?;
    if !st[6].starts_with("letmutstacked_authtok=ifopts.use_first_pass{matchpamh.authtok(){Ok(authtok)=>authtok,Err(err)=>returnerr}}else{None};") {
        return Err(format!("{what}: stacked authtok: {}", st[6]));
    }
    if !(st[7] == "letmutauthtok=None;" && st[8] == "std::mem::swap(&mutauthtok,&mutstacked_authtok);") {
        return Err(format!("{what}: authtok swap not in the expected shape"));
    }
    let verdict = match f.block.stmts.last() {
        Some(Stmt::Expr(Expr::If(i), None)) if norm(&*i.cond) == "shadow.password.check_pw(cred.as_str())" => i,
        _ => return Err(format!("{what}: verdict is not `if shadow.password.check_pw(cred.as_str())`")),
    };
    let tail_code = |b: &syn::Block| -> Option<String> {
        match b.stmts.as_slice() {
            [Stmt::Expr(e, None)] => code_lit(e),
            _ => None,
        }
    };
    let pw_ok = tail_code(&verdict.then_branch).ok_or_else(|| format!("{what}: verdict then-branch"))?;
    let pw_bad = match verdict.else_branch.as_ref().map(|(_, e)| &**e) {
        Some(Expr::Block(b)) => tail_code(&b.block),
        _ => None,
    }
    .ok_or_else(|| format!("{what}: verdict else-branch"))?;
    // the statement before the verdict acquires the credential
    let cred_stmt = &f.block.stmts[f.block.stmts.len() - 2];
    if !norm(cred_stmt).starts_with("letcred=ifletSome(cred)=authtok{cred}else{matchpamh.prompt_for_password(){Ok(Some(cred))=>cred,Ok(None)=>returnPamResultCode::") {
        return Err(format!("{what}: credential acquisition: {}", norm(cred_stmt)));
    }
    {
        let mut s = RetScan::new();
        s.visit_stmt(cred_stmt);
        for r in &s.rets {
            if let Ret::Lit(c, true) = r {
                none_codes.push(c.clone());
            }
        }
    }
    none_codes.sort();
    none_codes.dedup();
    if none_codes.len() != 1 {
        return Err(format!("`Ok(None)` from a prompt returns different codes: {none_codes:?}"));
    }

    // ---- acct_mgmt --------------------------------------------------------------------------------------
    let f = find_fn(&core, "acct_mgmt")?;
    let what = "acct_mgmt";
    let mut scan = RetScan::new();
    scan.visit_block(&f.block);
    if scan.calls != ["service_info", "account_id"] {
        return Err(format!("{what}: handler calls are {:?}", scan.calls));
    }
    if let Some(Ret::Bad(b)) = scan.rets.iter().find(|r| matches!(r, Ret::Bad(_))) {
        return Err(format!("{what}: `return {b}`"));
    }
    let m = match f.block.stmts.last() {
        Some(Stmt::Expr(Expr::Match(m), None)) if norm(&*m.expr) == "req_opt.connect_to_daemon()" => m,
        _ => return Err(format!("{what}: tail is not `match req_opt.connect_to_daemon()`")),
    };
    let mut acct_status: Vec<(String, String)> = vec![];
    let mut acct_other = None;
    let mut acct_call_err = None;
    let mut acct_fb = None;
    for arm in &m.arms {
        let p = norm(&arm.pat);
        let b = match &*arm.body {
            Expr::Block(b) => &b.block,
            o => return Err(format!("{what}: arm body `{}`", ts(o))),
        };
        if p == "Source::Daemon(daemon_client)" {
            if !(b.stmts.len() == 2 && norm(&b.stmts[0]) == "letreq=ClientRequest::PamAccountAllowed{account_id,info};") {
                return Err(format!("{what}: daemon arm does not send PamAccountAllowed {{ account_id, info }}"));
            }
            let cm = match &b.stmts[1] {
                Stmt::Expr(Expr::Match(cm), None) if norm(&*cm.expr) == "daemon_client.call_and_wait(req,None)" => cm,
                _ => return Err(format!("{what}: daemon arm does not match on call_and_wait(req, None)")),
            };
            let arm_code = |e: &Expr| -> Option<String> {
                match e {
                    Expr::Block(b) => match b.block.stmts.last() {
                        Some(Stmt::Expr(e, None)) => code_lit(e),
                        _ => None,
                    },
                    e => code_lit(e),
                }
            };
            for a in &cm.arms {
                match norm(&a.pat).as_str() {
                    "Ok(r)" => {
                        let rm = match &*a.body {
                            Expr::Match(rm) if norm(&*rm.expr) == "r" => rm,
                            _ => return Err(format!("{what}: Ok(r) arm is not `match r`")),
                        };
                        for ra in &rm.arms {
                            let rp = norm(&ra.pat);
                            match rp.as_str() {
                                "ClientResponse::PamStatus(Some(true))" | "ClientResponse::PamStatus(Some(false))" => {
                                    let c = arm_code(&ra.body).ok_or_else(|| format!("{what}: arm {rp}"))?;
                                    let key = if rp.contains("true") { "some true" } else { "some false" };
                                    acct_status.push((key.into(), format!(".ret {}", code(&c)?)));
                                }
                                "ClientResponse::PamStatus(None)" => {
                                    let (x, y) = unknown_pair(what, &*ra.body)?;
                                    acct_status.push(("none".into(), format!(".retIf {} {}", code(&x)?, code(&y)?)));
                                }
                                "_" => acct_other = arm_code(&ra.body),
                                o => return Err(format!("{what}: unexpected reply arm `{o}`")),
                            }
                        }
                    }
                    "Err(e)" => acct_call_err = arm_code(&a.body),
                    o => return Err(format!("{what}: unexpected call arm `{o}`")),
                }
            }
        } else if p == "Source::Fallback{users,shadow}" {
            let st: Vec<String> = b.stmts.iter().map(norm).collect();
            if st.len() != 7 || st[0] != LOOKUP_USER || st[1] != LOOKUP_SHADOW || st[3] != EXPIRE_LET {
                return Err(format!("{what}: fallback arm is not lookup / lookup / match / expiry / verdict"));
            }
            let (x, y) = unknown_pair(what, &b.stmts[2])?;
            let (l, _, c) = expiry(what, &b.stmts[4])?;
            if (x.clone(), y.clone()) != (unk_a.clone(), unk_b.clone()) || l != exp_lean || c != exp_code {
                return Err(format!("{what}: fallback arm disagrees with sm_authenticate_fallback on unknown-user / expiry handling"));
            }
            if !matches!(&b.stmts[5], Stmt::Macro(_)) {
                return Err(format!("{what}: fallback arm statement 5"));
            }
            acct_fb = match &b.stmts[6] {
                Stmt::Expr(e, None) => code_lit(e),
                _ => None,
            };
        } else {
            return Err(format!("{what}: unexpected source arm `{p}`"));
        }
    }
    if acct_status.len() != 3 {
        return Err(format!("{what}: PamStatus arms: {acct_status:?}"));
    }
    let acct_other = acct_other.ok_or_else(|| format!("{what}: no `_` reply arm"))?;
    let acct_call_err = acct_call_err.ok_or_else(|| format!("{what}: no Err(e) arm"))?;
    let acct_fb = acct_fb.ok_or_else(|| format!("{what}: fallback verdict"))?;

    // ---- sm_authenticate -----------------------------------------------------------------------------------
    let f = find_fn(&core, "sm_authenticate")?;
    if norm(&f.block)
        != "{matchreq_opt.connect_to_daemon(){Source::Daemon(daemon_client)=>{sm_authenticate_connected(pamh,opts,current_time,&daemon_client)}Source::Fallback{users,shadow}=>{sm_authenticate_fallback(pamh,opts,current_time,users,shadow)}}}"
    {
        return Err(format!("sm_authenticate: dispatch not in the expected shape: {}", norm(&f.block)));
    }
    // connect_to_daemon: Fallback only when no client could be made
    let f = find_fn(&core, "RequestOptions::connect_to_daemon")?;
    let b = norm(&f.block);
    if !(b.contains("ifletSome(client)=maybe_blocking_client{returnSource::Daemon(client);}")
        && b.contains("ifletSome(client)=maybe_client{let_=CLIENT.replace(Some(client.clone()));Source::Daemon(client)}else{letusers=read_etc_passwd_file(SYSTEM_PASSWD_PATH).unwrap_or_default();letshadow=read_etc_shadow_file(SYSTEM_SHADOW_PATH).unwrap_or_default();Source::Fallback{users,shadow}}"))
    {
        return Err("connect_to_daemon: not in the expected shape".into());
    }

    // ---- CryptPw ----------------------------------------------------------------------------------------------
    let kinds = enum_variants(&passwd, "CryptPw")?;
    let f = find_fn(&passwd, "FromStr@CryptPw::from_str")?;
    let mut prefixes: Vec<(String, String)> = vec![];
    let mut default_kind = None;
    let mut cur = match f.block.stmts.as_slice() {
        [Stmt::Expr(Expr::If(i), None)] => Some(i.clone()),
        _ => return Err("CryptPw::from_str: body is not an if/else chain".into()),
    };
    while let Some(i) = cur.take() {
        let c = norm(&*i.cond);
        let lit = c
            .strip_prefix("value.starts_with(\"")
            .and_then(|s| s.strip_suffix("\")"))
            .ok_or_else(|| format!("CryptPw::from_str: condition `{c}`"))?
            .to_string();
        if lit.is_empty() || lit.contains('\\') {
            return Err(format!("CryptPw::from_str: prefix literal `{lit}`"));
        }
        let t = norm(&i.then_branch);
        let k = t
            .strip_prefix("{Ok(CryptPw::")
            .and_then(|s| s.strip_suffix("(value.to_string()))}"))
            .ok_or_else(|| format!("CryptPw::from_str: branch `{t}`"))?
            .to_string();
        if !kinds.iter().any(|x| *x == k) {
            return Err(format!("CryptPw::{k} is not a variant"));
        }
        prefixes.push((lit, k));
        match i.else_branch.as_ref().map(|(_, e)| &**e) {
            Some(Expr::If(n)) => cur = Some(n.clone()),
            Some(Expr::Block(b)) => {
                let t = norm(&b.block);
                default_kind = t.strip_prefix("{Ok(CryptPw::").and_then(|s| s.strip_suffix(")}")).map(|s| s.to_string());
            }
            _ => return Err("CryptPw::from_str: chain does not end in else".into()),
        }
    }
    let default_kind = default_kind.ok_or("CryptPw::from_str: final else")?;
    if !kinds.iter().any(|x| *x == default_kind) {
        return Err(format!("CryptPw::{default_kind} is not a variant"));
    }
    let f = find_fn(&passwd, "CryptPw::check_pw")?;
    let m = match f.block.stmts.as_slice() {
        [Stmt::Expr(Expr::Match(m), None)] => m,
        _ => return Err("check_pw: body is not a match".into()),
    };
    let mut verifies: Vec<(String, bool)> = vec![];
    let mut shapes: Vec<(String, Option<(u64, String)>)> = vec![];
    for a in &m.arms {
        let p = norm(&a.pat);
        let k: String = p.strip_prefix("CryptPw::").ok_or_else(|| format!("check_pw: arm `{p}`"))?.chars().take_while(|c| c.is_ascii_alphanumeric()).collect();
        let b = norm(&*a.body);
        let v = if b == "false" {
            false
        } else {
            let expect = match k.as_str() {
                "Sha256" => "sha_crypt::sha256_check(cred,crypt.as_str()).is_ok()",
                "Sha512" => "sha_crypt::sha512_check(cred,crypt.as_str()).is_ok()",
                "YesCrypt" => "Yescrypt::default().verify_password(cred.as_bytes(),&password_hash)",
                o => return Err(format!("check_pw: no known verifier for CryptPw::{o}")),
            };
            if !b.contains(expect) || b.contains("true") {
                return Err(format!("check_pw: arm {k} does not verify with `{expect}`"));
            }
            true
        };
        // optional guard `sha_crypt_digest_is_canonical(crypt.as_str(), LEN, "LASTCHARS") && <verifier>`
        let guard = "sha_crypt_digest_is_canonical(crypt.as_str(),";
        let shape = match b.find(guard) {
            None => None,
            Some(i) => {
                if i > 1 {
                    return Err(format!("check_pw: arm {k}: the digest guard is not the first conjunct: `{b}`"));
                }
                let rest = &b[i + guard.len()..];
                let (len, rest) = rest.split_once(",\"").ok_or_else(|| format!("check_pw: arm {k}: guard arguments `{rest}`"))?;
                let (chars, rest) = rest.split_once("\")").ok_or_else(|| format!("check_pw: arm {k}: guard arguments `{rest}`"))?;
                if !rest.starts_with("&&") {
                    return Err(format!("check_pw: arm {k}: the digest guard is not conjoined with the verifier: `{b}`"));
                }
                if chars.is_empty() || !chars.chars().all(|c| c == '.' || c == '/' || c.is_ascii_alphanumeric()) {
                    return Err(format!("check_pw: arm {k}: last-character set `{chars}`"));
                }
                Some((len.parse::<u64>().map_err(|e| format!("check_pw: arm {k}: digest length `{len}`: {e}"))?, chars.to_string()))
            }
        };
        shapes.push((k.clone(), shape));
        verifies.push((k, v));
    }
    for k in &kinds {
        if verifies.iter().filter(|(x, _)| x == k).count() != 1 {
            return Err(format!("check_pw: CryptPw::{k} is not handled by exactly one arm"));
        }
    }

    if shapes.iter().any(|(_, s)| s.is_some()) {
        let f = find_fn(&passwd, "sha_crypt_digest_is_canonical")?;
        let want = "{crypt.rsplit('$').next().is_some_and(|digest|{digest.len()==len&&digest.bytes().all(|b|b==b'.'||b==b'/'||b.is_ascii_alphanumeric())&&digest.chars().last().is_some_and(|c|last_chars.contains(c))})}";
        if norm(&f.block) != want {
            return Err(format!("sha_crypt_digest_is_canonical: body not in the expected shape: {}", norm(&f.block)));
        }
        if norm(&f.sig) != "fnsha_crypt_digest_is_canonical(crypt:&str,len:usize,last_chars:&str)->bool" {
            return Err(format!("sha_crypt_digest_is_canonical: signature {}", norm(&f.sig)));
        }
    }

    // ---- the real PamHandler never hands up Err(PAM_SUCCESS) ---------------------------------------------------
    struct ErrScan {
        nonsuccess: Vec<String>,
        sites: u32,
        bad: Vec<String>,
    }
    impl<'ast> Visit<'ast> for ErrScan {
        fn visit_expr_if(&mut self, i: &'ast syn::ExprIf) {
            let c = norm(&*i.cond);
            let v = c.strip_prefix("PamResultCode::PAM_SUCCESS==").or_else(|| c.strip_suffix("==PamResultCode::PAM_SUCCESS")).map(|s| s.to_string());
            self.visit_expr(&i.cond);
            self.visit_block(&i.then_branch);
            if let Some((_, e)) = &i.else_branch {
                if let Some(v) = &v {
                    self.nonsuccess.push(v.clone());
                }
                self.visit_expr(e);
                if v.is_some() {
                    self.nonsuccess.pop();
                }
            }
        }
        fn visit_expr_call(&mut self, c: &'ast syn::ExprCall) {
            if norm(&*c.func) == "Err" && c.args.len() == 1 {
                self.sites += 1;
                let a = norm(&c.args[0]);
                let ok = match a.strip_prefix("PamResultCode::") {
                    Some(x) => x != "PAM_SUCCESS",
                    None => self.nonsuccess.iter().any(|v| *v == a),
                };
                if !ok {
                    self.bad.push(format!("Err({a})"));
                }
            }
            syn::visit::visit_expr_call(self, c);
        }
        fn visit_expr_method_call(&mut self, m: &'ast syn::ExprMethodCall) {
            if m.method == "map_err" && m.args.len() == 1 {
                self.sites += 1;
                let ok = match &m.args[0] {
                    Expr::Closure(cl) => code_lit(&cl.body).map(|c| c != "PAM_SUCCESS").unwrap_or(false),
                    _ => false,
                };
                if !ok {
                    self.bad.push(norm(m));
                }
            }
            syn::visit::visit_expr_method_call(self, m);
        }
    }
    let mut es = ErrScan { nonsuccess: vec![], sites: 0, bad: vec![] };
    for rel in [rel_module, rel_conv] {
        let ast = parse_file(repo, rel)?;
        es.visit_file(&ast);
    }
    if !es.bad.is_empty() {
        return Err(format!("the real PamHandler may hand up PAM_SUCCESS as an error: {:?}", es.bad));
    }
    if es.sites == 0 {
        return Err("no error sites found in pam/module.rs, pam/conv.rs".into());
    }

    // ---- emit ------------------------------------------------------------------------------------------------------
    let mut b = String::from("namespace Kanidm.Gen.Pam\n");
    b += "/-- `enum PamResultCode` (pam/constants.rs), variants in source order. -/\ninductive PamCode where\n";
    for c in &codes {
        b += &format!("  | {}\n", code_name(c)?);
    }
    b += "deriving DecidableEq, Repr\n";
    b += "def PamCode.name : PamCode → String\n";
    for c in &codes {
        b += &format!("  | .{} => \"{c}\"\n", code_name(c)?);
    }
    b += "def PamCode.toNat : PamCode → Nat\n";
    for (c, v) in &code_vals {
        b += &format!("  | .{} => {v}\n", code_name(c)?);
    }
    b += &format!("def PamCode.all : List PamCode := [{}]\n", codes.iter().map(|c| code_name(c).map(|n| format!(".{n}"))).collect::<Result<Vec<_>, _>>()?.join(", "));
    b += "/-- `enum PamAuthResponse` (unix_proto.rs). -/\ninductive StepKind where\n";
    for s in &steps {
        b += &format!("  | {}\n", lower_first(s));
    }
    b += "deriving DecidableEq, Repr\ndef StepKind.name : StepKind → String\n";
    for s in &steps {
        b += &format!("  | .{} => \"{s}\"\n", lower_first(s));
    }
    b += &format!("def StepKind.all : List StepKind := [{}]\n", steps.iter().map(|c| format!(".{}", lower_first(c))).collect::<Vec<_>>().join(", "));
    b += "/-- `enum ClientResponse` without `PamAuthenticateStepResponse`. -/\ninductive OtherKind where\n";
    for s in &others {
        b += &format!("  | {}\n", lower_first(s));
    }
    b += "deriving DecidableEq, Repr\ndef OtherKind.name : OtherKind → String\n";
    for s in &others {
        b += &format!("  | .{} => \"{s}\"\n", lower_first(s));
    }
    b += &format!("def OtherKind.all : List OtherKind := [{}]\n", others.iter().map(|c| format!(".{}", lower_first(c))).collect::<Vec<_>>().join(", "));
    b += "/-- `enum PamAuthRequest`. -/\ninductive ReqKind where\n";
    for s in &reqs {
        b += &format!("  | {}\n", lower_first(s));
    }
    b += "deriving DecidableEq, Repr\ndef ReqKind.name : ReqKind → String\n";
    for s in &reqs {
        b += &format!("  | .{} => \"{s}\"\n", lower_first(s));
    }
    b += "/-- What a continue arm asks of the `PamHandler`. -/\ninductive Interact where\n  | none\n  | message\n  | deviceGrant\n  | password\n  | mfaCode\n  | pin\n  | setupPin\nderiving DecidableEq, Repr\n";
    b += "inductive StepAction where\n  | ret (c : PamCode)\n  | retIf (ifIgnoreUnknown otherwise : PamCode)\n  | cont (i : Interact) (useStacked : Bool) (q : ReqKind)\nderiving DecidableEq, Repr\n";
    b += "/-- sm_authenticate_connected: `match client_response`, arm by arm -/\ndef stepAction : StepKind → StepAction\n";
    for (k, a, _) in &step_actions {
        b += &format!("  | .{} => {a}\n", lower_first(k));
    }
    b += "def otherCode : OtherKind → PamCode\n";
    for (k, c) in &other_codes {
        b += &format!("  | .{} => {}\n", lower_first(k), code(c)?);
    }
    b += &format!("/-- sm_authenticate_connected: `call_and_wait` failed -/\ndef callErrCode : PamCode := {}\n", code(&call_err)?);
    b += &format!("/-- a prompt answered `Ok(None)` -/\ndef noneCode : PamCode := {}\n", code(&none_codes[0])?);
    b += &format!(
        "/-- fallback / acct_mgmt: no passwd or no shadow entry, `if opts.ignore_unknown_user` then / else -/\ndef unknownIfIgnore : PamCode := {}\ndef unknownOtherwise : PamCode := {}\n",
        code(&unk_a)?,
        code(&unk_b)?
    );
    b += &format!("/-- fallback / acct_mgmt: `if {exp_src}` -/\ndef expiredWhen (now expire : Int) : Bool := {exp_lean}\ndef expiredCode : PamCode := {}\n", code(&exp_code)?);
    b += &format!("/-- sm_authenticate_fallback: `if shadow.password.check_pw(..)` then / else -/\ndef pwOkCode : PamCode := {}\ndef pwBadCode : PamCode := {}\n", code(&pw_ok)?, code(&pw_bad)?);
    b += "/-- `enum CryptPw` (unix_passwd.rs). -/\ninductive HashKind where\n";
    for k in &kinds {
        b += &format!("  | {}\n", lower_first(k));
    }
    b += "deriving DecidableEq, Repr\ndef HashKind.name : HashKind → String\n";
    for k in &kinds {
        b += &format!("  | .{} => \"{k}\"\n", lower_first(k));
    }
    let chars = |s: &str| s.chars().map(|c| format!("'{c}'")).collect::<Vec<_>>().join(", ");
    b += &format!(
        "/-- CryptPw::from_str: `starts_with` chain in source order -/\ndef prefixTable : List (List Char × HashKind) := [{}]\n",
        prefixes.iter().map(|(p, k)| format!("([{}], .{})", chars(p), lower_first(k))).collect::<Vec<_>>().join(", ")
    );
    b += &format!("def noPrefixKind : HashKind := .{}\n", lower_first(&default_kind));
    b += "/-- CryptPw::check_pw: does the arm call the scheme's verifier (`false` = literally `false`) -/\ndef kindVerifies : HashKind → Bool\n";
    for (k, v) in &verifies {
        b += &format!("  | .{} => {v}\n", lower_first(k));
    }
    b += "/-- CryptPw::check_pw: the digest-shape guard in front of the verifier: (length of the text after the last `$`, allowed last characters); every character must be in [./0-9A-Za-z] -/\ndef digestShape : HashKind → Option (Nat × List Char)\n";
    for (k, sh) in &shapes {
        match sh {
            Some((len, cs)) => b += &format!("  | .{} => some ({len}, [{}])\n", lower_first(k), chars(cs)),
            None => b += &format!("  | .{} => none\n", lower_first(k)),
        }
    }
    b += "inductive AcctAction where\n  | ret (c : PamCode)\n  | retIf (ifIgnoreUnknown otherwise : PamCode)\nderiving DecidableEq, Repr\n";
    b += "/-- acct_mgmt: `ClientResponse::PamStatus(..)` arms -/\ndef acctStatus : Option Bool → AcctAction\n";
    for (k, a) in &acct_status {
        b += &format!("  | {k} => {a}\n");
    }
    b += &format!(
        "/-- acct_mgmt: any other reply / failed call / local account found and not expired -/\ndef acctOtherCode : PamCode := {}\ndef acctCallErrCode : PamCode := {}\ndef acctFallbackOk : PamCode := {}\n",
        code(&acct_other)?,
        code(&acct_call_err)?,
        code(&acct_fb)?
    );
    b += &format!("/-- `Err(..)` / `map_err` sites of the real PamHandler (pam/module.rs, pam/conv.rs) checked to never carry PAM_SUCCESS -/\ndef handlerErrSites : Nat := {}\n", es.sites);
    b += "end Kanidm.Gen.Pam\n";
    write_generated(
        out,
        "PamOps",
        &format!("{rel_core} (sm_authenticate_connected, sm_authenticate_fallback, sm_authenticate, acct_mgmt, connect_to_daemon), {rel_const} (PamResultCode), {rel_proto} (PamAuthResponse, PamAuthRequest, ClientResponse), {rel_passwd} (CryptPw), {rel_module} + {rel_conv} (error sites)"),
        &b,
    )?;
    Ok(format!(
        "PamOps: {} codes, {} step arms, {} other arms, call-err {call_err}, none {}, prefixes {:?}, {} handler error sites",
        codes.len(),
        step_actions.len(),
        other_codes.len(),
        none_codes[0],
        prefixes,
        es.sites
    ))
}
