//! C39 translator item `oauth2-token-ops`: the comparisons, error kinds, constants, match-arm
//! tables and the order of the checks of the OAuth2 token endpoint (`check_oauth2_token_exchange`,
//! `…_authorization_code`, `check_oauth2_token_refresh`, `check_oauth2_token_client_credentials`,
//! `generate_access_token_response`), of introspection / userinfo / revocation
//! (`server/lib/src/idm/oauth2.rs`), of `check_oauth2_account_uuid_valid`
//! (`server/lib/src/idm/server.rs`) and the commit rule of the token endpoint's only caller
//! (`server/core/src/actors/v1_write.rs`) — regenerated as Lean definitions
//! (`Generated/OAuth2TokenOps.lean`).
//!
//! For each function the item reads, in source order, (a) every `Oauth2Error::X` path — the
//! error kind of each early return, addressed by position, the total count pinned — and (b) every
//! `if` condition — each either pinned by its exact token string or a comparison whose *operands*
//! are pinned and whose *operator* is emitted.  `let` initialisers that carry arithmetic are
//! pinned by token string.  Any other shape is an error.
use crate::util::*;
use quote::ToTokens;
use syn::visit::Visit;

pub fn run(item: &str, repo: &str, out: &str) -> Option<Result<String, String>> {
    match item {
        "oauth2-token-ops" => Some(oauth2_token_ops(repo, out)),
        _ => None,
    }
}

fn toks<T: ToTokens>(t: &T) -> String {
    t.to_token_stream().to_string()
}

/// `Oauth2Error :: X` paths of a block in source order (macros are opaque to syn: the tracing
/// macros never build errors).
fn errs(block: &syn::Block) -> Vec<String> {
    struct V(Vec<String>);
    impl<'ast> Visit<'ast> for V {
        fn visit_path(&mut self, p: &'ast syn::Path) {
            let segs: Vec<String> = p.segments.iter().map(|s| s.ident.to_string()).collect();
            if segs.len() >= 2 && segs[segs.len() - 2] == "Oauth2Error" {
                self.0.push(segs[segs.len() - 1].clone());
            }
            syn::visit::visit_path(self, p);
        }
    }
    let mut v = V(vec![]);
    v.visit_block(block);
    v.0
}

fn lean_err(v: &str) -> Result<String, String> {
    let known = [
        "AuthenticationRequired", "InvalidClientId", "InvalidOrigin", "InvalidRequest", "InvalidGrant", "UnauthorizedClient", "AccessDenied",
        "UnsupportedResponseType", "InvalidScope", "ServerError", "TemporarilyUnavailable", "InvalidToken", "InsufficientScope",
        "UnsupportedTokenType", "SlowDown", "AuthorizationPending", "ExpiredToken", "InvalidTarget", "LoginRequired", "InteractionRequired",
    ];
    if !known.contains(&v) {
        return Err(format!("unknown Oauth2Error variant {v}"));
    }
    let mut c = v.chars();
    let f = c.next().unwrap().to_ascii_lowercase();
    Ok(format!(".{f}{}", c.as_str()))
}

/// The error list of a function, its length pinned.
fn errs_of(file: &syn::File, spec: &str, expect: usize) -> Result<Vec<String>, String> {
    let f = find_fn(file, spec)?;
    let e = errs(&f.block);
    if e.len() != expect {
        return Err(format!("{spec}: expected {expect} `Oauth2Error::…` sites, found {} ({e:?}) — the early returns changed", e.len()));
    }
    e.iter().map(|x| lean_err(x)).collect()
}

fn conds_of(file: &syn::File, spec: &str) -> Result<Vec<syn::Expr>, String> {
    Ok(if_conditions(&find_fn(file, spec)?.block))
}

/// The `if` conditions of a function must be exactly `expect` (token strings); entries starting
/// with `cmp:` pin both operands (`cmp:<lhs>|<rhs>`) and leave the operator free — returned.
fn pin_conds(spec: &str, conds: &[syn::Expr], expect: &[&str]) -> Result<Vec<String>, String> {
    if conds.len() != expect.len() {
        return Err(format!(
            "{spec}: expected {} `if` conditions, found {}: {:?}",
            expect.len(),
            conds.len(),
            conds.iter().map(toks).collect::<Vec<_>>()
        ));
    }
    let mut ops = vec![];
    for (c, e) in conds.iter().zip(expect) {
        if let Some(rest) = e.strip_prefix("cmp:") {
            let (l, r) = rest.split_once('|').unwrap();
            ops.push(cmp_op(spec, c, l, r)?);
        } else if toks(c) != *e {
            return Err(format!("{spec}: `if {}` where `if {e}` was transcribed", toks(c)));
        }
    }
    Ok(ops)
}

/// A comparison with pinned operands; the Lean relation symbol for its operator.
fn cmp_op(spec: &str, e: &syn::Expr, lhs: &str, rhs: &str) -> Result<String, String> {
    let e = match e {
        syn::Expr::Paren(p) => &*p.expr,
        o => o,
    };
    let syn::Expr::Binary(b) = e else {
        return Err(format!("{spec}: `{}` is not a comparison", toks(e)));
    };
    if toks(&*b.left) != lhs || toks(&*b.right) != rhs {
        return Err(format!("{spec}: comparison `{}` where `{lhs} ? {rhs}` was transcribed", toks(e)));
    }
    Ok(match b.op {
        syn::BinOp::Lt(_) => "<",
        syn::BinOp::Le(_) => "≤",
        syn::BinOp::Gt(_) => ">",
        syn::BinOp::Ge(_) => "≥",
        syn::BinOp::Eq(_) => "=",
        syn::BinOp::Ne(_) => "≠",
        _ => return Err(format!("{spec}: `{}` is not a comparison", toks(e))),
    }
    .to_string())
}

/// Every `let <name> = <init>` (also `let mut`, typed) in a block, in source order.
fn lets_named(block: &syn::Block, name: &str) -> Vec<syn::Expr> {
    struct V<'a>(&'a str, Vec<syn::Expr>);
    impl<'a, 'ast> Visit<'ast> for V<'a> {
        fn visit_local(&mut self, l: &'ast syn::Local) {
            let mut pat = &l.pat;
            if let syn::Pat::Type(t) = pat {
                pat = &t.pat;
            }
            if let syn::Pat::Ident(i) = pat {
                if i.ident == self.0 {
                    if let Some(init) = &l.init {
                        self.1.push((*init.expr).clone());
                    }
                }
            }
            syn::visit::visit_local(self, l);
        }
    }
    let mut v = V(name, vec![]);
    v.visit_block(block);
    v.1
}

fn pin_let(spec: &str, block: &syn::Block, name: &str, expect: &str) -> Result<(), String> {
    let v = lets_named(block, name);
    if v.len() != 1 {
        return Err(format!("{spec}: expected exactly one `let {name} = …`, found {}", v.len()));
    }
    if toks(&v[0]) != expect {
        return Err(format!("{spec}: `let {name} = {}` where `{expect}` was transcribed", toks(&v[0])));
    }
    Ok(())
}

fn let_init(spec: &str, block: &syn::Block, name: &str) -> Result<syn::Expr, String> {
    let v = lets_named(block, name);
    if v.len() != 1 {
        return Err(format!("{spec}: expected exactly one `let {name} = …`, found {}", v.len()));
    }
    Ok(v[0].clone())
}

/// All `match` expressions of an expression / block in source order.
fn matches_in<T: ToTokens>(t: &T) -> Vec<syn::ExprMatch> {
    struct V(Vec<syn::ExprMatch>);
    impl<'ast> Visit<'ast> for V {
        fn visit_expr_match(&mut self, m: &'ast syn::ExprMatch) {
            self.0.push(m.clone());
            syn::visit::visit_expr_match(self, m);
        }
    }
    let mut v = V(vec![]);
    let ts = t.to_token_stream();
    if let Ok(e) = syn::parse2::<syn::Expr>(ts.clone()) {
        v.visit_expr(&e);
    } else if let Ok(b) = syn::parse2::<syn::Block>(ts) {
        v.visit_block(&b);
    }
    v.0
}

/// The three `SessionState` arms of a match: (RevokedAt body, ExpiresAt body, NeverExpires body).
fn session_state_arms(spec: &str, m: &syn::ExprMatch) -> Result<(syn::Expr, syn::Expr, syn::Expr), String> {
    let pats: Vec<String> = m.arms.iter().map(|a| toks(&a.pat)).collect();
    if pats != ["SessionState :: RevokedAt (_)", "SessionState :: ExpiresAt (exp)", "SessionState :: NeverExpires"] {
        return Err(format!("{spec}: SessionState match arms {pats:?} (transcribed: RevokedAt(_), ExpiresAt(exp), NeverExpires)"));
    }
    if m.arms.iter().any(|a| a.guard.is_some()) {
        return Err(format!("{spec}: guarded SessionState arm"));
    }
    Ok(((*m.arms[0].body).clone(), (*m.arms[1].body).clone(), (*m.arms[2].body).clone()))
}

fn bool_lit(spec: &str, e: &syn::Expr) -> Result<&'static str, String> {
    match toks(e).as_str() {
        "true" => Ok("true"),
        "false" => Ok("false"),
        o => Err(format!("{spec}: expected a boolean literal, found `{o}`")),
    }
}

/// Top-level statements of a block, classified: `let <ident>` ↦ `let:<ident>`, `let <pat> … else`
/// ↦ `letelse:<pat>`, `if <cond>` ↦ `if:<cond>`, `match <scrutinee>` ↦ `match:<scrutinee>`,
/// anything else ↦ `other`.
fn stmt_kinds(block: &syn::Block) -> Vec<String> {
    block
        .stmts
        .iter()
        .map(|s| match s {
            syn::Stmt::Local(l) => {
                let mut pat = &l.pat;
                if let syn::Pat::Type(t) = pat {
                    pat = &t.pat;
                }
                if l.init.as_ref().map(|i| i.diverge.is_some()).unwrap_or(false) {
                    format!("letelse:{}", toks(pat))
                } else {
                    match pat {
                        syn::Pat::Ident(i) => format!("let:{}", i.ident),
                        o => format!("let:{}", toks(o)),
                    }
                }
            }
            syn::Stmt::Expr(syn::Expr::If(i), _) => format!("if:{}", toks(&*i.cond)),
            syn::Stmt::Expr(syn::Expr::Match(m), _) => format!("match:{}", toks(&*m.expr)),
            _ => "other".to_string(),
        })
        .collect()
}

/// Map classified statements to named checks (`table`: statement kind ↦ check name, `""` = not a
/// check); an `if` / `let … else` / `match` that is not in the table is an error.
fn check_order(spec: &str, kinds: &[String], table: &[(&str, &str)]) -> Result<Vec<String>, String> {
    let mut out = vec![];
    for k in kinds {
        match table.iter().find(|(s, _)| s == k) {
            Some((_, "")) => {}
            Some((_, name)) => out.push(format!(".{name}")),
            None => {
                if k.starts_with("if:") || k.starts_with("letelse:") || k.starts_with("match:") {
                    return Err(format!("{spec}: statement `{k}` is not one of the transcribed checks"));
                }
            }
        }
    }
    Ok(out)
}

fn oauth2_token_ops(repo: &str, out: &str) -> Result<String, String> {
    let o = parse_file(repo, "server/lib/src/idm/oauth2.rs")?;
    let srv = parse_file(repo, "server/lib/src/idm/server.rs")?;
    let consts = parse_file(repo, "server/lib/src/constants/mod.rs")?;
    let pconsts = parse_file(repo, "proto/src/constants.rs")?;
    let w1 = parse_file(repo, "server/core/src/actors/v1_write.rs")?;
    let mut g = String::new();
    let mut d = |doc: &str, def: &str| {
        if !doc.is_empty() {
            g.push_str(&format!("/-- {doc} -/\n"));
        }
        g.push_str(def);
        g.push('\n');
    };
    let sec = |s: &mut String, t: &str| s.push_str(&format!("/-! {t} -/\n"));
    let _ = sec;

    // ---- constants
    let c = |file: &syn::File, name: &str| -> Result<(i128, String), String> {
        let e = find_const(file, name).ok_or(format!("const {name} not found"))?;
        Ok((eval_int(&e, &|_| None)?, toks(&e)))
    };
    let (acc, acc_src) = c(&consts, "OAUTH2_ACCESS_TOKEN_EXPIRY")?;
    let (refd, ref_src) = c(&consts, "OAUTH_REFRESH_TOKEN_EXPIRY")?;
    let (grace, grace_src) = c(&pconsts, "AUTH_TOKEN_GRACE_WINDOW")?;
    d(&format!("`OAUTH2_ACCESS_TOKEN_EXPIRY = {acc_src}` (seconds)"), &format!("def accessTokenExpiry : Nat := {acc}"));
    let reload = find_fn(&o, "Oauth2ResourceServersWriteTransaction::reload")?;
    let rte = let_init("reload", &reload.block, "refresh_token_expiry")?;
    if toks(&rte) != "ent . get_ava_single_uint32 (Attribute :: OAuth2RefreshTokenExpiry) . unwrap_or (OAUTH_REFRESH_TOKEN_EXPIRY)" {
        return Err(format!("reload: `let refresh_token_expiry = {}`", toks(&rte)));
    }
    d(
        &format!("`OAUTH_REFRESH_TOKEN_EXPIRY = {ref_src}` (seconds; reload: `.unwrap_or(OAUTH_REFRESH_TOKEN_EXPIRY)`)"),
        &format!("def refreshTokenExpiryDefault : Nat := {refd}"),
    );

    // ---- client authentication
    g.push_str("/-! `get_client_auth` / `check_oauth2_token_exchange`: client authentication -/\n");
    let mut d = |doc: &str, def: &str| {
        if !doc.is_empty() {
            g.push_str(&format!("/-- {doc} -/\n"));
        }
        g.push_str(def);
        g.push('\n');
    };
    let e = errs_of(&o, "get_client_auth", 1)?;
    d("`get_client_auth`: neither a basic header nor a posted client_id", &format!("def authMissingErr : OErr := {}", e[0]));
    let spec = "IdmServerProxyWriteTransaction::check_oauth2_token_exchange";
    let e = errs_of(&o, spec, 6)?;
    let conds = conds_of(&o, spec)?;
    pin_conds(
        spec,
        &conds,
        &["client_auth . client_secret . is_some ()", "authz_secret . ct_eq (& secret)", "client_authentication_valid", "actor_token . is_some () || actor_token_type . is_some ()"],
    )?;
    let f = find_fn(&o, spec)?;
    let ms = matches_in(&f.block);
    let auth_match = ms
        .iter()
        .find(|m| toks(&*m.expr) == "(& o2rs . type_ , is_token_exchange)")
        .ok_or(format!("{spec}: no `match (&o2rs.type_, is_token_exchange)`"))?;
    let pats: Vec<String> = auth_match.arms.iter().map(|a| toks(&a.pat)).collect();
    if pats != ["(OauthRSType :: Basic { .. } , true)", "(OauthRSType :: Basic { authz_secret , .. } , false)", "(OauthRSType :: Public { .. } , _)"] {
        return Err(format!("{spec}: client authentication arms {pats:?}"));
    }
    let public_valid = bool_lit(spec, &auth_match.arms[2].body)?;
    let secret_match = matches_in(&auth_match.arms[1].body);
    let sm = secret_match.first().ok_or(format!("{spec}: no `match client_auth.client_secret`"))?;
    if toks(&*sm.expr) != "client_auth . client_secret" || sm.arms.iter().map(|a| toks(&a.pat)).collect::<Vec<_>>() != ["Some (secret)", "None"] {
        return Err(format!("{spec}: secret match `{}`", toks(sm)));
    }
    d("`rs_set_get(&client_auth.client_id).ok_or_else(..)`", &format!("def authUnknownClientErr : OErr := {}", e[0]));
    d(
        "arm `(OauthRSType :: Basic { authz_secret , .. } , false)`, `Some(secret)`: `if authz_secret . ct_eq (& secret)` else",
        "def authSecretOk (ctEq : Bool) : Bool := ctEq",
    );
    d("", &format!("def authSecretWrongErr : OErr := {}", e[2]));
    d("same arm, `None`", &format!("def authSecretMissingErr : OErr := {}", e[3]));
    d("arm `(OauthRSType :: Public { .. } , _)`: value of `client_authentication_valid`", &format!("def authPublicValid : Bool := {public_valid}"));
    d("`GrantTypeReq :: ClientCredentials`: `if client_authentication_valid` … else", "def ccAuthOk (valid : Bool) : Bool := valid");
    d("", &format!("def ccUnauthenticatedErr : OErr := {}", e[4]));
    // the grant dispatch: which callee per grant
    let gm = ms.iter().find(|m| toks(&*m.expr) == "& token_req . grant_type").ok_or(format!("{spec}: no `match &token_req.grant_type`"))?;
    let callee = |prefix: &str, callee: &str| -> Result<(), String> {
        let arm = gm.arms.iter().find(|a| toks(&a.pat).starts_with(prefix)).ok_or(format!("{spec}: no arm {prefix}"))?;
        if !toks(&arm.body).contains(callee) {
            return Err(format!("{spec}: arm {prefix} no longer calls {callee}"));
        }
        Ok(())
    };
    callee("GrantTypeReq :: AuthorizationCode", "self . check_oauth2_token_exchange_authorization_code (& o2rs , code , redirect_uri , code_verifier . as_deref () , ct ,)")?;
    callee("GrantTypeReq :: ClientCredentials", "self . check_oauth2_token_client_credentials (& o2rs , scope . as_ref () , ct)")?;
    callee("GrantTypeReq :: RefreshToken", "self . check_oauth2_token_refresh (& o2rs , refresh_token , scope . as_ref () , ct)")?;

    // ---- the caller's commit rule
    let spec = "QueryServerWriteV1::handle_oauth2_token_exchange";
    let f = find_fn(&w1, spec)?;
    let ms = matches_in(&f.block);
    let m = ms.iter().find(|m| toks(&*m.expr) == "& resp").ok_or(format!("{spec}: no `match &resp`"))?;
    if m.arms.len() != 2 || toks(&m.arms[1].pat) != "_" || toks(&m.arms[1].body) != "{ }" || !toks(&m.arms[0].body).contains("idms_prox_write . commit ()") {
        return Err(format!("{spec}: commit rule `{}`", toks(m)));
    }
    let mut on_ok = "false";
    let mut on_err = vec![];
    let pat = toks(&m.arms[0].pat);
    for alt in pat.split('|').map(|s| s.trim()) {
        if alt == "Ok (_)" {
            on_ok = "true";
        } else if let Some(v) = alt.strip_prefix("Err (Oauth2Error :: ").and_then(|s| s.strip_suffix(")")) {
            on_err.push(format!("e == {}", lean_err(v.trim())?));
        } else {
            return Err(format!("{spec}: commit pattern alternative `{alt}`"));
        }
    }
    d(&format!("`handle_oauth2_token_exchange` (v1_write.rs): commit on `{pat}`"), &format!("def commitOnOk : Bool := {on_ok}"));
    d("", &format!("def commitOnErr (e : OErr) : Bool := ({})", if on_err.is_empty() { "false".to_string() } else { on_err.join(" || ") }));

    // ---- authorization_code
    g.push_str("/-! `check_oauth2_token_exchange_authorization_code` -/\n");
    let mut d = |doc: &str, def: &str| {
        if !doc.is_empty() {
            g.push_str(&format!("/-- {doc} -/\n"));
        }
        g.push_str(def);
        g.push('\n');
    };
    let spec = "IdmServerProxyWriteTransaction::check_oauth2_token_exchange_authorization_code";
    let f = find_fn(&o, spec)?;
    let e = errs_of(&o, spec, 12)?;
    let conds = conds_of(&o, spec)?;
    let ops = pin_conds(
        spec,
        &conds,
        &[
            "cmp:code_xchg . expiry|ct . as_secs ()",
            "let Some (code_challenge) = code_xchg . code_challenge",
            "! verifier_secret . verify (code_challenge)",
            "o2rs . require_pkce ()",
            "token_req_code_verifier . is_some ()",
            "cmp:token_req_redirect_uri|& code_xchg . redirect_uri",
            "! within_valid_window",
            "parent_session_revoked",
        ],
    )?;
    let order = check_order(
        spec,
        &stmt_kinds(&f.block),
        &[
            ("let:jwe_compact", "parse"),
            ("let:code_xchg", "decrypt"),
            (&format!("if:{}", toks(&conds[0])), "expiry"),
            ("if:let Some (code_challenge) = code_xchg . code_challenge", "pkce"),
            (&format!("if:{}", toks(&conds[5])), "redirect"),
            ("let:account_entry", "account"),
            ("let:within_valid_window", ""),
            ("if:! within_valid_window", "window"),
            ("let:parent_session_revoked", ""),
            ("if:parent_session_revoked", "parentSession"),
        ],
    )?;
    d("the checks in source order", &format!("def codeCheckOrder : List CodeCheck := [{}]", order.join(", ")));
    d("", &format!("def codeParseErr : OErr := {}", e[0]));
    d("", &format!("def codeDecryptErr : OErr := {}", e[1]));
    d("", &format!("def codeDeserialiseErr : OErr := {}", e[2]));
    d(&format!("`if {}`", toks(&conds[0])), &format!("def codeExpired (expiry ctSecs : Nat) : Bool := decide (expiry {} ctSecs)", ops[0]));
    d("", &format!("def codeExpiredErr : OErr := {}", e[3]));
    d("`if let Some(code_challenge) = code_xchg.code_challenge`: `token_req_code_verifier.ok_or_else(..)?`", &format!("def pkceVerifierMissingErr : OErr := {}", e[4]));
    d("`if ! verifier_secret . verify (code_challenge)`", "def pkceVerifyFails (verifies : Bool) : Bool := (!verifies)");
    d("", &format!("def pkceVerifyErr : OErr := {}", e[5]));
    let vf = find_fn(&o, "PkceS256Secret::verify")?;
    let tail = match vf.block.stmts.last() {
        Some(syn::Stmt::Expr(e, None)) => e.clone(),
        _ => return Err("PkceS256Secret::verify: no tail expression".into()),
    };
    let op = cmp_op("PkceS256Secret::verify", &tail, "challenge . as_ref ()", "code_challenge . as_slice ()")?;
    pin_let("PkceS256Secret::verify", &vf.block, "code_challenge", "self . to_challenge ()")?;
    d(&format!("`PkceS256Secret::verify`: `{}`", toks(&tail)), &format!("def pkceVerify (challenge hashed : Nat) : Bool := decide (challenge {op} hashed)"));
    d("`else if o2rs . require_pkce ()`", "def pkceRequiredButAbsent (requirePkce : Bool) : Bool := requirePkce");
    d("", &format!("def pkceRequiredErr : OErr := {}", e[6]));
    d("`else if token_req_code_verifier . is_some ()`", "def pkceStrayVerifier (verifierIsSome : Bool) : Bool := verifierIsSome");
    d("", &format!("def pkceStrayErr : OErr := {}", e[7]));
    d(&format!("`if {}`", toks(&conds[5])), &format!("def redirectDiffers (req code : Nat) : Bool := decide (req {} code)", ops[1]));
    d("", &format!("def redirectErr : OErr := {}", e[8]));
    d("`internal_search_uuid(code_xchg.account_uuid).map_err(..)?`", &format!("def codeAccountErr : OErr := {}", e[9]));
    d("`if ! within_valid_window`", "def codeOutsideWindow (within : Bool) : Bool := (!within)");
    d("", &format!("def codeWindowErr : OErr := {}", e[10]));
    let psr = let_init(spec, &f.block, "parent_session_revoked")?;
    let psr_t = toks(&psr);
    if !psr_t.starts_with("account_entry . get_ava_as_session_map (Attribute :: UserAuthTokenSession) . and_then (| sessions | sessions . get (& code_xchg . session_id)) . map (| session | match & session . state {") {
        return Err(format!("{spec}: `let parent_session_revoked = {psr_t}`"));
    }
    let default = psr_t.rsplit(". unwrap_or (").next().and_then(|s| s.strip_suffix(")")).ok_or(format!("{spec}: parent_session_revoked has no unwrap_or"))?.trim().to_string();
    if default != "true" && default != "false" {
        return Err(format!("{spec}: unwrap_or ({default})"));
    }
    let pm = matches_in(&psr);
    let pm = pm.iter().find(|m| toks(&*m.expr) == "& session . state").ok_or(format!("{spec}: no `match &session.state`"))?;
    let (a_rev, a_exp, a_nev) = session_state_arms(spec, pm)?;
    let op = cmp_op(spec, &a_exp, "* exp", "OffsetDateTime :: UNIX_EPOCH + ct")?;
    d(
        "`parent_session_revoked`: `.map(|session| match &session.state { .. }).unwrap_or(..)`, arm `SessionState :: RevokedAt (_)`",
        &format!("def codeParentDeadRevoked : Bool := {}", bool_lit(spec, &a_rev)?),
    );
    d(&format!("arm `SessionState :: ExpiresAt (exp)`: `{}`", toks(&a_exp)), &format!("def codeParentDeadExpires (exp ct : Nat) : Bool := decide (exp {op} ct)"));
    d("arm `SessionState :: NeverExpires`", &format!("def codeParentDeadNever : Bool := {}", bool_lit(spec, &a_nev)?));
    d(&format!("`.unwrap_or({default})`: no such login session on the account"), &format!("def codeParentAbsent : Bool := {default}"));
    d("", &format!("def codeParentErr : OErr := {}", e[11]));

    // ---- refresh
    g.push_str("/-! `check_oauth2_token_refresh` -/\n");
    let mut d = |doc: &str, def: &str| {
        if !doc.is_empty() {
            g.push_str(&format!("/-- {doc} -/\n"));
        }
        g.push_str(def);
        g.push('\n');
    };
    let spec = "IdmServerProxyWriteTransaction::check_oauth2_token_refresh";
    let f = find_fn(&o, spec)?;
    let e = errs_of(&o, spec, 10)?;
    let conds = conds_of(&o, spec)?;
    let ops = pin_conds(
        spec,
        &conds,
        &["cmp:exp|ct . as_secs () as i64", "cmp:iat|oauth2_session . issued_at . unix_timestamp ()", "let Some (req_scopes) = req_scopes", "req_scopes . is_subset (& scopes)"],
    )?;
    let top = check_order(spec, &stmt_kinds(&f.block), &[("let:jwe_compact", "parse"), ("let:token", "decrypt"), ("match:token", "kind")])?;
    let tm = matches_in(&f.block);
    let tm = tm.iter().find(|m| toks(&*m.expr) == "token").ok_or(format!("{spec}: no `match token`"))?;
    let pats: Vec<String> = tm.arms.iter().map(|a| toks(&a.pat).split(' ').take(3).collect::<Vec<_>>().join(" ")).collect();
    if pats != ["Oauth2TokenType :: ClientAccess", "Oauth2TokenType :: Refresh"] {
        return Err(format!("{spec}: token arms {pats:?}"));
    }
    let syn::Expr::Block(rb) = &*tm.arms[1].body else {
        return Err(format!("{spec}: Refresh arm is not a block"));
    };
    let inner = check_order(
        spec,
        &stmt_kinds(&rb.block),
        &[
            (&format!("if:{}", toks(&conds[0])), "expiry"),
            ("let:valid", ""),
            ("letelse:Ok (Some (entry))", "valid"),
            ("let:oauth2_session", "sessionPresent"),
            (&format!("if:{}", toks(&conds[1])), "reuse"),
            ("let:update_scopes", "scopes"),
        ],
    )?;
    pin_let(spec, &rb.block, "valid", "self . check_oauth2_account_uuid_valid (uuid , session_id , parent_session_id , iat , ct) . map_err (| _ | admin_error ! (\"Account is not valid\"))")?;
    let reuse_if = rb.block.stmts.iter().find_map(|s| match s {
        syn::Stmt::Expr(syn::Expr::If(i), _) if toks(&*i.cond) == toks(&conds[1]) => Some(i.clone()),
        _ => None,
    });
    let reuse_body = toks(&reuse_if.ok_or(format!("{spec}: reuse branch"))?.then_branch);
    if !reuse_body.contains("Modify :: Removed (Attribute :: OAuth2Session , PartialValue :: Refer (session_id) ,)") || !reuse_body.contains("return Err (Oauth2Error :: InvalidGrant)") && !reuse_body.contains("return Err (Oauth2Error ::") {
        return Err(format!("{spec}: the reuse branch no longer removes the session: {reuse_body}"));
    }
    let us = let_init(spec, &rb.block, "update_scopes")?;
    let us_t = toks(&us);
    if !(us_t.contains("req_scopes . clone ()") && us_t.trim_end().ends_with("else { debug ! (\"No OAuth2 scopes requested, this is valid.\") ; scopes }")) {
        return Err(format!("{spec}: `let update_scopes = {us_t}`"));
    }
    let mut all = top.clone();
    all.splice(2..2, Vec::<String>::new());
    let order: Vec<String> = top.into_iter().chain(inner).collect();
    d("", &format!("def refreshCheckOrder : List RefreshCheck := [{}]", order.join(", ")));
    d("", &format!("def refreshParseErr : OErr := {}", e[0]));
    d("", &format!("def refreshDecryptErr : OErr := {}", e[1]));
    d("", &format!("def refreshDeserialiseErr : OErr := {}", e[2]));
    d("arm `Oauth2TokenType :: ClientAccess { .. }`", &format!("def refreshWrongKindErr : OErr := {}", e[3]));
    d(&format!("`if {}`", toks(&conds[0])), &format!("def refreshExpired (exp ctSecs : Nat) : Bool := decide (exp {} ctSecs)", ops[0]));
    d("", &format!("def refreshExpiredErr : OErr := {}", e[4]));
    d("`let Ok(Some(entry)) = valid else`", &format!("def refreshInvalidErr : OErr := {}", e[5]));
    d("`.and_then(|map| map.get(&session_id)).ok_or_else(..)?`", &format!("def refreshNoSessionErr : OErr := {}", e[6]));
    d(&format!("`if {}`", toks(&conds[1])), &format!("def refreshReuse (iat issuedSecs : Nat) : Bool := decide (iat {} issuedSecs)", ops[1]));
    if e[7] != ".serverError" {
        return Err(format!("{spec}: error site 7 is {} (transcribed: the revoke's ServerError)", e[7]));
    }
    d("", &format!("def refreshReuseErr : OErr := {}", e[8]));
    d("`if req_scopes . is_subset (& scopes)`", "def refreshScopesOk (isSubset : Bool) : Bool := isSubset");
    d("", &format!("def refreshScopeErr : OErr := {}", e[9]));
    let _ = all;

    // ---- generate_access_token_response
    g.push_str("/-! `generate_access_token_response` -/\n");
    let mut d = |doc: &str, def: &str| {
        if !doc.is_empty() {
            g.push_str(&format!("/-- {doc} -/\n"));
        }
        g.push_str(def);
        g.push('\n');
    };
    let spec = "IdmServerProxyWriteTransaction::generate_access_token_response";
    let f = find_fn(&o, spec)?;
    pin_let(spec, &f.block, "odt_ct", "OffsetDateTime :: UNIX_EPOCH + ct")?;
    pin_let(spec, &f.block, "iat", "ct . as_secs () as i64")?;
    pin_let(spec, &f.block, "expiry", "odt_ct + Duration :: from_secs (OAUTH2_ACCESS_TOKEN_EXPIRY as u64)")?;
    pin_let(spec, &f.block, "exp", "expiry . unix_timestamp ()")?;
    pin_let(spec, &f.block, "refresh_expiry", "iat + o2rs . refresh_token_expiry as i64")?;
    pin_let(spec, &f.block, "odt_refresh_expiry", "odt_ct + Duration :: from_secs (o2rs . refresh_token_expiry as u64)")?;
    let body = toks(&f.block);
    for needle in [
        "Oauth2TokenType :: Refresh { scopes , parent_session_id , session_id , exp : refresh_expiry , uuid : session_ctx . account_uuid , iat , nbf : iat , nonce : session_ctx . nonce , auth_time , }",
        "Oauth2Session { parent : parent_session_id , state : SessionState :: ExpiresAt (odt_refresh_expiry) , issued_at : odt_ct , rs_uuid : o2rs . uuid , }",
        "Modify :: Present (Attribute :: OAuth2Session , session)",
        "if scopes . contains (OAUTH2_SCOPE_OPENID)",
        "scope : scopes . clone () , nonce : session_ctx . nonce . clone () , session_id , parent_session_id ,",
        "sub : session_ctx . account_uuid , aud , exp , nbf : iat , iat ,",
    ] {
        if !body.contains(needle) {
            return Err(format!("{spec}: no longer contains `{needle}`"));
        }
    }
    let e = errs(&f.block);
    if e.first().map(|s| s.as_str()) != Some("ServerError") {
        return Err(format!("{spec}: first error site {:?}", e.first()));
    }
    d(
        "`expiry = odt_ct + Duration::from_secs(OAUTH2_ACCESS_TOKEN_EXPIRY as u64)`; `exp = expiry.unix_timestamp()` (ct in ns)",
        "def accessExp (ctNs : Nat) : Nat := (ctNs + accessTokenExpiry * 1000000000) / 1000000000",
    );
    d("`refresh_expiry = iat + o2rs . refresh_token_expiry as i64`", "def refreshExp (iat refreshExpiry : Nat) : Nat := (iat + refreshExpiry)");
    d(
        "`odt_refresh_expiry = odt_ct + Duration::from_secs(o2rs.refresh_token_expiry as u64)` (ns)",
        "def sessionExpiry (ctNs refreshExpiry : Nat) : Nat := ctNs + refreshExpiry * 1000000000",
    );
    d("`internal_search_uuid(session_ctx.account_uuid)` fails", &format!("def generateAccountErr : OErr := {}", lean_err(&e[0])?));

    // ---- client credentials
    g.push_str("/-! `check_oauth2_token_client_credentials` -/\n");
    let mut d = |doc: &str, def: &str| {
        if !doc.is_empty() {
            g.push_str(&format!("/-- {doc} -/\n"));
        }
        g.push_str(def);
        g.push('\n');
    };
    let spec = "IdmServerProxyWriteTransaction::check_oauth2_token_client_credentials";
    let f = find_fn(&o, spec)?;
    let conds = conds_of(&o, spec)?;
    let ops = pin_conds(spec, &conds, &["cmp:avail_scopes . len ()|req_scopes . len ()"])?;
    let e = errs(&f.block);
    if e.first().map(|s| s.as_str()).is_none() {
        return Err(format!("{spec}: no error sites"));
    }
    pin_let(spec, &f.block, "avail_scopes", "req_scopes . intersection (& o2rs . client_scopes) . map (| s | s . to_string ()) . collect ()")?;
    pin_let(spec, &f.block, "granted_scopes", "avail_scopes . into_iter () . chain (o2rs . client_sup_scopes . iter () . cloned ()) . collect :: < BTreeSet < _ > > ()")?;
    pin_let(spec, &f.block, "iat", "ct . as_secs () as i64")?;
    pin_let(spec, &f.block, "exp", "iat + OAUTH2_ACCESS_TOKEN_EXPIRY as i64")?;
    pin_let(spec, &f.block, "odt_exp", "odt_ct + Duration :: from_secs (OAUTH2_ACCESS_TOKEN_EXPIRY as u64)")?;
    pin_let(spec, &f.block, "uuid", "o2rs . uuid")?;
    if !toks(&f.block).contains("Oauth2Session { parent : None , state : SessionState :: ExpiresAt (odt_exp) , issued_at : odt_ct , rs_uuid : o2rs . uuid , }") {
        return Err(format!("{spec}: session literal changed"));
    }
    d(&format!("`if {}`", toks(&conds[0])), &format!("def ccScopesDenied (availLen reqLen : Nat) : Bool := decide (availLen {} reqLen)", ops[0]));
    d("", &format!("def ccScopesErr : OErr := {}", lean_err(&e[0])?));
    d("`exp = iat + OAUTH2_ACCESS_TOKEN_EXPIRY as i64`", "def ccExp (iat : Nat) : Nat := (iat + accessTokenExpiry)");
    d("`odt_exp = odt_ct + Duration::from_secs(OAUTH2_ACCESS_TOKEN_EXPIRY as u64)` (ns)", "def ccSessionExpiry (ctNs : Nat) : Nat := ctNs + accessTokenExpiry * 1000000000");

    // ---- introspection
    g.push_str("/-! `check_oauth2_token_introspect`, `oauth2_token_introspect_jwt`, `oauth2_token_introspect_jwe` -/\n");
    let mut d = |doc: &str, def: &str| {
        if !doc.is_empty() {
            g.push_str(&format!("/-- {doc} -/\n"));
        }
        g.push_str(def);
        g.push('\n');
    };
    let e0 = errs_of(&o, "IdmServerProxyReadTransaction::check_oauth2_token_introspect", 1)?;
    let spec = "IdmServerProxyReadTransaction::oauth2_token_introspect_jwt";
    let ej = errs_of(&o, spec, 5)?;
    let cj = conds_of(&o, spec)?;
    let oj = pin_conds(spec, &cj, &["cmp:exp|ct . as_secs () as i64", "prefer_short_username"])?;
    let fj = find_fn(&o, spec)?;
    pin_let(spec, &fj.block, "valid", "self . check_oauth2_account_uuid_valid (sub , session_id , parent_session_id , iat , ct) . map_err (| _ | admin_error ! (\"Account is not valid\"))")?;
    let spec = "IdmServerProxyReadTransaction::oauth2_token_introspect_jwe";
    let ee = errs_of(&o, spec, 4)?;
    let ce = conds_of(&o, spec)?;
    let oe = pin_conds(spec, &ce, &["cmp:exp|ct . as_secs () as i64", "prefer_short_username"])?;
    let fe = find_fn(&o, spec)?;
    pin_let(spec, &fe.block, "valid", "self . check_oauth2_account_uuid_valid (uuid , session_id , None , iat , ct) . map_err (| _ | admin_error ! (\"Account is not valid\"))")?;
    if ej[..4] != ee[..4] {
        return Err(format!("introspection: the jwt and jwe paths now fail differently ({ej:?} vs {ee:?}); the model has one `garbage` token"));
    }
    d("", &format!("def introspectNotATokenErr : OErr := {}", e0[0]));
    d("", &format!("def introspectNoKidErr : OErr := {}", ej[0]));
    d("", &format!("def introspectUnknownKidErr : OErr := {}", ej[1]));
    d("", &format!("def introspectVerifyErr : OErr := {}", ej[2]));
    d("", &format!("def introspectDeserialiseErr : OErr := {}", ej[3]));
    d(&format!("jwt: `if {}` ⇒ inactive", toks(&cj[0])), &format!("def introspectJwtExpired (exp ctSecs : Nat) : Bool := decide (exp {} ctSecs)", oj[0]));
    d(&format!("jwe `ClientAccess`: `if {}` ⇒ inactive", toks(&ce[0])), &format!("def introspectJweExpired (exp ctSecs : Nat) : Bool := decide (exp {} ctSecs)", oe[0]));

    // ---- userinfo
    g.push_str("/-! `oauth2_openid_userinfo` -/\n");
    let mut d = |doc: &str, def: &str| {
        if !doc.is_empty() {
            g.push_str(&format!("/-- {doc} -/\n"));
        }
        g.push_str(def);
        g.push('\n');
    };
    let spec = "IdmServerProxyReadTransaction::oauth2_openid_userinfo";
    let e = errs_of(&o, spec, 6)?;
    let cs = conds_of(&o, spec)?;
    let ops = pin_conds(spec, &cs, &["cmp:exp|ct . as_secs () as i64"])?;
    let fu = find_fn(&o, spec)?;
    pin_let(spec, &fu.block, "valid", "self . check_oauth2_account_uuid_valid (sub , session_id , parent_session_id , iat , ct) . map_err (| _ | admin_error ! (\"Account is not valid\"))")?;
    if !toks(&fu.block).contains("self . oauth2rs . inner . rs_set_get (client_id)") || !toks(&fu.block).contains("o2rs . key_object . jws_verify (token)") {
        return Err(format!("{spec}: the client lookup / verification changed"));
    }
    d("", &format!("def userinfoUnknownClientErr : OErr := {}", e[0]));
    d("", &format!("def userinfoVerifyErr : OErr := {}", e[1]));
    d("", &format!("def userinfoDeserialiseErr : OErr := {}", e[2]));
    d(&format!("`if {}`", toks(&cs[0])), &format!("def userinfoExpired (exp ctSecs : Nat) : Bool := decide (exp {} ctSecs)", ops[0]));
    d("", &format!("def userinfoExpiredErr : OErr := {}", e[3]));
    d("", &format!("def userinfoInvalidErr : OErr := {}", e[4]));

    // ---- revoke
    g.push_str("/-! `oauth2_token_revoke` -/\n");
    let mut d = |doc: &str, def: &str| {
        if !doc.is_empty() {
            g.push_str(&format!("/-- {doc} -/\n"));
        }
        g.push_str(def);
        g.push('\n');
    };
    let spec = "IdmServerProxyWriteTransaction::oauth2_token_revoke";
    let e = errs_of(&o, spec, 10)?;
    let cs = conds_of(&o, spec)?;
    let ops = pin_conds(
        spec,
        &cs,
        &["let Ok (jwsc) = JwsCompact :: from_str (& revoke_req . token)", "let Ok (jwec) = JweCompact :: from_str (& revoke_req . token)", "cmp:expiry|ct . as_secs () as i64"],
    )?;
    if e[..4] != e[4..8] {
        return Err(format!("{spec}: the signed and the encrypted path now fail differently: {e:?}"));
    }
    let fr = find_fn(&o, spec)?;
    if !toks(&fr.block).contains("Modify :: Removed (Attribute :: OAuth2Session , PartialValue :: Refer (session_id) ,)") {
        return Err(format!("{spec}: no longer removes the session"));
    }
    d("", &format!("def revokeNotATokenErr : OErr := {}", e[8]));
    d("", &format!("def revokeNoKidErr : OErr := {}", e[0]));
    d("", &format!("def revokeUnknownKidErr : OErr := {}", e[1]));
    d("", &format!("def revokeVerifyErr : OErr := {}", e[2]));
    d("", &format!("def revokeDeserialiseErr : OErr := {}", e[3]));
    d(&format!("`if {}` ⇒ `Ok(())` without a write", toks(&cs[2])), &format!("def revokeExpired (expiry ctSecs : Nat) : Bool := decide (expiry {} ctSecs)", ops[0]));

    // ---- check_oauth2_account_uuid_valid
    g.push_str("/-! `IdmServerTransaction::check_oauth2_account_uuid_valid` (idm/server.rs) -/\n");
    let mut d = |doc: &str, def: &str| {
        if !doc.is_empty() {
            g.push_str(&format!("/-- {doc} -/\n"));
        }
        g.push_str(def);
        g.push('\n');
    };
    let spec = "IdmServerTransaction::check_oauth2_account_uuid_valid";
    let f = find_fn(&srv, spec)?;
    let cs = if_conditions(&f.block);
    pin_conds(
        spec,
        &cs,
        &[
            "! within_valid_window",
            "let Some (oauth2_session) = oauth2_session",
            "! oauth2_session_valid",
            "let Some (parent_session_id) = parent_session_id",
            "let Some (uat_session) = uat_session",
            "parent_session_valid",
            "api_session . is_some ()",
            "grace_valid",
            "grace_valid",
        ],
    )?;
    let gv = let_init(spec, &f.block, "grace_valid")?;
    let op = cmp_op(spec, &gv, "ct", "(Duration :: from_secs (iat as u64) + AUTH_TOKEN_GRACE_WINDOW)")?;
    pin_let(spec, &f.block, "ct_odt", "time :: OffsetDateTime :: UNIX_EPOCH + ct")?;
    pin_let(spec, &f.block, "oauth2_session_valid", "session_state_live (& oauth2_session . state)")?;
    pin_let(spec, &f.block, "parent_session_valid", "session_state_live (& uat_session . state)")?;
    pin_let(spec, &f.block, "oauth2_session", "entry . get_ava_as_oauth2session_map (Attribute :: OAuth2Session) . and_then (| sessions | sessions . get (& session_id))")?;
    pin_let(spec, &f.block, "uat_session", "entry . get_ava_as_session_map (Attribute :: UserAuthTokenSession) . and_then (| sessions | sessions . get (& parent_session_id))")?;
    pin_let(spec, &f.block, "api_session", "entry . get_ava_as_apitoken_map (Attribute :: ApiTokenSession) . and_then (| sessions | sessions . get (& parent_session_id))")?;
    let ssl = let_init(spec, &f.block, "session_state_live")?;
    if !toks(&ssl).starts_with("| state : & SessionState | match state {") {
        return Err(format!("{spec}: `let session_state_live = {}`", toks(&ssl)));
    }
    let sm = matches_in(&ssl);
    let sm = sm.first().ok_or(format!("{spec}: session_state_live has no match"))?;
    let (a_rev, a_exp, a_nev) = session_state_arms(spec, sm)?;
    let lop = cmp_op(spec, &a_exp, "* exp", "ct_odt")?;
    // every `return Ok(None)` and the final `Ok(Some(entry))`
    let body = toks(&f.block);
    if body.matches("return Ok (None)").count() != 5 || !body.trim_end().ends_with("Ok (Some (entry)) }") {
        return Err(format!("{spec}: the set of `return Ok(None)` / final `Ok(Some(entry))` changed"));
    }
    d(&format!("`AUTH_TOKEN_GRACE_WINDOW = {grace_src}` (seconds)"), &format!("def validGraceWindowSecs : Nat := {grace}"));
    d("`if ! within_valid_window` ⇒ `Ok(None)`", "def validOutsideWindow (within : Bool) : Bool := (!within)");
    d(
        &format!("`let grace_valid = {}` (ct: ns; iat: s)", toks(&gv)),
        &format!("def validGrace (ct iat : Nat) : Bool := decide (ct {op} ((iat * 1000000000) + validGraceWindowSecs * 1000000000))"),
    );
    d("closure `session_state_live`, arm `SessionState :: RevokedAt (_)`", &format!("def liveRevoked : Bool := {}", bool_lit(spec, &a_rev)?));
    d(&format!("arm `SessionState :: ExpiresAt (exp)`: `{}`", toks(&a_exp)), &format!("def liveExpires (exp ct : Nat) : Bool := decide (exp {lop} ct)"));
    d("arm `SessionState :: NeverExpires`", &format!("def liveNever : Bool := {}", bool_lit(spec, &a_nev)?));
    d("`if ! oauth2_session_valid` ⇒ `Ok(None)`", "def validO2Dead (live : Bool) : Bool := (!live)");
    d("`if parent_session_valid { .. } else { return Ok(None) }`", "def validParentOk (live : Bool) : Bool := live");
    d(
        "parent missing: `if api_session . is_some () {..} else if grace_valid {..} else { return Ok(None) }`",
        "def validParentMissing (isApi grace : Bool) : Bool := if isApi then true else if grace then true else false",
    );
    d("OAuth2 session missing: `else if grace_valid {..} else { return Ok(None) }`", "def validO2Missing (grace : Bool) : Bool := if grace then true else false");

    let text = format!(
        "-- GENERATED by vtranslate from server/lib/src/idm/oauth2.rs, server/lib/src/idm/server.rs, server/lib/src/constants/mod.rs, proto/src/constants.rs, server/core/src/actors/v1_write.rs. Do not edit: rewritten on every check run.\nimport KanidmModel.OAuth2.TokenTypes\nset_option linter.unusedVariables false\nnamespace Kanidm.Gen.OAuth2Token\nopen Kanidm.OAuth2.Token\n{g}end Kanidm.Gen.OAuth2Token\n"
    );
    let path = format!("{out}/OAuth2TokenOps.lean");
    if std::fs::read_to_string(&path).map(|old| old == text).unwrap_or(false) {
        return Ok("OAuth2TokenOps.lean unchanged".into());
    }
    std::fs::write(&path, text).map_err(|e| format!("{path}: {e}"))?;
    Ok("OAuth2TokenOps.lean regenerated".into())
}
