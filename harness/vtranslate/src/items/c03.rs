//! C03 translator item `index-maint`: regenerates, from `server/lib/src/entry.rs`,
//!   * `Entry::idx_diff`: for each of its arms (entry removed / entry added / attribute removed /
//!     attribute added / both present) the key generator called per `IndexType` and the sign (`Ok` = add,
//!     `Err` = remove); the arms of the sorted two-pointer loop (`match a.cmp(b)` and the two tail arms);
//!     which index types emit the loop's result;
//!   * the attributes `get_name2uuid_cands`, `get_uuid2spn`, `get_uuid2rdn`, `get_externalid2uuid` read,
//!     in order; the classes `mask_recycled_ts` hides.
//! Output: `KanidmModel/Generated/IndexMaintOps.lean`. Any unrecognised shape is an error.
use crate::util::*;
use quote::ToTokens;
use syn::visit::Visit;

pub fn run(item: &str, repo: &str, out: &str) -> Option<Result<String, String>> {
    match item {
        "index-maint" => Some(index_maint(repo, out)),
        _ => None,
    }
}

fn toks<T: ToTokens>(t: &T) -> String {
    t.to_token_stream().to_string()
}

struct Matches(Vec<syn::ExprMatch>);
impl<'ast> Visit<'ast> for Matches {
    fn visit_expr_match(&mut self, m: &'ast syn::ExprMatch) {
        self.0.push(m.clone());
        syn::visit::visit_expr_match(self, m);
    }
}

/// every `match` inside `e`, pre-order
fn matches_in(e: &syn::Expr) -> Vec<syn::ExprMatch> {
    let mut v = Matches(vec![]);
    v.visit_expr(e);
    v.0
}

fn matches_in_block(b: &syn::Block) -> Vec<syn::ExprMatch> {
    let mut v = Matches(vec![]);
    v.visit_block(b);
    v.0
}

/// the arm of `m` whose pattern prints as `pat`
fn arm_by_pat<'a>(m: &'a syn::ExprMatch, pat: &str) -> Result<&'a syn::Arm, String> {
    let found: Vec<&syn::Arm> = m.arms.iter().filter(|a| toks(&a.pat) == pat).collect();
    match found.len() {
        1 => Ok(found[0]),
        n => Err(format!("`match {}`: {n} arms with pattern `{pat}`", toks(&m.expr))),
    }
}

/// the `match ikey.itype` expressions directly relevant to `e` (pre-order)
fn itype_matches(e: &syn::Expr) -> Vec<syn::ExprMatch> {
    matches_in(e).into_iter().filter(|m| toks(&m.expr) == "ikey . itype").collect()
}

fn itype_names(p: &syn::Pat) -> Result<Vec<&'static str>, String> {
    let alts: Vec<&syn::Pat> = match p {
        syn::Pat::Or(o) => o.cases.iter().collect(),
        other => vec![other],
    };
    let mut out = vec![];
    for a in alts {
        out.push(match toks(a).as_str() {
            "IndexType :: Equality" => ".equality",
            "IndexType :: Presence" => ".presence",
            "IndexType :: SubString" => ".substring",
            "IndexType :: Ordering" => ".ordering",
            o => return Err(format!("unexpected index type pattern `{o}`")),
        });
    }
    Ok(out)
}

fn generator(body: &str, var: &str) -> Result<&'static str, String> {
    let cands = [
        (format!("{var} . generate_idx_eq_keys ()"), ".eq"),
        (format!("{var} . generate_idx_sub_keys ()"), ".sub"),
        (format!("{var} . generate_idx_ord_keys ()"), ".ord"),
        ("\"_\" . to_string ()".to_string(), ".underscore"),
    ];
    let hits: Vec<&'static str> = cands.iter().filter(|(pat, _)| body.contains(pat.as_str())).map(|(_, g)| *g).collect();
    match hits.len() {
        1 => Ok(hits[0]),
        _ => Err(format!("arm does not call exactly one key generator on `{var}`: {body}")),
    }
}

/// `match ikey.itype { T => <keys of `var`>.map(|idx_key| Ok|Err((&ikey.attr, ikey.itype, idx_key))) … }`
fn signed_table(m: &syn::ExprMatch, var: &str, name: &str, doc: &str) -> Result<String, String> {
    let mut rows = std::collections::BTreeMap::new();
    let mut order = vec![];
    for arm in &m.arms {
        let body = toks(&arm.body);
        let gen = generator(&body, var)?;
        let ok = body.contains("Ok ((& ikey . attr , ikey . itype ,");
        let err = body.contains("Err ((& ikey . attr , ikey . itype ,");
        if ok == err {
            return Err(format!("{name}: arm is not exactly one of Ok / Err: {body}"));
        }
        for t in itype_names(&arm.pat)? {
            if rows.insert(t, (ok, gen)).is_some() {
                return Err(format!("{name}: index type {t} matched twice"));
            }
            order.push(t);
        }
    }
    if rows.len() != 4 {
        return Err(format!("{name}: {} index types covered, expected 4", rows.len()));
    }
    let mut s = format!("/-- {doc} -/\ndef {name} : IType → Bool × KeySrc\n");
    for t in order {
        let (ok, gen) = rows[t];
        s += &format!("  | {t} => ({ok}, {gen})\n");
    }
    Ok(s)
}

fn attr_names(e: &str, what: &str) -> Result<Vec<&'static str>, String> {
    // every `Attribute :: X` in token order
    let mut out = vec![];
    let mut rest = e;
    while let Some(i) = rest.find("Attribute :: ") {
        let tail = &rest[i + "Attribute :: ".len()..];
        let name: String = tail.chars().take_while(|c| c.is_alphanumeric()).collect();
        out.push(match name.as_str() {
            "Spn" => ".spn",
            "Name" => ".name",
            "GidNumber" => ".gidNumber",
            "SyncExternalId" => ".syncExternalId",
            o => return Err(format!("{what}: unexpected attribute {o}")),
        });
        rest = tail;
    }
    Ok(out)
}

fn index_maint(repo: &str, out: &str) -> Result<String, String> {
    let rel = "server/lib/src/entry.rs";
    let ast = parse_file(repo, rel)?;
    let f = find_fn(&ast, "Entry::idx_diff")?;
    let top: Vec<syn::ExprMatch> = matches_in_block(&f.block).into_iter().filter(|m| toks(&m.expr) == "(pre , post)").collect();
    // the outer `match (pre, post)` on the entries, then (nested) the loop's `match (pre, post)` on the key iterators
    if top.len() != 2 {
        return Err(format!("idx_diff: {} `match (pre, post)` expressions, expected 2 (entries, loop)", top.len()));
    }
    let outer = &top[0];
    let lp = &top[1];
    if outer.arms.len() != 4 {
        return Err("idx_diff: outer match does not have 4 arms".into());
    }
    let none_none = arm_by_pat(outer, "(None , None)")?;
    if toks(&none_none.body) != "{ Vec :: with_capacity (0) }" {
        return Err(format!("idx_diff (None, None): {}", toks(&none_none.body)));
    }
    let mut body = String::new();
    body += "namespace Kanidm.Index\nopen Kanidm.Filter\n\n";
    body += "/-- the key generator an arm calls on a value set -/\ninductive KeySrc where\n  | eq | sub | ord | underscore | nothing\n  deriving DecidableEq, Repr, Inhabited\n\n";
    body += "/-- one turn of the two-pointer loop: which pointer(s) advance and where the key is pushed -/\ninductive MergeStep where\n  | removePre | skipBoth | addPost\n  deriving DecidableEq, Repr, Inhabited\n\n";
    body += "/-- special attributes and classes named in the source -/\ninductive NameAttr where\n  | spn | name | gidNumber | syncExternalId\n  deriving DecidableEq, Repr, Inhabited\n\n";
    body += "inductive MaskClass where\n  | tombstone | recycled\n  deriving DecidableEq, Repr, Inhabited\n\n";

    // ---- the loop
    let some_some = arm_by_pat(lp, "(Some (a) , Some (b))")?;
    let cmp: Vec<syn::ExprMatch> = matches_in(&some_some.body).into_iter().filter(|m| toks(&m.expr) == "a . cmp (b)").collect();
    if cmp.len() != 1 {
        return Err("idx_diff loop: `match a.cmp(b)` not found".into());
    }
    let step_of = |b: &str| -> Result<&'static str, String> {
        Ok(match b {
            "{ removed_vs . push (a . clone ()) ; pre = pre_iter . next () ; }" => ".removePre",
            "{ pre = pre_iter . next () ; post = post_iter . next () ; }" => ".skipBoth",
            "{ added_vs . push (b . clone ()) ; post = post_iter . next () ; }" => ".addPost",
            o => return Err(format!("idx_diff loop: unrecognised arm body {o}")),
        })
    };
    body += "/-- `match a.cmp(b)` inside the loop -/\ndef mergeArm : Ordering → MergeStep\n";
    let mut seen = std::collections::BTreeSet::new();
    for arm in &cmp[0].arms {
        let o = match toks(&arm.pat).as_str() {
            "Ordering :: Less" => ".lt",
            "Ordering :: Equal" => ".eq",
            "Ordering :: Greater" => ".gt",
            o => return Err(format!("idx_diff loop: unexpected ordering pattern {o}")),
        };
        seen.insert(o);
        body += &format!("  | {o} => {}\n", step_of(&toks(&arm.body))?);
    }
    if seen.len() != 3 {
        return Err("idx_diff loop: not all three orderings covered".into());
    }
    let tail_pre = toks(&arm_by_pat(lp, "(Some (a) , None)")?.body);
    let pre_removes = match tail_pre.as_str() {
        "{ removed_vs . push (a . clone ()) ; pre = pre_iter . next () ; }" => true,
        "{ added_vs . push (a . clone ()) ; pre = pre_iter . next () ; }" => false,
        o => return Err(format!("idx_diff loop (Some(a), None): {o}")),
    };
    let tail_post = toks(&arm_by_pat(lp, "(None , Some (b))")?.body);
    let post_adds = match tail_post.as_str() {
        "{ added_vs . push (b . clone ()) ; post = post_iter . next () ; }" => true,
        "{ removed_vs . push (b . clone ()) ; post = post_iter . next () ; }" => false,
        o => return Err(format!("idx_diff loop (None, Some(b)): {o}")),
    };
    if toks(&arm_by_pat(lp, "(None , None)")?.body) != "{ break ; }" {
        return Err("idx_diff loop (None, None) does not break".into());
    }
    body += &format!("\n/-- the `(Some(a), None)` arm pushes to `removed_vs` -/\ndef mergeTailPreRemoves : Bool := {pre_removes}\n");
    body += &format!("/-- the `(None, Some(b))` arm pushes to `added_vs` -/\ndef mergeTailPostAdds : Bool := {post_adds}\n\n");
    let whole = toks(&f.block);
    for need in ["pre_idx_keys . sort_unstable () ;", "post_idx_keys . sort_unstable () ;"] {
        if !whole.contains(need) {
            return Err(format!("idx_diff: `{need}` missing before the loop"));
        }
    }

    // ---- entry removed / added
    let removed = arm_by_pat(outer, "(Some (pre_e) , None)")?;
    let ms = itype_matches(&removed.body);
    if ms.len() != 1 || !toks(&removed.body).contains("pre_e . get_ava_set (& ikey . attr)") {
        return Err("idx_diff (Some(pre_e), None): unexpected shape".into());
    }
    body += &signed_table(&ms[0], "vs", "armEntryRemoved", "entry removed `(Some(pre_e), None)`: sign (`true` = `Ok` = add) and generator per index type")?;
    body += "\n";
    let added = arm_by_pat(outer, "(None , Some (post_e))")?;
    let ms = itype_matches(&added.body);
    if ms.len() != 1 || !toks(&added.body).contains("post_e . get_ava_set (& ikey . attr)") {
        return Err("idx_diff (None, Some(post_e)): unexpected shape".into());
    }
    body += &signed_table(&ms[0], "vs", "armEntryAdded", "entry added `(None, Some(post_e))`")?;
    body += "\n";

    // ---- both entries present
    let both = arm_by_pat(outer, "(Some (pre_e) , Some (post_e))")?;
    let inner: Vec<syn::ExprMatch> = matches_in(&both.body)
        .into_iter()
        .filter(|m| toks(&m.expr) == "(pre_e . get_ava_set (& ikey . attr) , post_e . get_ava_set (& ikey . attr) ,)")
        .collect();
    if inner.len() != 1 {
        return Err("idx_diff (Some, Some): the match on the two value sets was not found".into());
    }
    let inner = &inner[0];
    if inner.arms.len() != 4 {
        return Err("idx_diff (Some, Some): inner match does not have 4 arms".into());
    }
    if toks(&arm_by_pat(inner, "(None , None)")?.body) != "{ Vec :: with_capacity (0) }" {
        return Err("idx_diff (Some, Some)/(None, None): not empty".into());
    }
    let ar = arm_by_pat(inner, "(Some (pre_vs) , None)")?;
    let ms = itype_matches(&ar.body);
    if ms.len() != 1 {
        return Err("idx_diff attribute removed: unexpected shape".into());
    }
    body += &signed_table(&ms[0], "pre_vs", "armAttrRemoved", "attribute removed `(Some(pre_vs), None)`")?;
    body += "\n";
    let aa = arm_by_pat(inner, "(None , Some (post_vs))")?;
    let ms = itype_matches(&aa.body);
    if ms.len() != 1 {
        return Err("idx_diff attribute added: unexpected shape".into());
    }
    body += &signed_table(&ms[0], "post_vs", "armAttrAdded", "attribute added `(None, Some(post_vs))`")?;
    body += "\n";
    let bb = arm_by_pat(inner, "(Some (pre_vs) , Some (post_vs))")?;
    let ms = itype_matches(&bb.body);
    if ms.len() != 2 {
        return Err(format!("idx_diff both present: {} `match ikey.itype`, expected 2", ms.len()));
    }
    body += "/-- both present: the generator feeding the loop -/\ndef armBothSrc : IType → KeySrc\n";
    let mut n = 0;
    for arm in &ms[0].arms {
        let b = toks(&arm.body);
        let src = if b == "{ (Vec :: with_capacity (0) , Vec :: with_capacity (0)) }" {
            ".nothing"
        } else {
            let g1 = generator(&b, "pre_vs")?;
            let g2 = generator(&b, "post_vs")?;
            if g1 != g2 || g1 == ".underscore" {
                return Err(format!("idx_diff both present: generators differ: {b}"));
            }
            // `(pre_vs.g(), post_vs.g(),)` — pre first
            let ip = b.find("pre_vs .").unwrap_or(usize::MAX);
            let iq = b.find("post_vs .").unwrap_or(0);
            if ip > iq {
                return Err(format!("idx_diff both present: tuple order is not (pre, post): {b}"));
            }
            g1
        };
        for t in itype_names(&arm.pat)? {
            body += &format!("  | {t} => {src}\n");
            n += 1;
        }
    }
    if n != 4 {
        return Err("idx_diff both present: generator table does not cover 4 index types".into());
    }
    if !whole.contains("let (mut pre_idx_keys , mut post_idx_keys) = match ikey . itype") {
        return Err("idx_diff both present: the generator tuple is not bound to (pre_idx_keys, post_idx_keys)".into());
    }
    body += "\n/-- both present: the final `match ikey.itype` emits the removed/added keys -/\ndef armBothEmits : IType → Bool\n";
    let mut n = 0;
    for arm in &ms[1].arms {
        let b = toks(&arm.body);
        let emits = if b == "{ }" {
            false
        } else if b.contains("removed_vs . into_iter () . map (| idx_key | Err ((& ikey . attr , ikey . itype , idx_key)))")
            && b.contains("added_vs . into_iter () . map (| idx_key | Ok ((& ikey . attr , ikey . itype , idx_key)))")
        {
            true
        } else {
            return Err(format!("idx_diff both present: unrecognised emitting arm {b}"));
        };
        for t in itype_names(&arm.pat)? {
            body += &format!("  | {t} => {emits}\n");
            n += 1;
        }
    }
    if n != 4 {
        return Err("idx_diff both present: emit table does not cover 4 index types".into());
    }

    // ---- attribute lists
    let c = find_fn(&ast, "Entry::get_name2uuid_cands")?;
    let cb = toks(&c.block);
    let start = cb.find("let cands = [").ok_or("get_name2uuid_cands: `let cands = [..]` not found")?;
    let end = cb[start..].find(']').ok_or("get_name2uuid_cands: unterminated array")? + start;
    let cands = attr_names(&cb[start..end], "get_name2uuid_cands")?;
    if cands.is_empty() || !cb.contains("to_proto_string_clone_iter ()") {
        return Err("get_name2uuid_cands: unexpected shape".into());
    }
    let s = toks(&find_fn(&ast, "Entry::get_uuid2spn")?.block);
    let spn = attr_names(&s, "get_uuid2spn")?;
    if !s.contains("unwrap_or_else (| | Value :: Uuid (self . get_uuid ()))") || s.matches("to_value_single ()").count() != spn.len() {
        return Err(format!("get_uuid2spn: unexpected shape: {s}"));
    }
    let r = toks(&find_fn(&ast, "Entry::get_uuid2rdn")?.block);
    let rdn = attr_names(&r, "get_uuid2rdn")?;
    if !r.contains("format ! (\"uuid={}\" , self . get_uuid () . as_hyphenated ())") || r.matches("to_proto_string_single ()").count() != rdn.len() {
        return Err("get_uuid2rdn: unexpected shape".into());
    }
    for (a, pre) in rdn.iter().zip(["spn={v}", "name={v}"]) {
        let want = if *a == ".spn" { "spn={v}" } else { "name={v}" };
        if want != pre || !r.contains(&format!("format ! (\"{pre}\")")) {
            return Err("get_uuid2rdn: prefixes do not follow the attributes".into());
        }
    }
    let x = toks(&find_fn(&ast, "Entry::get_externalid2uuid")?.block);
    let ext = attr_names(&x, "get_externalid2uuid")?;
    if ext.len() != 1 || !x.contains("to_proto_string_single ()") {
        return Err("get_externalid2uuid: unexpected shape".into());
    }
    let m = toks(&find_fn(&ast, "Entry::mask_recycled_ts")?.block);
    let mut classes = vec![];
    let mut rest = m.as_str();
    while let Some(i) = rest.find("EntryClass :: ") {
        let tail = &rest[i + "EntryClass :: ".len()..];
        let name: String = tail.chars().take_while(|c| c.is_alphanumeric()).collect();
        classes.push(match name.as_str() {
            "Tombstone" => ".tombstone",
            "Recycled" => ".recycled",
            o => return Err(format!("mask_recycled_ts: unexpected class {o}")),
        });
        rest = tail;
    }
    if classes.is_empty()
        || !m.contains("self . attrs . get (& Attribute :: Class)")
        || !m.contains("{ None } else { Some (self) }")
        || m.matches("||").count() + 1 != classes.len()
        || !m.contains("None => Some (self)")
    {
        return Err("mask_recycled_ts: unexpected shape".into());
    }
    let list = |v: &[&str]| format!("[{}]", v.join(", "));
    body += &format!("\n/-- `get_name2uuid_cands` -/\ndef nameCandAttrs : List NameAttr := {}\n", list(&cands));
    body += &format!("/-- `get_uuid2spn`: first single-valued attribute wins, else the uuid -/\ndef uuid2spnAttrs : List NameAttr := {}\n", list(&spn));
    body += &format!("/-- `get_uuid2rdn` -/\ndef uuid2rdnAttrs : List NameAttr := {}\n", list(&rdn));
    body += &format!("/-- `get_externalid2uuid` -/\ndef externalIdAttr : NameAttr := {}\n", ext[0]);
    body += &format!("/-- `mask_recycled_ts` -/\ndef maskClasses : List MaskClass := {}\n", list(&classes));
    body += "\nend Kanidm.Index\n";

    let path = format!("{out}/IndexMaintOps.lean");
    let text = format!(
        "import KanidmModel.Filter.Syntax\n-- GENERATED by vtranslate from {rel} (fn idx_diff: arm tables, loop arms; get_name2uuid_cands, get_uuid2spn, get_uuid2rdn, get_externalid2uuid, mask_recycled_ts), item index-maint. Do not edit: rewritten on every check run.\n{body}"
    );
    if !std::fs::read_to_string(&path).map(|old| old == text).unwrap_or(false) {
        std::fs::write(&path, text).map_err(|e| format!("{path}: {e}"))?;
    }
    Ok("IndexMaintOps: mergeArm, tails, 4 signed arm tables, armBothSrc, armBothEmits, name attribute lists, maskClasses".to_string())
}
