//! C32 translator item `bearer-ops` → `Generated/BearerOps.lean`.
//!
//! Re-reads, from the current source, every operator / constant / match arm the bearer-token
//! decision turns on, and checks the fixed shape around them (order of the parse attempts, what
//! each test returns, which attribute and which key a session lookup uses, argument order of the
//! validity-window call).  Anything unrecognised is an `Err`.
//!
//!  * proto/src/constants.rs          `AUTH_TOKEN_GRACE_WINDOW`
//!  * idm/server.rs                   `validate_and_parse_token_to_identity_token`: parse order UAT →
//!                                    legacy api token → raw uuid, the three expiry comparisons and
//!                                    that each returns `SessionExpired`; `process_uat_to_identity`
//!                                    / `process_apit_to_identity`: `if !valid { return Err(SessionExpired) }`
//!  * idm/account.rs                  `check_within_valid_time` (both comparisons, both defaults,
//!                                    the conjunction), `check_user_auth_token_valid` (window test,
//!                                    anonymous test, session lookup, the `(state, expiry)` match arm
//!                                    by arm, grace expression and comparison with both results)
//!  * idm/serviceaccount.rs           `check_api_token_valid` (same, for api tokens)
//!  * plugins/session.rs              `SessionConsistency::modify_inner`: credential test and the
//!                                    expiry guard of the UserAuthTokenSession sweep
use super::vars;
use crate::util::*;
use quote::ToTokens;
use syn::visit::Visit;

pub fn run(item: &str, repo: &str, out: &str) -> Option<Result<String, String>> {
    match item {
        "bearer-ops" => Some(bearer_ops(repo, out)),
        _ => None,
    }
}

fn toks<T: ToTokens>(t: &T) -> String {
    t.to_token_stream().to_string()
}
/// Token text without whitespace.
fn nsp<T: ToTokens>(t: &T) -> String {
    toks(t).chars().filter(|c| !c.is_whitespace()).collect()
}

const LOG_MACROS: &[&str] = &[
    "error", "warn", "info", "debug", "trace", "admin_error", "admin_warn", "admin_info",
    "admin_debug", "security_info", "security_error", "security_debug", "request_error",
];

fn is_log(s: &syn::Stmt) -> bool {
    match s {
        syn::Stmt::Macro(m) => m.mac.path.segments.last().map(|x| LOG_MACROS.contains(&x.ident.to_string().as_str())).unwrap_or(false),
        _ => false,
    }
}

/// `{ <logging>* <tail> }` → tail statement (expression or `return`).
fn block_tail(b: &syn::Block) -> Result<&syn::Stmt, String> {
    let n = b.stmts.len();
    if n == 0 {
        return Err("empty block".into());
    }
    for s in &b.stmts[..n - 1] {
        if !is_log(s) {
            return Err(format!("unexpected statement `{}` before the block's result", toks(s)));
        }
    }
    Ok(&b.stmts[n - 1])
}

/// `{ <logging>* true|false }` → the literal.
fn block_bool(b: &syn::Block) -> Result<bool, String> {
    match block_tail(b)? {
        syn::Stmt::Expr(e, None) => expr_bool(e),
        other => Err(format!("block result `{}` is not a boolean literal", toks(other))),
    }
}

fn expr_bool(e: &syn::Expr) -> Result<bool, String> {
    match e {
        syn::Expr::Lit(l) => match &l.lit {
            syn::Lit::Bool(b) => Ok(b.value),
            _ => Err(format!("`{}` is not a boolean literal", toks(e))),
        },
        syn::Expr::Block(b) if b.label.is_none() => block_bool(&b.block),
        syn::Expr::Paren(p) => expr_bool(&p.expr),
        _ => Err(format!("`{}` is not a boolean literal", toks(e))),
    }
}

fn lb(b: bool) -> &'static str {
    if b { "true" } else { "false" }
}

/// All `if` expressions of a block in source order.
fn ifs(block: &syn::Block) -> Vec<syn::ExprIf> {
    struct V(Vec<syn::ExprIf>);
    impl<'ast> Visit<'ast> for V {
        fn visit_expr_if(&mut self, i: &'ast syn::ExprIf) {
            self.0.push(i.clone());
            syn::visit::visit_expr_if(self, i);
        }
    }
    let mut v = V(vec![]);
    v.visit_block(block);
    v.0
}

fn find_local(block: &syn::Block, name: &str) -> Result<syn::Expr, String> {
    struct V<'n>(&'n str, Vec<syn::Expr>);
    impl<'ast, 'n> Visit<'ast> for V<'n> {
        fn visit_local(&mut self, l: &'ast syn::Local) {
            if let syn::Pat::Ident(i) = &l.pat {
                if i.ident == self.0 {
                    if let Some(init) = &l.init {
                        self.1.push((*init.expr).clone());
                    }
                }
            }
            syn::visit::visit_local(self, l);
        }
    }
    let mut v = V(name, vec![]);
    v.visit_block(block);
    match v.1.len() {
        1 => Ok(v.1.remove(0)),
        0 => Err(format!("no `let {name} = ..`")),
        n => Err(format!("`let {name} = ..` occurs {n} times")),
    }
}

fn returns_session_expired(b: &syn::Block) -> Result<(), String> {
    let t = block_tail(b)?;
    if nsp(t) == "returnErr(OperationError::SessionExpired);" {
        Ok(())
    } else {
        Err(format!("expected `return Err(OperationError::SessionExpired);`, found `{}`", toks(t)))
    }
}

fn is_cmp(e: &syn::Expr) -> bool {
    use syn::BinOp::*;
    matches!(e, syn::Expr::Binary(b) if matches!(b.op, Lt(_) | Le(_) | Gt(_) | Ge(_) | Eq(_) | Ne(_)))
}

// ------------------------------------------------------------------------------------------------

struct ParseOps {
    uat: (String, String),
    apit: (String, String),
    apic: (String, String),
}

fn parse_token_fn(repo: &str) -> Result<ParseOps, String> {
    let rel = "server/lib/src/idm/server.rs";
    let ast = parse_file(repo, rel)?;
    let f = find_fn(&ast, "IdmServerTransaction::validate_and_parse_token_to_identity_token")?;
    let all = ifs(&f.block);
    let expect_let = [
        (0usize, "letOk(uat)=jws_inner.from_json::<UserAuthToken>()"),
        (1, "letSome(exp)=uat.expiry"),
        (3, "letOk(apit)=jws_inner.from_json::<ApiToken>()"),
        (4, "letSome(expiry)=apit.expiry"),
        (6, "letOk(session_id)=Uuid::from_slice(jws_inner.payload())"),
        (7, "letSome(expiry)=apit.expiry"),
    ];
    if all.len() != 9 {
        return Err(format!(
            "validate_and_parse_token_to_identity_token: expected 9 `if`s (3 parse attempts, 3 `if let Some(expiry)`, 3 expiry comparisons), found {}: {:?}",
            all.len(),
            all.iter().map(|i| toks(&*i.cond)).collect::<Vec<_>>()
        ));
    }
    for (i, want) in expect_let {
        if nsp(&*all[i].cond) != want {
            return Err(format!("validate_and_parse_token_to_identity_token: `if` #{i} is `{}`, expected `{want}`", toks(&*all[i].cond)));
        }
    }
    // ct_odt
    let ct_odt = find_local(&f.block, "ct_odt")?;
    if nsp(&ct_odt) != "time::OffsetDateTime::UNIX_EPOCH+ct" {
        return Err(format!("`ct_odt` is `{}`, expected `time::OffsetDateTime::UNIX_EPOCH + ct`", toks(&ct_odt)));
    }
    let mut ops = vec![];
    for (i, vs) in [
        (2usize, vars(&[("exp", "exp"), ("ct_odt", "ct")])),
        (5, vars(&[("expiry", "expiry"), ("ct", "ct"), ("time::OffsetDateTime::UNIX_EPOCH", "0")])),
        (8, vars(&[("expiry", "expiry"), ("ct", "ct"), ("time::OffsetDateTime::UNIX_EPOCH", "0")])),
    ] {
        let c = &*all[i].cond;
        if !is_cmp(c) {
            return Err(format!("`if` #{i} `{}` is not a comparison", toks(c)));
        }
        returns_session_expired(&all[i].then_branch).map_err(|e| format!("expiry test `{}`: {e}", toks(c)))?;
        ops.push((toks(c), lean_expr(c, &vs)?));
    }
    // the UAT branch: not expired ⇒ Ok(Token::UserAuthToken(uat)) in the else branch and after `if let Some(exp)`
    let else_ok = match &all[2].else_branch {
        Some((_, e)) => match &**e {
            syn::Expr::Block(b) => block_tail(&b.block).map(|t| nsp(t)).unwrap_or_default(),
            _ => String::new(),
        },
        None => String::new(),
    };
    if else_ok != "returnOk(Token::UserAuthToken(uat));" {
        return Err(format!("UAT expiry test: else branch must `return Ok(Token::UserAuthToken(uat));`, found `{else_ok}`"));
    }
    // process_*_to_identity: `if !valid { return Err(SessionExpired) }`
    for name in ["process_uat_to_identity", "process_apit_to_identity"] {
        let g = find_fn(&ast, &format!("IdmServerTransaction::{name}"))?;
        let gi = ifs(&g.block);
        let hit = gi.iter().find(|i| nsp(&*i.cond) == "!valid").ok_or_else(|| format!("{name}: no `if !valid`"))?;
        returns_session_expired(&hit.then_branch).map_err(|e| format!("{name}: `if !valid`: {e}"))?;
        let valid = find_local(&g.block, "valid")?;
        let want = if name == "process_uat_to_identity" {
            "Account::check_user_auth_token_valid(ct,uat,&entry)"
        } else {
            "ServiceAccount::check_api_token_valid(ct,apit,&entry)"
        };
        if nsp(&valid) != want {
            return Err(format!("{name}: `valid` is `{}`, expected `{want}`", toks(&valid)));
        }
    }
    let mut it = ops.into_iter();
    Ok(ParseOps { uat: it.next().unwrap(), apit: it.next().unwrap(), apic: it.next().unwrap() })
}

/// `let <name> = if let Some(<x>) = <opt> { <cmp> } else { <bool> };`
fn opt_cmp(block: &syn::Block, name: &str, opt_name: &str) -> Result<(String, String, String, bool), String> {
    let e = find_local(block, name)?;
    let syn::Expr::If(i) = &e else { return Err(format!("`{name}` is not an `if let`: `{}`", toks(&e))) };
    let syn::Expr::Let(l) = &*i.cond else { return Err(format!("`{name}`: condition `{}` is not `let Some(..) = {opt_name}`", toks(&*i.cond))) };
    if nsp(&*l.expr) != opt_name {
        return Err(format!("`{name}` destructures `{}`, expected `{opt_name}`", toks(&*l.expr)));
    }
    let bound = match &*l.pat {
        syn::Pat::TupleStruct(ts) if nsp(&ts.path) == "Some" && ts.elems.len() == 1 => match &ts.elems[0] {
            syn::Pat::Ident(id) => id.ident.to_string(),
            p => return Err(format!("`{name}`: unsupported pattern `{}`", toks(p))),
        },
        p => return Err(format!("`{name}`: unsupported pattern `{}`", toks(p))),
    };
    let cmp = match block_tail(&i.then_branch)? {
        syn::Stmt::Expr(c, None) if is_cmp(c) => c.clone(),
        o => return Err(format!("`{name}`: then-branch `{}` is not a comparison", toks(o))),
    };
    let dflt = match &i.else_branch {
        Some((_, e)) => expr_bool(e)?,
        None => return Err(format!("`{name}` has no else branch")),
    };
    let vs = vars(&[(bound.as_str(), bound.as_str()), ("cot", "cot")]);
    Ok((bound.clone(), toks(&cmp), lean_expr(&cmp, &vs)?, dflt))
}

const WINDOW_CALL: &str = "Account::check_within_valid_time(ct,entry.get_ava_single_datetime(Attribute::AccountValidFrom).as_ref(),entry.get_ava_single_datetime(Attribute::AccountExpire).as_ref(),)";

fn check_window_prologue(f: &FoundFn, name: &str) -> Result<(), String> {
    let w = find_local(&f.block, "within_valid_window")?;
    if nsp(&w) != WINDOW_CALL {
        return Err(format!("{name}: `within_valid_window` is `{}`; expected check_within_valid_time(ct, AccountValidFrom, AccountExpire)", toks(&w)));
    }
    let all = ifs(&f.block);
    let first = all.first().ok_or_else(|| format!("{name}: no `if`"))?;
    if nsp(&*first.cond) != "!within_valid_window" {
        return Err(format!("{name}: first test is `{}`, expected `!within_valid_window`", toks(&*first.cond)));
    }
    if block_tail(&first.then_branch).map(|t| nsp(t)).unwrap_or_default() != "returnfalse;" {
        return Err(format!("{name}: `if !within_valid_window` must `return false;`"));
    }
    Ok(())
}

/// `let grace = <x>.issued_at + AUTH_TOKEN_GRACE_WINDOW; let current = EPOCH + ct; if current >= grace {..b1} else {..b2}`
fn grace_part(f: &FoundFn, name: &str, tok: &str, i: &syn::ExprIf) -> Result<(String, String, bool, bool), String> {
    let g = find_local(&f.block, "grace")?;
    let issued = format!("{tok}.issued_at");
    let vs = vars(&[(issued.as_str(), "issued_at"), ("AUTH_TOKEN_GRACE_WINDOW", "window")]);
    let grace = lean_expr(&g, &vs).map_err(|e| format!("{name}: grace: {e}"))?;
    let cur = find_local(&f.block, "current")?;
    if nsp(&cur) != "time::OffsetDateTime::UNIX_EPOCH+ct" {
        return Err(format!("{name}: `current` is `{}`", toks(&cur)));
    }
    if !is_cmp(&i.cond) {
        return Err(format!("{name}: grace test `{}` is not a comparison", toks(&*i.cond)));
    }
    let vs = vars(&[("current", "current"), ("grace", "grace")]);
    let cond = lean_expr(&i.cond, &vs)?;
    let b1 = block_bool(&i.then_branch).map_err(|e| format!("{name}: grace test then-branch: {e}"))?;
    let b2 = match &i.else_branch {
        Some((_, e)) => expr_bool(e).map_err(|e| format!("{name}: grace test else-branch: {e}"))?,
        None => return Err(format!("{name}: grace test has no else branch")),
    };
    Ok((grace, cond, b1, b2))
}

struct ArmT {
    st: &'static str,
    exp: &'static str,
    guard: bool,
    result: bool,
    src: String,
}

fn session_arms(f: &FoundFn) -> Result<(Vec<ArmT>, String), String> {
    struct V(Vec<syn::ExprMatch>);
    impl<'ast> Visit<'ast> for V {
        fn visit_expr_match(&mut self, m: &'ast syn::ExprMatch) {
            self.0.push(m.clone());
            syn::visit::visit_expr_match(self, m);
        }
    }
    let mut v = V(vec![]);
    v.visit_block(&f.block);
    let ms: Vec<&syn::ExprMatch> = v.0.iter().filter(|m| nsp(&*m.expr) == "(&session.state,&uat.expiry)").collect();
    if ms.len() != 1 {
        return Err(format!("check_user_auth_token_valid: expected one `match (&session.state, &uat.expiry)`, found {}", ms.len()));
    }
    let mut arms = vec![];
    let mut guard_eq = None;
    for a in &ms[0].arms {
        let src = format!("{}{}", toks(&a.pat), a.guard.as_ref().map(|(_, g)| format!(" if {}", toks(&**g))).unwrap_or_default());
        let (p1, p2): (Option<&syn::Pat>, Option<&syn::Pat>) = match &a.pat {
            syn::Pat::Wild(_) => (None, None),
            syn::Pat::Tuple(t) if t.elems.len() == 2 => (Some(&t.elems[0]), Some(&t.elems[1])),
            p => return Err(format!("unsupported arm pattern `{}`", toks(p))),
        };
        let mut b1 = None;
        let st = match p1 {
            None | Some(syn::Pat::Wild(_)) => "any",
            Some(p) => match nsp(p).as_str() {
                "SessionState::NeverExpires" => "neverExpires",
                "SessionState::RevokedAt(_)" => "revokedAt",
                s if s.starts_with("SessionState::ExpiresAt(") => {
                    if let syn::Pat::TupleStruct(ts) = p {
                        if let Some(syn::Pat::Ident(id)) = ts.elems.first() {
                            b1 = Some(id.ident.to_string());
                        }
                    }
                    "expiresAt"
                }
                s => return Err(format!("unsupported session-state pattern `{s}`")),
            },
        };
        let mut b2 = None;
        let exp = match p2 {
            None | Some(syn::Pat::Wild(_)) => "any",
            Some(p) => match nsp(p).as_str() {
                "None" => "none",
                s if s.starts_with("Some(") => {
                    if let syn::Pat::TupleStruct(ts) = p {
                        if let Some(syn::Pat::Ident(id)) = ts.elems.first() {
                            b2 = Some(id.ident.to_string());
                        }
                    }
                    "some"
                }
                s => return Err(format!("unsupported expiry pattern `{s}`")),
            },
        };
        let guard = match &a.guard {
            None => false,
            Some((_, g)) => {
                let (Some(x), Some(y)) = (&b1, &b2) else {
                    return Err(format!("arm `{src}`: a guard needs both the session expiry and the token expiry bound"));
                };
                if !is_cmp(g) {
                    return Err(format!("arm `{src}`: guard is not a comparison"));
                }
                let vs = vars(&[(x.as_str(), "s_exp"), (y.as_str(), "u_exp")]);
                let l = lean_expr(g, &vs).map_err(|e| format!("arm `{src}`: {e}"))?;
                if let Some(prev) = &guard_eq {
                    if *prev != l {
                        return Err("two different guards in the session match".into());
                    }
                }
                guard_eq = Some(l);
                true
            }
        };
        let result = expr_bool(&a.body).map_err(|e| format!("arm `{src}`: {e}"))?;
        arms.push(ArmT { st, exp, guard, result, src });
    }
    let g = guard_eq.ok_or("the session match has no `s_exp == u_exp`-style guard")?;
    Ok((arms, g))
}

fn bearer_ops(repo: &str, out: &str) -> Result<String, String> {
    // -- constant
    let cfile = parse_file(repo, "proto/src/constants.rs")?;
    let gexpr = find_const(&cfile, "AUTH_TOKEN_GRACE_WINDOW").ok_or("AUTH_TOKEN_GRACE_WINDOW not found in proto/src/constants.rs")?;
    if !nsp(&gexpr).starts_with("Duration::from_secs(") {
        return Err(format!("AUTH_TOKEN_GRACE_WINDOW is `{}`, expected Duration::from_secs(..)", toks(&gexpr)));
    }
    let grace = eval_int(&gexpr, &|_| None)?;

    // -- parser
    let p = parse_token_fn(repo)?;

    // -- account.rs
    let acc = parse_file(repo, "server/lib/src/idm/account.rs")?;
    let wf = find_fn(&acc, "Account::check_within_valid_time")?;
    let cot = find_local(&wf.block, "cot")?;
    if nsp(&cot) != "OffsetDateTime::UNIX_EPOCH+ct" {
        return Err(format!("check_within_valid_time: `cot` is `{}`", toks(&cot)));
    }
    let (vb, vsrc, vlean, vd) = opt_cmp(&wf.block, "vmin", "valid_from")?;
    let (eb, esrc, elean, ed) = opt_cmp(&wf.block, "vmax", "expire")?;
    let tail = match wf.block.stmts.last() {
        Some(syn::Stmt::Expr(e, None)) => e.clone(),
        _ => return Err("check_within_valid_time: no tail expression".into()),
    };
    let conj = lean_expr(&tail, &vars(&[("vmin", "vmin"), ("vmax", "vmax")]))?;

    let uf = find_fn(&acc, "Account::check_user_auth_token_valid")?;
    check_window_prologue(&uf, "check_user_auth_token_valid")?;
    let uifs = ifs(&uf.block);
    if uifs.len() != 4 {
        return Err(format!(
            "check_user_auth_token_valid: expected 4 `if`s (window, anonymous, session present, grace), found {}: {:?}",
            uifs.len(),
            uifs.iter().map(|i| toks(&*i.cond)).collect::<Vec<_>>()
        ));
    }
    // anonymous
    let anon = &uifs[1];
    if !is_cmp(&anon.cond) {
        return Err(format!("check_user_auth_token_valid: second test `{}` is not a comparison", toks(&*anon.cond)));
    }
    let anon_lean = lean_expr(&anon.cond, &vars(&[("uat.uuid", "uuid"), ("UUID_ANONYMOUS", "anon")]))?;
    let anon_res = block_bool(&anon.then_branch).map_err(|e| format!("anonymous branch: {e}"))?;
    // session lookup
    let sp = find_local(&uf.block, "session_present")?;
    let want = "entry.get_ava_as_session_map(Attribute::UserAuthTokenSession).and_then(|session_map|session_map.get(&uat.session_id))";
    if nsp(&sp) != want {
        return Err(format!("check_user_auth_token_valid: `session_present` is `{}`", toks(&sp)));
    }
    if nsp(&*uifs[2].cond) != "letSome(session)=session_present" {
        return Err(format!("check_user_auth_token_valid: third test is `{}`", toks(&*uifs[2].cond)));
    }
    let (arms, guard) = session_arms(&uf)?;
    let (ugrace, ucond, ub1, ub2) = grace_part(&uf, "check_user_auth_token_valid", "uat", &uifs[3])?;

    // -- serviceaccount.rs
    let sa = parse_file(repo, "server/lib/src/idm/serviceaccount.rs")?;
    let af = find_fn(&sa, "ServiceAccount::check_api_token_valid")?;
    check_window_prologue(&af, "check_api_token_valid")?;
    let aifs = ifs(&af.block);
    if aifs.len() != 3 {
        return Err(format!(
            "check_api_token_valid: expected 3 `if`s (window, session present, grace), found {}: {:?}",
            aifs.len(),
            aifs.iter().map(|i| toks(&*i.cond)).collect::<Vec<_>>()
        ));
    }
    let asp = find_local(&af.block, "session_present")?;
    let want = "entry.get_ava_as_apitoken_map(Attribute::ApiTokenSession).map(|session_map|session_map.get(&apit.token_id).is_some()).unwrap_or(false)";
    if nsp(&asp) != want {
        return Err(format!("check_api_token_valid: `session_present` is `{}`", toks(&asp)));
    }
    if nsp(&*aifs[1].cond) != "session_present" {
        return Err(format!("check_api_token_valid: second test is `{}`", toks(&*aifs[1].cond)));
    }
    let apres = block_bool(&aifs[1].then_branch).map_err(|e| format!("check_api_token_valid: present branch: {e}"))?;
    // the grace `if` is the else-branch of `if session_present`
    let (agrace, acond, ab1, ab2) = grace_part(&af, "check_api_token_valid", "apit", &aifs[2])?;

    // -- plugin
    let pl = parse_file(repo, "server/lib/src/plugins/session.rs")?;
    let mf = find_fn(&pl, "SessionConsistency::modify_inner")?;
    if !ifs(&mf.block).iter().any(|i| nsp(&*i.cond) == "!cred_ids.contains(&session.cred_id)") {
        return Err("SessionConsistency::modify_inner: credential test `!cred_ids.contains(&session.cred_id)` not found".into());
    }
    struct G(Vec<(String, syn::Expr)>);
    impl<'ast> Visit<'ast> for G {
        fn visit_arm(&mut self, a: &'ast syn::Arm) {
            if let Some((_, g)) = &a.guard {
                self.0.push((nsp(&a.pat), (**g).clone()));
            }
            syn::visit::visit_arm(self, a);
        }
    }
    let mut g = G(vec![]);
    g.visit_block(&mf.block);
    let sweep = g.0.first().ok_or("SessionConsistency::modify_inner: no guarded arm")?;
    if sweep.0 != "SessionState::ExpiresAt(exp)" {
        return Err(format!("SessionConsistency::modify_inner: first guarded arm is `{}`", sweep.0));
    }
    let sweep_lean = lean_expr(&sweep.1, &vars(&[("exp", "exp"), ("curtime_odt", "curtime")]))?;

    // -- emit
    let mut b = String::from("namespace Kanidm.Gen.Bearer\nopen Kanidm.Bearer\n");
    b += &format!("/-- `AUTH_TOKEN_GRACE_WINDOW = {}` (seconds) -/\ndef graceWindowSecs : Nat := {grace}\n", toks(&gexpr));
    b += &format!("/-- UAT: `if {} {{ return Err(SessionExpired) }}` -/\ndef uatExpired (exp ct : Nat) : Bool := {}\n", p.uat.0, p.uat.1);
    b += &format!("/-- legacy api token: `if {} {{ return Err(SessionExpired) }}` -/\ndef apitExpired (ct expiry : Nat) : Bool := {}\n", p.apit.0, p.apit.1);
    b += &format!("/-- compact api token: `if {} {{ return Err(SessionExpired) }}` -/\ndef apicExpired (ct expiry : Nat) : Bool := {}\n", p.apic.0, p.apic.1);
    b += &format!(
        "/-- `check_within_valid_time`: `{vsrc}`, else `{vd}` -/\ndef validFromOk (valid_from : Option Nat) (cot : Nat) : Bool :=\n  match valid_from with\n  | some {vb} => {vlean}\n  | none => {}\n",
        lb(vd)
    );
    b += &format!(
        "/-- `check_within_valid_time`: `{esrc}`, else `{ed}` -/\ndef expireOk (expire : Option Nat) (cot : Nat) : Bool :=\n  match expire with\n  | some {eb} => {elean}\n  | none => {}\n",
        lb(ed)
    );
    b += &format!("/-- `{}` -/\ndef withinValidTime (vmin vmax : Bool) : Bool := {conj}\n", toks(&tail));
    b += &format!("/-- `{}` -/\ndef uatIsAnonymous (uuid anon : Nat) : Bool := {anon_lean}\n", toks(&*anon.cond));
    b += &format!("def uatAnonymousResult : Bool := {}\n", lb(anon_res));
    b += &format!("/-- the guard of the `(session.state, uat.expiry)` match -/\ndef uatSessionExpEq (s_exp u_exp : Nat) : Bool := {guard}\n");
    b += "/-- `match (&session.state, &uat.expiry)` arm by arm, in source order -/\ndef uatSessionArms : List Arm := [\n";
    let n = arms.len();
    for (i, a) in arms.iter().enumerate() {
        b += &format!(
            "  ⟨.{}, .{}, {}, {}⟩{}  -- `{}`\n",
            a.st,
            a.exp,
            lb(a.guard),
            lb(a.result),
            if i + 1 == n { "]" } else { "," },
            a.src.replace('`', "'")
        );
    }
    b += &format!("def uatGrace (issued_at window : Nat) : Nat := {ugrace}\n");
    b += &format!("def uatNoSession (current grace : Nat) : Bool := if {ucond} then {} else {}\n", lb(ub1), lb(ub2));
    b += &format!("def apitSessionPresentResult : Bool := {}\n", lb(apres));
    b += &format!("def apitGrace (issued_at window : Nat) : Nat := {agrace}\n");
    b += &format!("def apitNoSession (current grace : Nat) : Bool := if {acond} then {} else {}\n", lb(ab1), lb(ab2));
    b += &format!("/-- session plugin: `SessionState::ExpiresAt(exp) if {}` ⇒ revoke -/\ndef sweepExpired (exp curtime : Nat) : Bool := {sweep_lean}\n", toks(&sweep.1));
    b += "end Kanidm.Gen.Bearer\n";
    // own writer: the generated module imports the shared types, and `import` must come first
    let path = format!("{out}/BearerOps.lean");
    let text = format!(
        "-- GENERATED by vtranslate from proto/src/constants.rs, server/lib/src/idm/server.rs, server/lib/src/idm/account.rs, server/lib/src/idm/serviceaccount.rs, server/lib/src/plugins/session.rs. Do not edit: rewritten on every check run.\nimport KanidmModel.BearerTypes\nset_option linter.unusedVariables false\n{b}"
    );
    if !std::fs::read_to_string(&path).map(|old| old == text).unwrap_or(false) {
        std::fs::write(&path, text).map_err(|e| format!("{path}: {e}"))?;
    }
    Ok(format!("BearerOps: grace {grace}s, uat `{}`, apit `{}`, apic `{}`, {} session arms", p.uat.0, p.apit.0, p.apic.0, n))
}
