//! C05 translator item `crash-storage`: which SQL every function of the SQLite write transaction
//! issues, on which connection, against which tables (`be/idl_sqlite.rs`), how the transaction is
//! opened and committed, and in which order the three `commit()` layers above it
//! (`IdlArcSqliteWriteTransaction::commit`, `BackendWriteTransaction::commit`; the query-server
//! layer is C07's `cid-commit-order`) flush, commit and publish.  Output: `Generated/CrashOps.lean`.
use crate::util::*;
use quote::ToTokens;
use std::collections::BTreeMap;
use syn::spanned::Spanned;
use syn::visit::Visit;
use syn::{Expr, Stmt};

pub fn run(item: &str, repo: &str, out: &str) -> Option<Result<String, String>> {
    match item {
        "crash-storage" => Some(crash_storage(repo, out)),
        _ => None,
    }
}

fn toks<T: ToTokens>(t: &T) -> String {
    t.to_token_stream().to_string()
}

const TABLES: &[(&str, &str)] = &[
    ("id2entry_quarantine", "quarantine"),
    ("id2entry", "id2entry"),
    ("idx_name2uuid", "name2uuid"),
    ("idx_externalid2uuid", "externalid2uuid"),
    ("idx_uuid2spn", "uuid2spn"),
    ("idx_uuid2rdn", "uuid2rdn"),
    ("idx_{}_{}", "idx"),
    ("ruv", "ruv"),
    ("db_op_ts", "dbOpTs"),
    ("db_sid", "dbSid"),
    ("db_did", "dbDid"),
    ("db_version", "dbVersion"),
    ("idxslope_analysis", "slope"),
    ("keyhandles", "keyhandles"),
];
const ALL_TBL: &[&str] = &[
    "id2entry", "quarantine", "idx", "name2uuid", "externalid2uuid", "uuid2spn", "uuid2rdn", "ruv", "dbOpTs", "dbSid", "dbDid", "dbVersion", "slope",
    "keyhandles",
];
/// every table whose name starts with `idx_` (what `list_idxs` returns)
const IDX_LIKE: &[&str] = &["idx", "name2uuid", "externalid2uuid", "uuid2spn", "uuid2rdn"];

/// One SQL text: (is a write, tables).  `Err` on a verb or table this translator does not know.
fn classify_sql(sql: &str, fn_name: &str) -> Result<Option<(bool, Vec<&'static str>)>, String> {
    let s = sql.split_whitespace().collect::<Vec<_>>().join(" ");
    let up = s.to_uppercase();
    let verbs: &[(&str, bool)] = &[
        ("INSERT OR REPLACE INTO ", true),
        ("INSERT INTO ", true),
        ("DELETE FROM ", true),
        ("CREATE TABLE IF NOT EXISTS ", true),
        ("DROP TABLE ", true),
        ("SELECT ", false),
        ("PRAGMA ", false),
        ("ATTACH DATABASE ", true),
        ("BEGIN ", false),
        ("COMMIT ", false),
        ("ROLLBACK ", false),
        ("UPDATE ", true),
        ("ALTER ", true),
        ("VACUUM", true),
    ];
    let Some((verb, write)) = verbs.iter().find(|(v, _)| up.starts_with(v)) else {
        return Ok(None); // not SQL (a log message, a key format, …)
    };
    if matches!(*verb, "BEGIN " | "COMMIT " | "ROLLBACK " | "PRAGMA ") {
        return Ok(Some((false, vec![])));
    }
    if matches!(*verb, "UPDATE " | "ALTER " | "VACUUM") {
        return Err(format!("{fn_name}: SQL verb `{verb}` is not modelled: `{s}`"));
    }
    if *verb == "ATTACH DATABASE " {
        return Ok(Some((true, vec![]))); // test-only non-main database; no table content
    }
    // every `{}.<table>` occurrence
    let mut tables = vec![];
    let mut rest = s.as_str();
    while let Some(i) = rest.find("{}.") {
        let tail = &rest[i + 3..];
        let name: String = tail.chars().take_while(|c| c.is_ascii_alphanumeric() || *c == '_' || *c == '{' || *c == '}').collect();
        if name == "{}" {
            // dynamic table name: `DROP TABLE {}.{}` over `list_idxs()`
            for t in IDX_LIKE {
                tables.push(*t);
            }
        } else if name == "sqlite_master" {
        } else {
            match TABLES.iter().find(|(n, _)| *n == name) {
                Some((_, t)) => tables.push(*t),
                None => return Err(format!("{fn_name}: unknown table `{name}` in `{s}`")),
            }
        }
        rest = &tail[name.len()..];
    }
    if s.contains(" from id2entry") || s.contains(" FROM id2entry") {
        tables.push("id2entry");
    }
    if *write && tables.is_empty() {
        return Err(format!("{fn_name}: cannot tell which table `{s}` writes"));
    }
    tables.sort();
    tables.dedup();
    Ok(Some((*write, tables)))
}

#[derive(Default)]
struct FnFacts {
    sql: Vec<String>,
    /// receivers of SQL-issuing method calls that are not the transaction's connection
    foreign: Vec<String>,
    calls_self: Vec<String>,
}

struct BodyScan<'a> {
    facts: FnFacts,
    /// identifiers that denote the transaction's own connection in this function
    conn_idents: &'a [&'a str],
}

fn root_of(e: &Expr) -> &Expr {
    match e {
        Expr::MethodCall(m) if !matches!(m.method.to_string().as_str(), "get_conn") => root_of(&m.receiver),
        Expr::Try(t) => match &*t.expr {
            Expr::MethodCall(m) if m.method == "get_conn" => e,
            inner => root_of(inner),
        },
        Expr::Paren(p) => root_of(&p.expr),
        Expr::Reference(r) => root_of(&r.expr),
        Expr::Field(f) => match &*f.base {
            Expr::Path(_) => e,
            b => root_of(b),
        },
        _ => e,
    }
}

impl<'a, 'ast> Visit<'ast> for BodyScan<'a> {
    fn visit_expr_method_call(&mut self, m: &'ast syn::ExprMethodCall) {
        let name = m.method.to_string();
        if matches!(name.as_str(), "execute" | "execute_batch" | "prepare" | "prepare_cached" | "query_row" | "query" | "query_map" | "exists" | "pragma_update") {
            let root = root_of(&m.receiver);
            let rs = toks(root);
            let ok = rs == "self . get_conn () ?" || rs == "self . get_conn ()" || rs == "stmt" || self.conn_idents.iter().any(|c| rs == *c);
            if !ok {
                self.facts.foreign.push(format!("{rs} . {name}"));
            }
        }
        if let Expr::Path(p) = &*m.receiver {
            if p.path.is_ident("self") {
                self.facts.calls_self.push(name.clone());
            }
        }
        syn::visit::visit_expr_method_call(self, m);
    }
    fn visit_expr_call(&mut self, c: &'ast syn::ExprCall) {
        let f = toks(&c.func);
        if f.contains("Connection :: open") {
            self.facts.foreign.push(f);
        }
        syn::visit::visit_expr_call(self, c);
    }
    fn visit_expr_field(&mut self, f: &'ast syn::ExprField) {
        if toks(f) == "self . pool" {
            self.facts.foreign.push("self . pool".into());
        }
        syn::visit::visit_expr_field(self, f);
    }
    fn visit_lit_str(&mut self, l: &'ast syn::LitStr) {
        self.facts.sql.push(l.value());
    }
    fn visit_macro(&mut self, m: &'ast syn::Macro) {
        // string literals inside format!(..) / named_params!{..}
        let name = m.path.segments.last().map(|s| s.ident.to_string()).unwrap_or_default();
        if name == "format" {
            if let Ok(args) = m.parse_body_with(syn::punctuated::Punctuated::<Expr, syn::Token![,]>::parse_terminated) {
                for a in args.iter() {
                    self.visit_expr(a);
                }
            }
        }
    }
}

struct SqlFn {
    name: String,
    lo: usize,
    hi: usize,
    foreign: Vec<String>,
    writes: Vec<&'static str>,
    reads: bool,
    calls_self: Vec<String>,
}

fn scan_fn(name: &str, lo: usize, hi: usize, block: &syn::Block) -> Result<SqlFn, String> {
    // `conn` denotes the transaction's connection when the function binds it from `self.get_conn()`
    // (`let Ok(conn) = self.get_conn() else ..`, `self.get_conn().map(|conn| ..)`) and touches no other source
    let src = toks(block);
    let conn_idents: &[&str] = if src.contains("self . get_conn ()") && !src.contains("self . pool") && !src.contains("Connection ::") { &["conn"] } else { &[] };
    let mut sc = BodyScan { facts: FnFacts::default(), conn_idents };
    sc.visit_block(block);
    let mut writes = vec![];
    let mut reads = false;
    for s in &sc.facts.sql {
        if let Some((w, t)) = classify_sql(s, name)? {
            if w {
                writes.extend(t);
            } else {
                reads = true;
            }
        }
    }
    writes.sort();
    writes.dedup();
    Ok(SqlFn { name: name.to_string(), lo, hi, foreign: sc.facts.foreign, writes, reads, calls_self: sc.facts.calls_self })
}

fn lit_sqls(block: &syn::Block) -> Vec<String> {
    let mut sc = BodyScan { facts: FnFacts::default(), conn_idents: &[] };
    sc.visit_block(block);
    sc.facts.sql
}

fn crash_storage(repo: &str, out: &str) -> Result<String, String> {
    let rel = "server/lib/src/be/idl_sqlite.rs";
    let ast = parse_file(repo, rel)?;
    // ---- every function that can run SQL on the write transaction -----------------------------
    let mut fns: Vec<SqlFn> = vec![];
    let mut saw_get_conn = false;
    for it in &ast.items {
        match it {
            syn::Item::Trait(t) if t.ident == "IdlSqliteTransaction" => {
                for ti in &t.items {
                    if let syn::TraitItem::Fn(f) = ti {
                        if let Some(b) = &f.default {
                            let sp = f.span();
                            fns.push(scan_fn(&f.sig.ident.to_string(), sp.start().line, sp.end().line, b)?);
                        }
                    }
                }
            }
            syn::Item::Impl(i) if toks(&i.self_ty) == "IdlSqliteWriteTransaction" => {
                let tr = i.trait_.as_ref().map(|(_, p, _)| p.segments.last().map(|s| s.ident.to_string()).unwrap_or_default());
                for ii in &i.items {
                    if let syn::ImplItem::Fn(f) = ii {
                        let name = f.sig.ident.to_string();
                        let sp = f.span();
                        match (tr.as_deref(), name.as_str()) {
                            (Some("IdlSqliteTransaction"), "get_conn") => {
                                saw_get_conn = true;
                                let body = toks(&f.block);
                                if !body.ends_with("self . conn . as_ref () . ok_or (OperationError :: TransactionAlreadyCommitted) }") {
                                    return Err(format!("get_conn of the write transaction no longer returns `self.conn`: `{body}`"));
                                }
                            }
                            (Some("IdlSqliteTransaction"), _) => {}
                            (Some("Drop"), _) => {
                                let sqls = lit_sqls(&f.block);
                                if !sqls.iter().any(|s| s == "ROLLBACK TRANSACTION") {
                                    return Err("Drop for IdlSqliteWriteTransaction no longer issues ROLLBACK TRANSACTION".into());
                                }
                            }
                            (None, "new") | (None, "commit") => {}
                            (None, _) => {
                                fns.push(scan_fn(&name, sp.start().line, sp.end().line, &f.block)?);
                            }
                            (Some(o), _) => return Err(format!("unexpected `impl {o} for IdlSqliteWriteTransaction`")),
                        }
                    }
                }
            }
            _ => {}
        }
    }
    if !saw_get_conn {
        return Err("impl IdlSqliteTransaction for IdlSqliteWriteTransaction::get_conn not found".into());
    }
    if fns.iter().filter(|f| !f.writes.is_empty()).count() < 10 {
        return Err(format!("only {} writing functions recognised in {rel}", fns.len()));
    }
    // a function that delegates to another one of these (`write_identry` -> `write_identries_raw`, `setup` ->
    // `create_*`) inherits the callee's tables and connection; `closure[i]` = i and everything it can reach
    let names: Vec<String> = fns.iter().map(|f| f.name.clone()).collect();
    let mut closure: Vec<Vec<usize>> = (0..fns.len()).map(|i| vec![i]).collect();
    loop {
        let mut changed = false;
        for i in 0..fns.len() {
            let mut add = vec![];
            for &j in &closure[i] {
                for c in &fns[j].calls_self {
                    if let Some(k) = names.iter().position(|n| n == c) {
                        if !closure[i].contains(&k) && !add.contains(&k) {
                            add.push(k);
                        }
                    }
                }
            }
            if !add.is_empty() {
                closure[i].extend(add);
                changed = true;
            }
        }
        if !changed {
            break;
        }
    }
    for c in closure.iter_mut() {
        c.sort();
    }
    // ---- BEGIN / COMMIT ---------------------------------------------------------------------
    let newf = find_fn(&ast, "IdlSqliteWriteTransaction::new")?;
    let new_sql: Vec<String> = lit_sqls(&newf.block).into_iter().filter(|s| classify_sql(s, "new").ok().flatten().is_some()).collect();
    let begin_mode = match new_sql.as_slice() {
        [s] if s == "BEGIN EXCLUSIVE TRANSACTION" => ".exclusive",
        [s] if s == "BEGIN IMMEDIATE TRANSACTION" => ".immediate",
        [s] if s == "BEGIN DEFERRED TRANSACTION" || s == "BEGIN TRANSACTION" => ".deferred",
        o => return Err(format!("IdlSqliteWriteTransaction::new: expected exactly one BEGIN statement, found {o:?}")),
    };
    let new_src = toks(&newf.block);
    if !new_src.contains("conn . execute (\"BEGIN") || !new_src.contains("conn : Some (conn)") {
        return Err("IdlSqliteWriteTransaction::new: BEGIN is not executed on the connection stored in the transaction".into());
    }
    let commitf = find_fn(&ast, "IdlSqliteWriteTransaction::commit")?;
    let commit_sql: Vec<String> = lit_sqls(&commitf.block).into_iter().filter(|s| classify_sql(s, "commit").ok().flatten().is_some()).collect();
    if commit_sql != ["COMMIT TRANSACTION"] {
        return Err(format!("IdlSqliteWriteTransaction::commit: expected exactly `COMMIT TRANSACTION`, found {commit_sql:?}"));
    }
    let commit_src = toks(&commitf.block);
    if !(commit_src.contains("std :: mem :: swap (& mut dropping , & mut self . conn)")
        && commit_src.contains("if let Some (conn) = dropping")
        && commit_src.contains("conn . execute (\"COMMIT TRANSACTION\""))
    {
        return Err("IdlSqliteWriteTransaction::commit: COMMIT is not executed on the transaction's own connection".into());
    }
    // ---- journal mode -----------------------------------------------------------------------
    let dbnew = find_fn(&ast, "IdlSqlite::new")?;
    let pragmas: Vec<String> = lit_sqls(&dbnew.block).into_iter().filter(|s| s.contains("journal_mode")).collect();
    let wal = pragmas.iter().any(|s| s.split_whitespace().collect::<String>().contains("PRAGMAjournal_mode=WAL;"));
    // `IdlSqlite::write` hands out a pooled connection, wrapped by `new` above
    let wsrc = toks(&find_fn(&ast, "IdlSqlite::write")?.block);
    if !wsrc.ends_with("IdlSqliteWriteTransaction :: new (self . pool . clone () , conn , self . db_name) }") {
        return Err("IdlSqlite::write no longer ends in IdlSqliteWriteTransaction::new(pool, conn, db_name)".into());
    }

    // ---- the arc layer: write-through calls and the commit order --------------------------------
    let arel = "server/lib/src/be/idl_arc_sqlite.rs";
    let aast = parse_file(repo, arel)?;
    let idx_of = |n: &str| -> Result<usize, String> { fns.iter().position(|f| f.name == n).ok_or(format!("`db.{n}` is not a function of the SQLite write transaction")) };
    // struct field `db: IdlSqliteWriteTransaction`
    let mut db_field_ok = false;
    for it in &aast.items {
        if let syn::Item::Struct(s) = it {
            if s.ident == "IdlArcSqliteWriteTransaction" {
                db_field_ok = s.fields.iter().any(|f| f.ident.as_ref().map(|i| i == "db").unwrap_or(false) && toks(&f.ty) == "IdlSqliteWriteTransaction");
            }
        }
    }
    if !db_field_ok {
        return Err("IdlArcSqliteWriteTransaction has no field `db: IdlSqliteWriteTransaction`".into());
    }
    let awrite = toks(&find_fn(&aast, "IdlArcSqlite::write")?.block);
    if awrite.matches("self . db . write ()").count() != 1 || !awrite.contains("db : db_write") {
        return Err("IdlArcSqlite::write: expected exactly one `self.db.write()?` stored as `db`".into());
    }
    // arc function -> SQLite functions it calls directly on `self.db`
    let mut arc_direct: BTreeMap<String, Vec<String>> = BTreeMap::new();
    for it in &aast.items {
        if let syn::Item::Impl(i) = it {
            if toks(&i.self_ty).starts_with("IdlArcSqliteWriteTransaction") {
                for ii in &i.items {
                    if let syn::ImplItem::Fn(f) = ii {
                        struct V(Vec<String>);
                        impl<'ast> Visit<'ast> for V {
                            fn visit_expr_method_call(&mut self, m: &'ast syn::ExprMethodCall) {
                                if toks(&m.receiver) == "self . db" {
                                    self.0.push(m.method.to_string());
                                }
                                syn::visit::visit_expr_method_call(self, m);
                            }
                        }
                        let mut v = V(vec![]);
                        v.visit_block(&f.block);
                        if !v.0.is_empty() {
                            arc_direct.entry(f.sig.ident.to_string()).or_default().extend(v.0);
                        }
                    }
                }
            }
        }
    }
    for (af, callees) in &arc_direct {
        for c in callees {
            if c != "commit" {
                idx_of(c).map_err(|e| format!("IdlArcSqliteWriteTransaction::{af}: {e}"))?;
            }
        }
    }
    // commit order
    let acommit = find_fn(&aast, "IdlArcSqliteWriteTransaction::commit")?;
    let mut arc_steps: Vec<String> = vec![];
    let mut arc_summary = vec![];
    let n = acommit.block.stmts.len();
    for (i, st) in acommit.block.stmts.iter().enumerate() {
        match st {
            Stmt::Local(l) => {
                let s = toks(l);
                if !s.starts_with("let IdlArcSqliteWriteTransaction {") {
                    return Err(format!("IdlArcSqliteWriteTransaction::commit: unexpected let `{s}`"));
                }
            }
            Stmt::Expr(e, semi) => {
                if i + 1 == n && semi.is_none() {
                    if toks(e) != "Ok (())" {
                        return Err(format!("IdlArcSqliteWriteTransaction::commit: tail is `{}`", toks(e)));
                    }
                    continue;
                }
                let s = toks(e);
                // `db.commit()?`
                if s == "db . commit () ?" {
                    arc_steps.push("  .dbCommit".into());
                    arc_summary.push("dbCommit".to_string());
                    continue;
                }
                // `<cell>.commit()`
                if let Expr::MethodCall(m) = e {
                    if m.method == "commit" && m.args.is_empty() && matches!(&*m.receiver, Expr::Path(_)) {
                        let cell = toks(&m.receiver);
                        if cell == "db" {
                            return Err("IdlArcSqliteWriteTransaction::commit: `db.commit()` without `?`".into());
                        }
                        arc_steps.push(format!("  .publish /- {cell} -/"));
                        arc_summary.push(format!("publish:{cell}"));
                        continue;
                    }
                }
                // `<cache>.iter_mut_mark_clean().try_for_each(|..| .. db.X(..) ..).map_err(..)?`
                if let Expr::Try(_) = e {
                    if s.contains("iter_mut_mark_clean ()") && s.contains("try_for_each") {
                        struct V(Vec<String>);
                        impl<'ast> Visit<'ast> for V {
                            fn visit_expr_method_call(&mut self, m: &'ast syn::ExprMethodCall) {
                                if toks(&m.receiver) == "db" {
                                    self.0.push(m.method.to_string());
                                }
                                syn::visit::visit_expr_method_call(self, m);
                            }
                        }
                        let mut v = V(vec![]);
                        v.visit_expr(e);
                        if v.0.is_empty() || v.0.iter().any(|c| c == "commit") {
                            return Err(format!("IdlArcSqliteWriteTransaction::commit: unrecognised flush `{s}`"));
                        }
                        let mut ids = vec![];
                        for c in &v.0 {
                            ids.extend(closure[idx_of(c)?].iter().copied());
                        }
                        ids.sort();
                        ids.dedup();
                        let cache = s.split(" . ").next().unwrap_or("?").to_string();
                        arc_steps.push(format!("  .flush [{}] /- {cache}: {} -/", ids.iter().map(|i| i.to_string()).collect::<Vec<_>>().join(", "), v.0.join(", ")));
                        arc_summary.push(format!("flush:{cache}"));
                        continue;
                    }
                }
                return Err(format!("IdlArcSqliteWriteTransaction::commit: unrecognised statement `{}`", s.chars().take(160).collect::<String>()));
            }
            Stmt::Macro(_) | Stmt::Item(_) => {}
        }
    }
    // ---- the backend layer ------------------------------------------------------------------------
    let brel = "server/lib/src/be/mod.rs";
    let bast = parse_file(repo, brel)?;
    let bcommit = find_fn(&bast, "BackendWriteTransaction::commit")?;
    let mut be_steps: Vec<String> = vec![];
    let mut be_summary = vec![];
    let resolve_arc = |arc_fn: &str| -> Result<Vec<usize>, String> {
        let callees = arc_direct.get(arc_fn).ok_or(format!("`idlayer.{arc_fn}` does not reach the SQLite transaction directly"))?;
        callees.iter().map(|c| idx_of(c)).collect::<Result<Vec<usize>, String>>()
    };
    let bn = bcommit.block.stmts.len();
    for (i, st) in bcommit.block.stmts.iter().enumerate() {
        match st {
            Stmt::Local(l) => {
                if !toks(l).starts_with("let BackendWriteTransaction {") {
                    return Err(format!("BackendWriteTransaction::commit: unexpected let `{}`", toks(l)));
                }
            }
            Stmt::Expr(e, semi) => {
                let s = toks(e);
                if i + 1 == bn && semi.is_none() {
                    // idlayer.commit().map(|()| { ruv.commit(); idxmeta_wr.commit(); })
                    let Expr::MethodCall(m) = e else { return Err(format!("BackendWriteTransaction::commit: tail `{s}`")) };
                    if m.method != "map" || toks(&m.receiver) != "idlayer . commit ()" {
                        return Err(format!("BackendWriteTransaction::commit: tail is not `idlayer.commit().map(..)`: `{s}`"));
                    }
                    be_steps.push("  .idlCommit".into());
                    be_summary.push("idlCommit".to_string());
                    let Some(Expr::Closure(c)) = m.args.first() else { return Err("BackendWriteTransaction::commit: map argument is not a closure".into()) };
                    let Expr::Block(b) = &*c.body else { return Err("BackendWriteTransaction::commit: closure body is not a block".into()) };
                    for st in &b.block.stmts {
                        match st {
                            Stmt::Expr(Expr::MethodCall(pm), _) if pm.method == "commit" && pm.args.is_empty() && matches!(&*pm.receiver, Expr::Path(_)) => {
                                be_steps.push(format!("  .publish /- {} -/", toks(&pm.receiver)));
                                be_summary.push(format!("publish:{}", toks(&pm.receiver)));
                            }
                            o => return Err(format!("BackendWriteTransaction::commit: unrecognised publication `{}`", toks(o))),
                        }
                    }
                    continue;
                }
                // `idlayer.<fn>(..)?`
                if let Expr::Try(t) = e {
                    if let Expr::MethodCall(m) = &*t.expr {
                        if toks(&m.receiver) == "idlayer" && m.method != "commit" {
                            let ids = resolve_arc(&m.method.to_string())?;
                            for id in ids {
                                be_steps.push(format!("  .direct {id} /- idlayer.{} -/", m.method));
                            }
                            be_summary.push(format!("direct:{}", m.method));
                            continue;
                        }
                    }
                }
                return Err(format!("BackendWriteTransaction::commit: unrecognised statement `{s}`"));
            }
            Stmt::Macro(_) | Stmt::Item(_) => {}
        }
    }
    // `BackendWriteTransaction::set_db_ts_max` -> idlayer.set_db_ts_max -> db.set_db_ts_max
    let bts = toks(&find_fn(&bast, "BackendWriteTransaction::set_db_ts_max")?.block);
    if bts != "{ self . get_idlayer () . set_db_ts_max (ts) }" {
        return Err(format!("BackendWriteTransaction::set_db_ts_max: `{bts}`"));
    }
    let ts_fns = resolve_arc("set_db_ts_max")?;
    let [ts_fn] = ts_fns.as_slice() else { return Err("IdlArcSqliteWriteTransaction::set_db_ts_max: expected one call on self.db".into()) };
    // ---- startup: Backend::new and ruv_reload -------------------------------------------------------
    let bnew = toks(&find_fn(&bast, "Backend::new")?.block);
    let p_setup = bnew.find("idl_write . setup () . and_then (| _ | idl_write . commit ())");
    let p_ruv = bnew.find("be_write . ruv_reload () . and_then (| _ | be_write . commit ())");
    match (p_setup, p_ruv) {
        (Some(a), Some(b)) if a < b => {}
        _ => return Err("Backend::new: expected `idl_write.setup().and_then(|_| idl_write.commit())` then `be_write.ruv_reload().and_then(|_| be_write.commit())`".into()),
    }
    let rr = toks(&find_fn(&bast, "BackendWriteTransaction::ruv_reload")?.block);
    let (p1, p2, p3) = (rr.find("idlayer . get_db_ruv () ?"), rr.find("self . get_ruv () . restore (db_ruv) ?"), rr.find("self . ruv_rebuild ()"));
    match (p1, p2, p3) {
        (Some(a), Some(b), Some(c)) if a < b && b < c => {}
        _ => return Err(format!("BackendWriteTransaction::ruv_reload: expected get_db_ruv, restore(db_ruv), ruv_rebuild in this order: `{rr}`")),
    }
    let rb = toks(&find_fn(&bast, "BackendWriteTransaction::ruv_rebuild")?.block);
    if !(rb.contains("let idl = IdList :: AllIds ;") && rb.contains("self . get_ruv () . rebuild (& entries) ?")) {
        return Err("BackendWriteTransaction::ruv_rebuild no longer rebuilds from all entries".into());
    }

    // ---- emit ----------------------------------------------------------------------------------------
    let mut body = String::from("namespace Kanidm.Gen.Crash\n");
    body += "/-- The tables of the database, by role. -/\ninductive Tbl where\n";
    for t in ALL_TBL {
        body += &format!("  | {t}\n");
    }
    body += "deriving DecidableEq, Repr\n";
    body += "/-- Which connection a function's SQL runs on: the write transaction's own (`self.get_conn()`), or anything else. -/\n";
    body += "inductive ConnSrc where\n  | txn\n  | other\nderiving DecidableEq, Repr\n";
    body += "structure SqlFn where\n  /-- first and last source line -/\n  lo : Nat\n  hi : Nat\n  conn : ConnSrc\n  writes : List Tbl\nderiving DecidableEq, Repr\n";
    body += "/-- Every function that issues SQL on the write transaction: default methods of `trait IdlSqliteTransaction` and\nthe methods of `impl IdlSqliteWriteTransaction` (except `new` / `commit`), in source order. -/\n";
    body += "def sqliteFns : List SqlFn := [\n";
    for (i, f) in fns.iter().enumerate() {
        let mut tw: Vec<&'static str> = closure[i].iter().flat_map(|j| fns[*j].writes.iter().copied()).collect();
        tw.sort();
        tw.dedup();
        let foreign_any = closure[i].iter().any(|j| !fns[*j].foreign.is_empty());
        body += &format!(
            "  ⟨{}, {}, {}, [{}]⟩{} -- {} `{}`{}{}\n",
            f.lo,
            f.hi,
            if !foreign_any { ".txn" } else { ".other" },
            tw.iter().map(|t| format!(".{t}")).collect::<Vec<_>>().join(", "),
            if i + 1 == fns.len() { "" } else { "," },
            i,
            f.name,
            if f.reads { " (reads)" } else { "" },
            if f.foreign.is_empty() { String::new() } else { format!(" FOREIGN CONNECTION: {:?}", f.foreign) }
        );
    }
    body += "]\n";
    body += &format!("def fnNames : List String := [{}]\n", fns.iter().map(|f| format!("\"{}\"", f.name)).collect::<Vec<_>>().join(", "));
    body += "inductive BeginMode where\n  | deferred\n  | immediate\n  | exclusive\nderiving DecidableEq, Repr\n";
    body += &format!("/-- `IdlSqliteWriteTransaction::new`: `{}` on the connection the transaction keeps. -/\ndef beginMode : BeginMode := {begin_mode}\n", new_sql[0]);
    body += &format!("/-- `IdlSqlite::new` pragmas mentioning the journal: {:?} -/\ndef journalWal : Bool := {wal}\n", pragmas.iter().map(|p| p.split_whitespace().collect::<Vec<_>>().join(" ")).collect::<Vec<_>>());
    body += "/-- Steps of `IdlArcSqliteWriteTransaction::commit`, in source order: flush a dirty cache through the listed\nSQLite functions, `db.commit()?`, or publish an in-memory cell. -/\n";
    body += "inductive ArcStep where\n  | flush (fns : List Nat)\n  | dbCommit\n  | publish\nderiving DecidableEq, Repr\n";
    body += &format!("def arcCommitSteps : List ArcStep := [\n{}\n]\n", join_steps(&arc_steps));
    body += "/-- Steps of `BackendWriteTransaction::commit`: a write-through call, `idlayer.commit()`, publications. -/\n";
    body += "inductive BeStep where\n  | direct (fn : Nat)\n  | idlCommit\n  | publish\nderiving DecidableEq, Repr\n";
    body += &format!("def beCommitSteps : List BeStep := [\n{}\n]\n", join_steps(&be_steps));
    body += &format!("/-- `be_txn.set_db_ts_max(ts)` → `idlayer.set_db_ts_max` → `db.set_db_ts_max`: index into `sqliteFns`. -/\ndef tsMaxFn : Nat := {ts_fn}\n");
    body += "/-- Startup (`Backend::new`): the setup transaction, then `ruv_reload` (= load `db_ruv`, restore, rebuild from ALL\nentries) committed in a second transaction; nothing is read from memory. -/\n";
    body += "inductive StartStep where\n  | setupTxn\n  | loadDbRuv\n  | restoreRuv\n  | rebuildRuvFromEntries\n  | commitRuvTxn\nderiving DecidableEq, Repr\n";
    body += "def startupSteps : List StartStep := [.setupTxn, .loadDbRuv, .restoreRuv, .rebuildRuvFromEntries, .commitRuvTxn]\n";
    body += "end Kanidm.Gen.Crash\n";
    write_generated(
        out,
        "CrashOps",
        &format!("{rel} (trait IdlSqliteTransaction, impl IdlSqliteWriteTransaction, IdlSqlite::new/write), {arel} (IdlArcSqliteWriteTransaction), {brel} (BackendWriteTransaction::commit, Backend::new, ruv_reload)"),
        &body,
    )?;
    Ok(format!(
        "CrashOps: {} fns ({} writing, {} foreign), begin {begin_mode}, wal {wal}, arc [{}], be [{}]",
        fns.len(),
        fns.iter().filter(|f| !f.writes.is_empty()).count(),
        fns.iter().filter(|f| !f.foreign.is_empty()).count(),
        arc_summary.join(", "),
        be_summary.join(", ")
    ))
}

/// `a /- c -/` lines joined by commas placed before the trailing comment.
fn join_steps(steps: &[String]) -> String {
    steps
        .iter()
        .enumerate()
        .map(|(i, s)| {
            if i + 1 == steps.len() {
                s.clone()
            } else {
                match s.find(" /-") {
                    Some(p) => format!("{},{}", &s[..p], &s[p..]),
                    None => format!("{s},"),
                }
            }
        })
        .collect::<Vec<_>>()
        .join("\n")
}
