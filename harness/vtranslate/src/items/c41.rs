//! C41 translator item `proto-filter-tables`: regenerates `KanidmModel/Generated/ProtoFilterTables.lean`
//! from
//!   * `server/lib/src/filter.rs`  `FilterComp::from_ldap_ro` (one arm kind per `LdapFilter` variant; for
//!     `Substring` the constructor pushed for initial / any / final and the wrapper of the term list),
//!     `FilterComp::from_scim_ro` (per attribute operator: rejected, or [ordering guard] [value resolution]
//!     + the `FilterComp` expression as a template tree), `FilterComp::scim_ordering_supported` (the
//!     `matches!` list of orderable syntaxes and the acceptance condition), and the two public wrappers
//!     (depth constant, element budget);
//!   * `server/lib/src/idm/ldap.rs` `ldap_vattr_map` (alias table, constants resolved from
//!     `proto/src/constants.rs`) and `ldap_attr_filter_map` (frame pinned);
//!   * `server/lib/src/server/mod.rs` `resolve_scim_json_get` (which syntaxes have an arm);
//!   * `server/lib/src/value.rs` `SyntaxType` discriminants; `server/lib/src/constants/mod.rs`
//!     `DEFAULT_LIMIT_FILTER_DEPTH_MAX`.
//! Frames around the regenerated parts are pinned token by token; any other shape is an `Err`.
use crate::util::*;
use quote::ToTokens;
use std::collections::BTreeMap;
use syn::visit::Visit;

pub fn run(item: &str, repo: &str, out: &str) -> Option<Result<String, String>> {
    match item {
        "proto-filter-tables" => Some(tables(repo, out)),
        _ => None,
    }
}

fn toks<T: ToTokens>(t: &T) -> String {
    t.to_token_stream().to_string()
}
fn squash(s: &str) -> String {
    s.chars().filter(|c| !c.is_whitespace()).collect()
}
fn sq<T: ToTokens>(t: &T) -> String {
    squash(&toks(t))
}

fn bytes(s: &str) -> String {
    format!("[{}]", s.bytes().map(|b| b.to_string()).collect::<Vec<_>>().join(", "))
}

struct Matches(Vec<syn::ExprMatch>);
impl<'ast> Visit<'ast> for Matches {
    fn visit_expr_match(&mut self, m: &'ast syn::ExprMatch) {
        self.0.push(m.clone());
        syn::visit::visit_expr_match(self, m);
    }
}

fn str_consts(file: &syn::File) -> BTreeMap<String, String> {
    let mut m = BTreeMap::new();
    for it in &file.items {
        if let syn::Item::Const(c) = it {
            if let syn::Expr::Lit(l) = &*c.expr {
                if let syn::Lit::Str(s) = &l.lit {
                    m.insert(c.ident.to_string(), s.value());
                }
            }
        }
    }
    m
}

fn last_ident(p: &syn::Path) -> String {
    p.segments.last().map(|s| s.ident.to_string()).unwrap_or_default()
}

/// `A | B | C` (paths) → names
fn pat_names(p: &syn::Pat) -> Result<Vec<String>, String> {
    match p {
        syn::Pat::Or(o) => {
            let mut v = vec![];
            for c in &o.cases {
                v.extend(pat_names(c)?);
            }
            Ok(v)
        }
        syn::Pat::Path(pp) => Ok(vec![last_ident(&pp.path)]),
        syn::Pat::Ident(i) if i.subpat.is_none() => Ok(vec![i.ident.to_string()]),
        other => Err(format!("unsupported pattern {}", toks(other))),
    }
}

fn unblock(e: &syn::Expr) -> &syn::Expr {
    match e {
        syn::Expr::Block(b) if b.block.stmts.len() == 1 => match &b.block.stmts[0] {
            syn::Stmt::Expr(inner, None) => unblock(inner),
            _ => e,
        },
        _ => e,
    }
}

/// the elements of a `vec![a, b, c]`
fn vec_elems(e: &syn::Expr) -> Result<Vec<syn::Expr>, String> {
    match e {
        syn::Expr::Macro(m) if last_ident(&m.mac.path) == "vec" => {
            let p = m
                .mac
                .parse_body_with(syn::punctuated::Punctuated::<syn::Expr, syn::Token![,]>::parse_terminated)
                .map_err(|e| format!("vec! body: {e}"))?;
            Ok(p.into_iter().collect())
        }
        other => Err(format!("expected vec![..], found {}", toks(other))),
    }
}

/// `FilterComp::X(..)` expression over `a` and `pv` → template
fn tmpl(e: &syn::Expr) -> Result<String, String> {
    let e = unblock(e);
    let syn::Expr::Call(c) = e else { return Err(format!("template: not a constructor call: {}", toks(e))) };
    let syn::Expr::Path(p) = &*c.func else { return Err(format!("template: callee {}", toks(&c.func))) };
    if p.path.segments.len() != 2 || p.path.segments[0].ident != "FilterComp" {
        return Err(format!("template: callee {}", toks(&c.func)));
    }
    let name = last_ident(&p.path);
    let args: Vec<String> = c.args.iter().map(|a| sq(a)).collect();
    let attr_ok = |s: &str| s == "a.clone()";
    let val_ok = |s: &str| s == "pv.clone()" || s == "pv";
    let leaf = |lean: &str| -> Result<String, String> {
        if args.len() == 2 && attr_ok(&args[0]) && val_ok(&args[1]) {
            Ok(format!(".{lean}"))
        } else {
            Err(format!("template: arguments of {name}: {args:?}"))
        }
    };
    match name.as_str() {
        "Pres" => {
            if args.len() == 1 && attr_ok(&args[0]) {
                Ok(".pres".into())
            } else {
                Err(format!("template: arguments of Pres: {args:?}"))
            }
        }
        "Eq" => leaf("eq"),
        "Cnt" => leaf("cnt"),
        "Stw" => leaf("stw"),
        "Enw" => leaf("enw"),
        "LessThan" => leaf("lt"),
        "And" | "Or" => {
            if c.args.len() != 1 {
                return Err(format!("template: {name} with {} arguments", c.args.len()));
            }
            let items = vec_elems(&c.args[0])?;
            let inner: Result<Vec<String>, String> = items.iter().map(tmpl).collect();
            Ok(format!("(.{} [{}])", name.to_lowercase(), inner?.join(", ")))
        }
        "AndNot" => {
            if c.args.len() != 1 {
                return Err("template: AndNot arity".into());
            }
            // Box::new(X)
            let syn::Expr::Call(b) = &c.args[0] else { return Err(format!("template: AndNot argument {}", toks(&c.args[0]))) };
            if sq(&b.func) != "Box::new" || b.args.len() != 1 {
                return Err(format!("template: AndNot argument {}", toks(&c.args[0])));
            }
            Ok(format!("(.not {})", tmpl(&b.args[0])?))
        }
        other => Err(format!("template: constructor {other}")),
    }
}

fn is_reject(body: &syn::Expr) -> bool {
    // `{ <log macro>!(...); return Err(OperationError::FilterGeneration); }`
    let syn::Expr::Block(b) = body else { return false };
    if b.block.stmts.len() != 2 {
        return false;
    }
    let first_is_log = matches!(&b.block.stmts[0], syn::Stmt::Macro(m) if ["admin_error", "error"].contains(&last_ident(&m.mac.path).as_str()));
    first_is_log && sq(&b.block.stmts[1]) == "returnErr(OperationError::FilterGeneration);"
}

/// variant name and the squashed inner patterns of `Enum::Variant(p1, p2, ..)` / `Enum::Variant`
fn variant_of(p: &syn::Pat, en: &str) -> Result<(String, Vec<String>), String> {
    match p {
        syn::Pat::TupleStruct(ts) if ts.path.segments.len() == 2 && ts.path.segments[0].ident == en => {
            Ok((last_ident(&ts.path), ts.elems.iter().map(|e| sq(e)).collect()))
        }
        syn::Pat::Path(pp) if pp.path.segments.len() == 2 && pp.path.segments[0].ident == en => Ok((last_ident(&pp.path), vec![])),
        other => Err(format!("unsupported arm pattern {}", toks(other))),
    }
}

fn sub_kind(name: &str) -> Result<&'static str, String> {
    match name {
        "Stw" => Ok(".stw"),
        "Cnt" => Ok(".cnt"),
        "Enw" => Ok(".enw"),
        o => Err(format!("substring term constructor {o}")),
    }
}

const PRELUDE: &str = "letndepth=depth.checked_sub(1).ok_or(OperationError::ResourceLimit)?;*elems=(*elems).checked_sub(1).ok_or(OperationError::ResourceLimit)?;";

fn ldap_arms(ast: &syn::File) -> Result<String, String> {
    let f = find_fn(ast, "FilterComp::from_ldap_ro")?;
    let body = sq(&f.block);
    if !body.starts_with(&format!("{{{PRELUDE}Ok(matchf{{")) {
        return Err("from_ldap_ro: the depth/element prelude or `Ok(match f {` frame changed".into());
    }
    let mut ms = Matches(vec![]);
    ms.visit_block(&f.block);
    let m = ms.0.iter().find(|m| sq(&m.expr) == "f").ok_or("from_ldap_ro: no `match f`")?;
    let rec_list = |k: &str| format!("FilterComp::{k}(l.iter().map(|f|Self::from_ldap_ro(f,qs,ndepth,elems)).collect::<Result<Vec<_>,_>>()?,)");
    let mut out: BTreeMap<String, String> = BTreeMap::new();
    for arm in &m.arms {
        if arm.guard.is_some() {
            return Err("from_ldap_ro: guarded arm".into());
        }
        let (v, pats) = variant_of(&arm.pat, "LdapFilter")?;
        let b = sq(&arm.body);
        let val = match v.as_str() {
            "And" | "Or" => {
                if pats != ["l"] {
                    return Err(format!("from_ldap_ro {v}: pattern {pats:?}"));
                }
                if b == rec_list("And") {
                    ".group .and".to_string()
                } else if b == rec_list("Or") {
                    ".group .or".to_string()
                } else if is_reject(&arm.body) {
                    ".reject".to_string()
                } else {
                    return Err(format!("from_ldap_ro {v}: unrecognised body {}", toks(&arm.body)));
                }
            }
            "Not" => {
                if b == "{FilterComp::AndNot(Box::new(Self::from_ldap_ro(l,qs,ndepth,elems)?))}" && pats == ["l"] {
                    ".neg".to_string()
                } else if is_reject(&arm.body) {
                    ".reject".to_string()
                } else {
                    return Err(format!("from_ldap_ro Not: unrecognised body {}", toks(&arm.body)));
                }
            }
            "Equality" | "GreaterOrEqual" | "LessOrEqual" | "Approx" => {
                let eq_spn = "{leta=ldap_attr_filter_map(a);letpv=qs.clone_partialvalue(&a,v);matchpv{Ok(pv)=>FilterComp::Eq(a,pv),Err(_)ifa==Attribute::Spn=>FilterComp::Invalid(a),Err(err)=>returnErr(err),}}";
                let eq_plain = "{leta=ldap_attr_filter_map(a);letpv=qs.clone_partialvalue(&a,v)?;FilterComp::Eq(a,pv)}";
                if is_reject(&arm.body) {
                    ".reject".to_string()
                } else if b == eq_spn && pats == ["a", "v"] {
                    ".eq true".to_string()
                } else if b == eq_plain && pats == ["a", "v"] {
                    ".eq false".to_string()
                } else {
                    return Err(format!("from_ldap_ro {v}: unrecognised body {}", toks(&arm.body)));
                }
            }
            "Present" => {
                if b == "FilterComp::Pres(ldap_attr_filter_map(a))" && pats == ["a"] {
                    ".pres".to_string()
                } else if is_reject(&arm.body) {
                    ".reject".to_string()
                } else {
                    return Err(format!("from_ldap_ro Present: unrecognised body {}", toks(&arm.body)));
                }
            }
            "Substring" => {
                if is_reject(&arm.body) {
                    ".reject".to_string()
                } else {
                    if pats != ["a", "LdapSubstringFilter{initial,any,final_,}"] {
                        return Err(format!("from_ldap_ro Substring: pattern {pats:?}"));
                    }
                    // frame with three holes for the constructors and one for the wrapper
                    let frame = |i: &str, a: &str, f: &str, w: &str| {
                        format!(
                            "{{leta=ldap_attr_filter_map(a);letmutterms=Vec::with_capacity(any.len()+2);ifletSome(ini)=initial{{letv=qs.clone_partialvalue(&a,ini)?;terms.push(FilterComp::{i}(a.clone(),v));}}forterminany.iter(){{letv=qs.clone_partialvalue(&a,term)?;terms.push(FilterComp::{a}(a.clone(),v));}}ifletSome(fin)=final_{{letv=qs.clone_partialvalue(&a,fin)?;terms.push(FilterComp::{f}(a.clone(),v));}}FilterComp::{w}(terms)}}"
                        )
                    };
                    let ks = ["Stw", "Cnt", "Enw"];
                    let mut found = None;
                    for i in ks {
                        for a in ks {
                            for f in ks {
                                for w in ["And", "Or"] {
                                    if b == frame(i, a, f, w) {
                                        found = Some((i, a, f, w));
                                    }
                                }
                            }
                        }
                    }
                    let (i, a, f, w) = found.ok_or_else(|| format!("from_ldap_ro Substring: unrecognised body {}", toks(&arm.body)))?;
                    format!(".sub {} {} {} .{}", sub_kind(i)?, sub_kind(a)?, sub_kind(f)?, w.to_lowercase())
                }
            }
            "Extensible" => {
                if is_reject(&arm.body) {
                    "true".to_string()
                } else {
                    return Err("from_ldap_ro Extensible: only a rejecting arm is modelled".into());
                }
            }
            other => return Err(format!("from_ldap_ro: unknown LdapFilter variant {other}")),
        };
        if out.insert(v.clone(), val).is_some() {
            return Err(format!("from_ldap_ro: variant {v} matched twice"));
        }
    }
    let want = ["And", "Or", "Not", "Equality", "Substring", "GreaterOrEqual", "LessOrEqual", "Present", "Approx", "Extensible"];
    for w in want {
        if !out.contains_key(w) {
            return Err(format!("from_ldap_ro: no arm for {w}"));
        }
    }
    if out.len() != want.len() {
        return Err("from_ldap_ro: unexpected extra arms".into());
    }
    let mut s = String::from("/-! ### `FilterComp::from_ldap_ro`: one arm per `LdapFilter` variant -/\n");
    s += &format!("def ldapAndArm : ListArm := {}\n", out["And"]);
    s += &format!("def ldapOrArm : ListArm := {}\n", out["Or"]);
    s += &format!("def ldapNotArm : BoxArm := {}\n", out["Not"]);
    s += &format!("def ldapEqualityArm : AvArm := {}\n", out["Equality"]);
    s += &format!("def ldapSubstringArm : SubArm := {}\n", out["Substring"]);
    s += &format!("def ldapGeArm : AvArm := {}\n", out["GreaterOrEqual"]);
    s += &format!("def ldapLeArm : AvArm := {}\n", out["LessOrEqual"]);
    s += &format!("def ldapPresentArm : AArm := {}\n", out["Present"]);
    s += &format!("def ldapApproxArm : AvArm := {}\n", out["Approx"]);
    s += &format!("def ldapExtensibleRejected : Bool := {}\n", out["Extensible"]);
    Ok(s)
}

fn scim_op(v: &str) -> Option<&'static str> {
    Some(match v {
        "Present" => "pr",
        "Equal" => "eq",
        "NotEqual" => "ne",
        "Contains" => "co",
        "StartsWith" => "sw",
        "EndsWith" => "ew",
        "Greater" => "gt",
        "Less" => "lt",
        "GreaterOrEqual" => "ge",
        "LessOrEqual" => "le",
        _ => return None,
    })
}

fn scim_arms(ast: &syn::File) -> Result<String, String> {
    let f = find_fn(ast, "FilterComp::from_scim_ro")?;
    let body = sq(&f.block);
    if !body.starts_with(&format!("{{{PRELUDE}Ok(matchf{{")) {
        return Err("from_scim_ro: the depth/element prelude or `Ok(match f {` frame changed".into());
    }
    let mut ms = Matches(vec![]);
    ms.visit_block(&f.block);
    let m = ms.0.iter().find(|m| sq(&m.expr) == "f").ok_or("from_scim_ro: no `match f`")?;
    let mut ops: BTreeMap<String, String> = BTreeMap::new();
    let mut sub_rejected: Vec<String> = vec![];
    let mut seen_struct = 0;
    for arm in &m.arms {
        if arm.guard.is_some() {
            return Err("from_scim_ro: guarded arm".into());
        }
        let alts: Vec<&syn::Pat> = match &arm.pat {
            syn::Pat::Or(o) => o.cases.iter().collect(),
            p => vec![p],
        };
        let first = variant_of(alts[0], "ScimFilter")?;
        match first.0.as_str() {
            "Not" => {
                if alts.len() != 1 || first.1 != ["f"] || sq(&arm.body) != "{letf=Self::from_scim_ro(f,qs,ndepth,elems)?;FilterComp::AndNot(Box::new(f))}" {
                    return Err(format!("from_scim_ro Not: unrecognised arm {}", toks(&arm.body)));
                }
                seen_struct += 1;
            }
            "Or" | "And" => {
                let k = first.0.as_str();
                let want = format!("{{letleft=Self::from_scim_ro(left,qs,ndepth,elems)?;letright=Self::from_scim_ro(right,qs,ndepth,elems)?;FilterComp::{k}(vec![left,right])}}");
                if alts.len() != 1 || first.1 != ["left", "right"] || sq(&arm.body) != want {
                    return Err(format!("from_scim_ro {k}: unrecognised arm {}", toks(&arm.body)));
                }
                seen_struct += 1;
            }
            "Complex" => {
                if alts.len() != 1 || first.1 != [".."] || !is_reject(&arm.body) {
                    return Err("from_scim_ro Complex: only a rejecting arm is modelled".into());
                }
                seen_struct += 1;
            }
            _ => {
                // attribute operator arms
                for alt in &alts {
                    let (v, pats) = variant_of(alt, "ScimFilter")?;
                    let op = scim_op(&v).ok_or(format!("from_scim_ro: unknown variant {v}"))?;
                    let path = pats.first().cloned().unwrap_or_default();
                    let with_sub = match path.as_str() {
                        "ScimAttrPath{a,s:None}" | "ScimAttrPath{s:None,..}" => false,
                        "ScimAttrPath{s:Some(_),..}" => true,
                        o => return Err(format!("from_scim_ro {v}: attribute path pattern {o}")),
                    };
                    if with_sub {
                        if !is_reject(&arm.body) {
                            return Err(format!("from_scim_ro {v} with sub-attribute: only a rejecting arm is modelled"));
                        }
                        sub_rejected.push(op.to_string());
                        continue;
                    }
                    if alts.len() != 1 {
                        return Err(format!("from_scim_ro {v}: or-pattern on a translating arm"));
                    }
                    let val = if is_reject(&arm.body) {
                        ".reject".to_string()
                    } else {
                        if path != "ScimAttrPath{a,s:None}" {
                            return Err(format!("from_scim_ro {v}: translating arm must bind `a`"));
                        }
                        // statements: [guard] [resolve] template
                        let stmts: Vec<syn::Stmt> = match &*arm.body {
                            syn::Expr::Block(b) => b.block.stmts.clone(),
                            e => vec![syn::Stmt::Expr(e.clone(), None)],
                        };
                        let mut guard = false;
                        let mut resolve = false;
                        let mut i = 0;
                        if i < stmts.len() && sq(&stmts[i]) == "Self::scim_ordering_supported(a,qs)?;" {
                            guard = true;
                            i += 1;
                        }
                        if i < stmts.len() && sq(&stmts[i]) == "letpv=qs.resolve_scim_json_get(a,json_value)?;" {
                            resolve = true;
                            i += 1;
                        }
                        if i + 1 != stmts.len() {
                            return Err(format!("from_scim_ro {v}: unrecognised statements in {}", toks(&arm.body)));
                        }
                        let syn::Stmt::Expr(e, None) = &stmts[i] else { return Err(format!("from_scim_ro {v}: no tail expression")) };
                        let t = tmpl(e)?;
                        if !resolve && t != ".pres" {
                            return Err(format!("from_scim_ro {v}: template uses a value that is never resolved"));
                        }
                        if resolve && pats.get(1).map(|s| s.as_str()) != Some("json_value") {
                            return Err(format!("from_scim_ro {v}: value binding {pats:?}"));
                        }
                        format!(".tr {guard} {resolve} {t}")
                    };
                    if ops.insert(op.to_string(), val).is_some() {
                        return Err(format!("from_scim_ro: operator {op} matched twice"));
                    }
                }
            }
        }
    }
    if seen_struct != 4 {
        return Err(format!("from_scim_ro: expected the Not / Or / And / Complex arms, found {seen_struct}"));
    }
    let all = ["pr", "eq", "ne", "co", "sw", "ew", "gt", "lt", "ge", "le"];
    let mut sr = sub_rejected.clone();
    sr.sort();
    let mut want = all.map(|s| s.to_string()).to_vec();
    want.sort();
    if sr != want {
        return Err(format!("from_scim_ro: sub-attribute arms reject {sr:?}, expected all ten operators"));
    }
    let mut s = String::from("/-! ### `FilterComp::from_scim_ro`: one arm per attribute operator (path without sub-attribute);\nthe Not / Or / And / Complex arms and the rejection of every sub-attribute path are pinned by the translator -/\ndef scimArm : SOp → SArm\n");
    for op in all {
        let v = ops.get(op).ok_or(format!("from_scim_ro: no arm for operator {op}"))?;
        s += &format!("  | .{op} => {v}\n");
    }
    Ok(s)
}

fn ordering(ast: &syn::File, syn_ids: &BTreeMap<String, u64>) -> Result<String, String> {
    let f = find_fn(ast, "FilterComp::scim_ordering_supported")?;
    let body = sq(&f.block);
    for needle in [
        "letschema=qs.get_schema();letSome(schema_a)=schema.get_attributes().get(attr)else{returnErr(OperationError::InvalidAttributeName(attr.to_string()));};",
        "letorderable=matches!(schema_a.syntax,",
        "Err(OperationError::FilterGeneration)}}",
    ] {
        if !body.contains(needle) {
            return Err(format!("scim_ordering_supported: expected `{needle}`"));
        }
    }
    // the matches! list
    struct Macs(Vec<syn::Macro>);
    impl<'ast> Visit<'ast> for Macs {
        fn visit_macro(&mut self, m: &'ast syn::Macro) {
            self.0.push(m.clone());
        }
    }
    let mut mv = Macs(vec![]);
    mv.visit_block(&f.block);
    let mm = mv.0.iter().find(|m| last_ident(&m.path) == "matches").ok_or("scim_ordering_supported: no matches!")?;
    let t = squash(&mm.tokens.to_string());
    let rest = t.strip_prefix("schema_a.syntax,").ok_or("scim_ordering_supported: matches! scrutinee")?;
    let mut ids = vec![];
    let mut names = vec![];
    for part in rest.split('|') {
        let n = part.strip_prefix("SyntaxType::").ok_or(format!("scim_ordering_supported: pattern {part}"))?;
        let id = syn_ids.get(n).ok_or(format!("scim_ordering_supported: unknown syntax {n}"))?;
        ids.push(id.to_string());
        names.push(n.to_string());
    }
    // the condition
    let conds = if_conditions(&f.block);
    if conds.len() != 1 {
        return Err(format!("scim_ordering_supported: {} if-conditions", conds.len()));
    }
    let cond = lean_expr(&conds[0], &crate::items::vars(&[("orderable", "orderable"), ("schema_a.multivalue", "multivalue")]))?;
    // which branch accepts
    let ifs = {
        struct Ifs(Vec<syn::ExprIf>);
        impl<'ast> Visit<'ast> for Ifs {
            fn visit_expr_if(&mut self, i: &'ast syn::ExprIf) {
                self.0.push(i.clone());
            }
        }
        let mut v = Ifs(vec![]);
        v.visit_block(&f.block);
        v.0
    };
    if sq(&ifs[0].then_branch) != "{Ok(())}" {
        return Err("scim_ordering_supported: the then-branch must be the accepting one".into());
    }
    Ok(format!(
        "/-! ### `FilterComp::scim_ordering_supported` -/\n/-- the `matches!` list: {} -/\ndef orderableSyn : List Nat := [{}]\n/-- the acceptance condition -/\ndef scimOrderingCond (orderable multivalue : Bool) : Bool := {}\n",
        names.join(", "),
        ids.join(", "),
        cond
    ))
}

fn syntax_ids(repo: &str) -> Result<BTreeMap<String, u64>, String> {
    let ast = parse_file(repo, "server/lib/src/value.rs")?;
    for it in &ast.items {
        if let syn::Item::Enum(e) = it {
            if e.ident == "SyntaxType" {
                let mut m = BTreeMap::new();
                for v in &e.variants {
                    let (_, d) = v.discriminant.as_ref().ok_or(format!("SyntaxType::{} has no explicit discriminant", v.ident))?;
                    let n = eval_int(d, &|_| None)?;
                    m.insert(v.ident.to_string(), n as u64);
                }
                return Ok(m);
            }
        }
    }
    Err("enum SyntaxType not found in value.rs".into())
}

fn scim_resolvable(repo: &str, syn_ids: &BTreeMap<String, u64>) -> Result<String, String> {
    let ast = parse_file(repo, "server/lib/src/server/mod.rs")?;
    let f = find_fn(&ast, "QueryServerTransaction::resolve_scim_json_get")?;
    let body = sq(&f.block);
    if !body.contains("letSome(schema_a)=schema.get_attributes().get(attr)else{returnErr(OperationError::InvalidAttributeName(attr.to_string()));};") {
        return Err("resolve_scim_json_get: unknown-attribute frame changed".into());
    }
    let mut ms = Matches(vec![]);
    ms.visit_block(&f.block);
    let m = ms.0.iter().find(|m| sq(&m.expr) == "schema_a.syntax").ok_or("resolve_scim_json_get: no match on schema_a.syntax")?;
    let mut names = vec![];
    let mut wild = false;
    for arm in &m.arms {
        if matches!(arm.pat, syn::Pat::Wild(_)) {
            if sq(&arm.body) != "Err(OperationError::InvalidAttribute(attr.to_string()))" {
                return Err("resolve_scim_json_get: the wildcard arm must be the InvalidAttribute error".into());
            }
            wild = true;
            continue;
        }
        names.extend(pat_names(&arm.pat)?);
    }
    if !wild {
        return Err("resolve_scim_json_get: no wildcard arm".into());
    }
    let mut ids = vec![];
    for n in &names {
        ids.push(syn_ids.get(n).ok_or(format!("resolve_scim_json_get: unknown syntax {n}"))?.to_string());
    }
    Ok(format!(
        "/-! ### `resolve_scim_json_get`: the syntaxes that have an arm (every other one is `InvalidAttribute`) -/\n/-- {} -/\ndef scimResolvableSyn : List Nat := [{}]\n",
        names.join(", "),
        ids.join(", ")
    ))
}

fn vattr(repo: &str) -> Result<(String, usize), String> {
    let consts = str_consts(&parse_file(repo, "proto/src/constants.rs")?);
    let ast = parse_file(repo, "server/lib/src/idm/ldap.rs")?;
    let fm = find_fn(&ast, "ldap_attr_filter_map")?;
    if sq(&fm.block) != "{leta_lower=input.to_lowercase();Attribute::from(ldap_vattr_map(&a_lower).unwrap_or(a_lower.as_str()))}" {
        return Err("ldap_attr_filter_map: body changed".into());
    }
    let f = find_fn(&ast, "ldap_vattr_map")?;
    if f.block.stmts.len() != 1 {
        return Err("ldap_vattr_map: expected a single match".into());
    }
    let mut ms = Matches(vec![]);
    ms.visit_block(&f.block);
    if ms.0.len() != 1 || sq(&ms.0[0].expr) != "input" {
        return Err("ldap_vattr_map: expected `match input`".into());
    }
    let mut rows = vec![];
    let mut wild = false;
    for arm in &ms.0[0].arms {
        if matches!(arm.pat, syn::Pat::Wild(_)) {
            if sq(&arm.body) != "None" {
                return Err("ldap_vattr_map: wildcard arm must be None".into());
            }
            wild = true;
            continue;
        }
        let b = sq(&arm.body);
        let target = b.strip_prefix("Some(").and_then(|x| x.strip_suffix(')')).ok_or(format!("ldap_vattr_map: arm body {b}"))?;
        let tv = consts.get(target).ok_or(format!("ldap_vattr_map: unknown constant {target}"))?;
        for k in pat_names(&arm.pat)? {
            let kv = consts.get(&k).ok_or(format!("ldap_vattr_map: unknown constant {k}"))?;
            rows.push((kv.clone(), tv.clone()));
        }
    }
    if !wild {
        return Err("ldap_vattr_map: no wildcard arm".into());
    }
    let mut s = String::from("/-! ### `ldap_vattr_map` (idm/ldap.rs): LDAP name ↦ kanidm attribute name, first match wins, as byte strings -/\ndef vattrTable : List (List Nat × List Nat) := [\n");
    let n = rows.len();
    for (i, (k, v)) in rows.iter().enumerate() {
        s += &format!("  ({}, {}){} -- {k} => {v}\n", bytes(k), bytes(v), if i + 1 < n { "," } else { "" });
    }
    s += "]\n";
    Ok((s, n))
}

fn tables(repo: &str, out: &str) -> Result<String, String> {
    let filt = parse_file(repo, "server/lib/src/filter.rs")?;
    // the public wrappers: depth constant and element budget
    for w in ["Filter::from_ldap_ro", "Filter::from_scim_ro"] {
        let f = find_fn(&filt, w)?;
        let b = sq(&f.block);
        let inner = if w.ends_with("ldap_ro") { "from_ldap_ro" } else { "from_scim_ro" };
        let want = format!("{{letdepth=DEFAULT_LIMIT_FILTER_DEPTH_MAXasusize;letmutelems=ev.limits().filter_max_elements;Ok(Filter{{state:FilterInvalid{{inner:FilterComp::{inner}(f,qs,depth,&mutelems)?,}},}})}}");
        if b != want {
            return Err(format!("{w}: wrapper body changed"));
        }
    }
    let consts = parse_file(repo, "server/lib/src/constants/mod.rs")?;
    let depth = eval_int(&find_const(&consts, "DEFAULT_LIMIT_FILTER_DEPTH_MAX").ok_or("DEFAULT_LIMIT_FILTER_DEPTH_MAX not found")?, &|_| None)?;
    let syn_ids = syntax_ids(repo)?;
    let (vt, nv) = vattr(repo)?;
    let mut lean = String::from("import KanidmModel.ProtoFilterTypes\n-- GENERATED by vtranslate (item proto-filter-tables) from server/lib/src/filter.rs, idm/ldap.rs,\n-- server/mod.rs, value.rs, constants/mod.rs, proto/src/constants.rs. Do not edit: rewritten on every check run.\nset_option linter.unusedVariables false\nnamespace Kanidm.ProtoFilter\n\n");
    lean += &format!("/-- `DEFAULT_LIMIT_FILTER_DEPTH_MAX` -/\ndef filterDepthMax : Nat := {depth}\n\n");
    lean += &vt;
    lean += "\n";
    lean += &ldap_arms(&filt)?;
    lean += "\n";
    lean += &scim_arms(&filt)?;
    lean += "\n";
    lean += &ordering(&filt, &syn_ids)?;
    lean += "\n";
    lean += &scim_resolvable(repo, &syn_ids)?;
    lean += "\nend Kanidm.ProtoFilter\n";
    let path = format!("{out}/ProtoFilterTables.lean");
    if !std::fs::read_to_string(&path).map(|old| old == lean).unwrap_or(false) {
        std::fs::write(&path, &lean).map_err(|e| format!("{path}: {e}"))?;
    }
    Ok(format!("ProtoFilterTables: depth {depth}, {nv} aliases, 10 ldap arms, 10 scim operator arms"))
}
