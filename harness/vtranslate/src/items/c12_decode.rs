//! C12, part of item `storecodec-tables`: HOW every decoder reached from `from_db_valueset_v2`
//! builds its value set struct — the fields a struct has versus the fields a decoder rebuilds.
//!
//! A value set struct may keep fields its encoder does not write (`ValueSetOauth2Session.rs_filter`
//! is a bit-mask pre-filter over the `rs_uuid`s of its sessions). Such a field must be rebuilt by
//! every decoder, for every stored record version. For each struct `ValueSetZ` this module reads
//!
//!  * the field list of `pub struct ValueSetZ { … }`,
//!  * the decoder `ValueSetZ::from_dbvs2` (or `::new`), following calls to other inherent
//!    functions of the struct (`Self::from_dbv_iter(…)`) until it finds either a call of a
//!    canonical in-memory constructor (`new` / `from_iter`) or struct literals `ValueSetZ { … }`,
//!  * for every struct literal and every field of the struct, where the field's value comes from:
//!      - `direct`:  an expression over the stored data, an immutable binding or a parameter,
//!      - `default`: a constant (`0`, `u128::MIN`, `BTreeSet::new()`, `Default::default()`, `None` …),
//!                   directly or through an immutable binding — the stored data does not reach it,
//!      - `accumulator`: a `let mut` binding. Then every update of it in the function is located
//!        (`v |= …`, `v = …`, `v.insert(…)`-style calls, `&mut v`), and classified by the control
//!        flow around it: `uniform` (in the loop body — closure of an iterator adaptor / `for` —
//!        outside any `match` arm and `if`), `arm i of match M` (directly in an arm of a `match`,
//!        not nested deeper), or `conditional` (anything else; not counted). If arm updates
//!        exist they must all belong to one `match`; all arms of that `match` are listed with
//!        `yields` (the arm's value is not `None` / `Err` / a diverging macro) and `updates`.
//!
//! The Lean side proves from this table that every decoder maintains every field (an arm that
//! yields an element updates every accumulator). Anything this module cannot classify is an `Err`.
use quote::ToTokens;
use std::collections::BTreeMap;
use syn::visit::Visit;

pub struct DecodeArm {
    pub variant: String,
    pub yields: bool,
    pub updates: bool,
}

pub enum Init {
    Direct,
    Default(String),
    Acc { var: String, uniform: usize, conditional: usize, arms: Vec<DecodeArm> },
}

pub struct DecodeField {
    pub idx: usize,
    pub name: String,
    pub init: Init,
}

pub struct DecodeCtor {
    pub strukt: String,
    /// the functions followed, e.g. `from_dbvs2 → from_dbv_iter`
    pub chain: Vec<String>,
    pub fields: Vec<String>,
    /// canonical in-memory constructor the decoder goes through, if it does
    pub via: Option<String>,
    pub literals: Vec<Vec<DecodeField>>,
}

const CANONICAL: [&str; 2] = ["new", "from_iter"];
const ITER_ADAPTORS: [&str; 12] =
    ["map", "filter_map", "for_each", "flat_map", "try_for_each", "inspect", "filter", "fold", "try_fold", "map_while", "scan", "take_while"];
const MUTATORS: [&str; 12] = [
    "insert", "push", "push_back", "push_front", "extend", "append", "push_str", "entry", "replace", "get_or_insert", "get_or_insert_with", "clone_from",
];

fn last_seg(p: &syn::Path) -> String {
    p.segments.last().map(|s| s.ident.to_string()).unwrap_or_default()
}

fn self_ty_name(t: &syn::Type) -> String {
    match t {
        syn::Type::Path(p) => last_seg(&p.path),
        _ => t.to_token_stream().to_string(),
    }
}

fn single_ident(e: &syn::Expr) -> Option<String> {
    match e {
        syn::Expr::Path(p) if p.qself.is_none() && p.path.segments.len() == 1 => Some(p.path.segments[0].ident.to_string()),
        syn::Expr::Paren(p) => single_ident(&p.expr),
        _ => None,
    }
}

fn struct_fields(file: &syn::File, strukt: &str) -> Option<Vec<String>> {
    for it in &file.items {
        if let syn::Item::Struct(s) = it {
            if s.ident == strukt {
                return match &s.fields {
                    syn::Fields::Named(n) => Some(n.named.iter().filter_map(|f| f.ident.as_ref().map(|i| i.to_string())).collect()),
                    _ => None,
                };
            }
        }
    }
    None
}

fn inherent_fns(file: &syn::File, strukt: &str) -> BTreeMap<String, syn::ImplItemFn> {
    let mut out = BTreeMap::new();
    for it in &file.items {
        let syn::Item::Impl(i) = it else { continue };
        if i.trait_.is_some() || self_ty_name(&i.self_ty) != strukt {
            continue;
        }
        for ii in &i.items {
            if let syn::ImplItem::Fn(f) = ii {
                out.insert(f.sig.ident.to_string(), f.clone());
            }
        }
    }
    out
}

struct Literals<'a> {
    strukt: &'a str,
    found: Vec<syn::ExprStruct>,
    calls: Vec<String>,
}
impl<'a, 'ast> Visit<'ast> for Literals<'a> {
    fn visit_expr_struct(&mut self, s: &'ast syn::ExprStruct) {
        let n = last_seg(&s.path);
        if n == self.strukt || (n == "Self" && s.path.segments.len() == 1) {
            self.found.push(s.clone());
        }
        syn::visit::visit_expr_struct(self, s);
    }
    fn visit_expr_call(&mut self, c: &'ast syn::ExprCall) {
        if let syn::Expr::Path(p) = &*c.func {
            let segs: Vec<String> = p.path.segments.iter().map(|s| s.ident.to_string()).collect();
            if segs.len() >= 2 && (segs[segs.len() - 2] == "Self" || segs[segs.len() - 2] == self.strukt) {
                self.calls.push(segs[segs.len() - 1].clone());
            }
        }
        syn::visit::visit_expr_call(self, c);
    }
}

struct Locals {
    /// (name, mutable, initialiser) in source order
    lets: Vec<(String, bool, Option<syn::Expr>)>,
}
impl<'ast> Visit<'ast> for Locals {
    fn visit_local(&mut self, l: &'ast syn::Local) {
        fn ident_of(p: &syn::Pat) -> Option<(String, bool)> {
            match p {
                syn::Pat::Ident(i) if i.subpat.is_none() => Some((i.ident.to_string(), i.mutability.is_some())),
                syn::Pat::Type(t) => ident_of(&t.pat),
                _ => None,
            }
        }
        if let Some((n, m)) = ident_of(&l.pat) {
            self.lets.push((n, m, l.init.as_ref().map(|i| (*i.expr).clone())));
        }
        syn::visit::visit_local(self, l);
    }
}

fn default_like(e: &syn::Expr) -> bool {
    match e {
        syn::Expr::Lit(_) => true,
        syn::Expr::Paren(p) => default_like(&p.expr),
        syn::Expr::Path(p) => {
            let l = last_seg(&p.path);
            l == "None" || l == "MIN" || l == "MAX" || l == "ZERO" || l == "EMPTY"
        }
        syn::Expr::Call(c) => {
            if let syn::Expr::Path(p) = &*c.func {
                let l = last_seg(&p.path);
                (l == "new" || l == "default" || l == "with_capacity" || l == "nil") && c.args.iter().all(default_like)
            } else {
                false
            }
        }
        syn::Expr::Macro(m) => {
            let l = last_seg(&m.mac.path);
            (l == "vec" || l == "btreeset" || l == "btreemap" || l == "hashset" || l == "smolset") && m.mac.tokens.is_empty()
        }
        _ => false,
    }
}

#[derive(Clone, Copy, PartialEq, Debug)]
enum Ctx {
    Iter,
    Arm(usize, usize),
    Cond,
}

struct Updates<'a> {
    var: &'a str,
    stack: Vec<Ctx>,
    matches: Vec<syn::ExprMatch>,
    hits: Vec<Vec<Ctx>>,
}

impl<'a> Updates<'a> {
    fn is_var(&self, e: &syn::Expr) -> bool {
        single_ident(e).map(|v| v == self.var).unwrap_or(false)
    }
    fn hit(&mut self) {
        self.hits.push(self.stack.clone());
    }
}

fn is_compound_assign(op: &syn::BinOp) -> bool {
    use syn::BinOp::*;
    matches!(
        op,
        AddAssign(_) | SubAssign(_) | MulAssign(_) | DivAssign(_) | RemAssign(_) | BitXorAssign(_) | BitAndAssign(_) | BitOrAssign(_) | ShlAssign(_) | ShrAssign(_)
    )
}

impl<'a, 'ast> Visit<'ast> for Updates<'a> {
    fn visit_expr_match(&mut self, m: &'ast syn::ExprMatch) {
        let id = self.matches.len();
        self.matches.push(m.clone());
        self.visit_expr(&m.expr);
        for (i, a) in m.arms.iter().enumerate() {
            self.stack.push(Ctx::Arm(id, i));
            if let Some((_, g)) = &a.guard {
                self.stack.push(Ctx::Cond);
                self.visit_expr(g);
                self.stack.pop();
            }
            self.visit_expr(&a.body);
            self.stack.pop();
        }
    }
    fn visit_expr_if(&mut self, i: &'ast syn::ExprIf) {
        self.visit_expr(&i.cond);
        self.stack.push(Ctx::Cond);
        self.visit_block(&i.then_branch);
        if let Some((_, e)) = &i.else_branch {
            self.visit_expr(e);
        }
        self.stack.pop();
    }
    fn visit_expr_for_loop(&mut self, f: &'ast syn::ExprForLoop) {
        self.visit_expr(&f.expr);
        self.stack.push(Ctx::Iter);
        self.visit_block(&f.body);
        self.stack.pop();
    }
    fn visit_expr_while(&mut self, w: &'ast syn::ExprWhile) {
        self.stack.push(Ctx::Cond);
        syn::visit::visit_expr_while(self, w);
        self.stack.pop();
    }
    fn visit_expr_loop(&mut self, l: &'ast syn::ExprLoop) {
        self.stack.push(Ctx::Cond);
        syn::visit::visit_expr_loop(self, l);
        self.stack.pop();
    }
    fn visit_expr_closure(&mut self, c: &'ast syn::ExprClosure) {
        // a closure that is not the body of an iterator adaptor runs "maybe": `map_err(|e| …)`
        self.stack.push(Ctx::Cond);
        self.visit_expr(&c.body);
        self.stack.pop();
    }
    fn visit_expr_method_call(&mut self, m: &'ast syn::ExprMethodCall) {
        if self.is_var(&m.receiver) && MUTATORS.contains(&m.method.to_string().as_str()) {
            self.hit();
        }
        self.visit_expr(&m.receiver);
        let iter = ITER_ADAPTORS.contains(&m.method.to_string().as_str());
        for a in &m.args {
            match a {
                syn::Expr::Closure(c) if iter => {
                    self.stack.push(Ctx::Iter);
                    self.visit_expr(&c.body);
                    self.stack.pop();
                }
                other => self.visit_expr(other),
            }
        }
    }
    fn visit_expr_binary(&mut self, b: &'ast syn::ExprBinary) {
        if is_compound_assign(&b.op) && self.is_var(&b.left) {
            self.hit();
        }
        syn::visit::visit_expr_binary(self, b);
    }
    fn visit_expr_assign(&mut self, a: &'ast syn::ExprAssign) {
        if self.is_var(&a.left) {
            self.hit();
        }
        syn::visit::visit_expr_assign(self, a);
    }
    fn visit_expr_reference(&mut self, r: &'ast syn::ExprReference) {
        if r.mutability.is_some() && self.is_var(&r.expr) {
            self.hit();
        }
        syn::visit::visit_expr_reference(self, r);
    }
}

/// Does the arm's value carry an element (anything but `None`, `Err(..)`, `return None`, a
/// diverging macro)? No tail expression (`… ;`) counts as yielding: the conservative side.
fn tail_yields(e: &syn::Expr) -> bool {
    match e {
        syn::Expr::Block(b) => match b.block.stmts.last() {
            Some(syn::Stmt::Expr(t, None)) => tail_yields(t),
            Some(syn::Stmt::Macro(m)) => !diverging(&m.mac),
            _ => true,
        },
        syn::Expr::Paren(p) => tail_yields(&p.expr),
        syn::Expr::Path(p) => !(p.path.segments.len() == 1 && p.path.segments[0].ident == "None"),
        syn::Expr::Return(r) => r.expr.as_ref().map(|x| tail_yields(x)).unwrap_or(false),
        syn::Expr::Call(c) => !matches!(&*c.func, syn::Expr::Path(p) if last_seg(&p.path) == "Err"),
        syn::Expr::Macro(m) => !diverging(&m.mac),
        _ => true,
    }
}

fn diverging(m: &syn::Macro) -> bool {
    let l = last_seg(&m.path);
    l == "unreachable" || l == "panic" || l == "unimplemented" || l == "todo"
}

fn arm_name(p: &syn::Pat) -> String {
    fn one(p: &syn::Pat) -> String {
        let path = match p {
            syn::Pat::Struct(s) => Some(&s.path),
            syn::Pat::TupleStruct(s) => Some(&s.path),
            syn::Pat::Path(s) => Some(&s.path),
            _ => None,
        };
        match path {
            Some(p) => {
                let s: Vec<String> = p.segments.iter().map(|s| s.ident.to_string()).collect();
                s[s.len().saturating_sub(2)..].join("::")
            }
            None => p.to_token_stream().to_string(),
        }
    }
    match p {
        syn::Pat::Or(o) => o.cases.iter().map(one).collect::<Vec<_>>().join(" | "),
        p => one(p),
    }
}

fn analyse_literal(f: &syn::ImplItemFn, lit: &syn::ExprStruct, fields: &[String], ctx: &str) -> Result<Vec<DecodeField>, String> {
    if lit.rest.is_some() {
        return Err(format!("{ctx}: struct literal with `..` base (fields not listed one by one)"));
    }
    let mut locals = Locals { lets: vec![] };
    locals.visit_block(&f.block);
    let mut out = vec![];
    for (idx, name) in fields.iter().enumerate() {
        let fv = lit
            .fields
            .iter()
            .find(|fv| matches!(&fv.member, syn::Member::Named(i) if i == name))
            .ok_or_else(|| format!("{ctx}: struct literal does not assign field `{name}`"))?;
        let init = match single_ident(&fv.expr) {
            Some(v) => {
                let muts: Vec<&(String, bool, Option<syn::Expr>)> = locals.lets.iter().filter(|(n, m, _)| *n == v && *m).collect();
                let imm: Vec<&(String, bool, Option<syn::Expr>)> = locals.lets.iter().filter(|(n, m, _)| *n == v && !*m).collect();
                if muts.len() > 1 || (!muts.is_empty() && !imm.is_empty()) {
                    return Err(format!("{ctx}: field `{name}` comes from `{v}`, which is bound {} times (shadowed accumulator)", muts.len() + imm.len()));
                }
                if muts.len() == 1 {
                    let mut u = Updates { var: &v, stack: vec![], matches: vec![], hits: vec![] };
                    u.visit_block(&f.block);
                    let (mut uniform, mut conditional) = (0usize, 0usize);
                    let mut arm_hits: Vec<(usize, usize)> = vec![];
                    for h in &u.hits {
                        let arms: Vec<&Ctx> = h.iter().filter(|c| matches!(c, Ctx::Arm(..))).collect();
                        if h.contains(&Ctx::Cond) {
                            conditional += 1;
                        } else if arms.is_empty() {
                            uniform += 1;
                        } else if arms.len() == 1 && matches!(h.last(), Some(Ctx::Arm(..))) {
                            if let Some(Ctx::Arm(m, i)) = h.last() {
                                arm_hits.push((*m, *i));
                            }
                        } else {
                            conditional += 1;
                        }
                    }
                    let mut ids: Vec<usize> = arm_hits.iter().map(|(m, _)| *m).collect();
                    ids.sort();
                    ids.dedup();
                    if ids.len() > 1 {
                        return Err(format!("{ctx}: accumulator `{v}` (field `{name}`) is updated in arms of {} different `match`es", ids.len()));
                    }
                    let arms = match ids.first() {
                        Some(id) => {
                            let m = &u.matches[*id];
                            let mut arms = vec![];
                            for (i, a) in m.arms.iter().enumerate() {
                                if a.guard.is_some() {
                                    return Err(format!("{ctx}: guard on arm `{}` of the match that updates `{v}`", a.pat.to_token_stream()));
                                }
                                arms.push(DecodeArm { variant: arm_name(&a.pat), yields: tail_yields(&a.body), updates: arm_hits.contains(&(*id, i)) });
                            }
                            arms
                        }
                        None => vec![],
                    };
                    Init::Acc { var: v, uniform, conditional, arms }
                } else {
                    match imm.last() {
                        Some((_, _, Some(e))) if default_like(e) => Init::Default(e.to_token_stream().to_string()),
                        _ => Init::Direct,
                    }
                }
            }
            None if default_like(&fv.expr) => Init::Default(fv.expr.to_token_stream().to_string()),
            None => Init::Direct,
        };
        out.push(DecodeField { idx, name: name.clone(), init });
    }
    Ok(out)
}

pub fn analyse(file: &syn::File, rel: &str, strukt: &str, entry_fn: &str) -> Result<DecodeCtor, String> {
    let fields = struct_fields(file, strukt).ok_or_else(|| format!("{rel}: `struct {strukt} {{ named fields }}` not found"))?;
    let fns = inherent_fns(file, strukt);
    let mut chain = vec![];
    let mut cur = entry_fn.to_string();
    for _ in 0..4 {
        chain.push(cur.clone());
        let ctx = format!("{rel}: {strukt}::{}", chain.join(" → "));
        if CANONICAL.contains(&cur.as_str()) {
            return Ok(DecodeCtor { strukt: strukt.into(), chain, fields, via: Some(cur), literals: vec![] });
        }
        let f = fns.get(&cur).ok_or_else(|| format!("{ctx}: function not found among the inherent functions of {strukt}"))?;
        let mut l = Literals { strukt, found: vec![], calls: vec![] };
        l.visit_block(&f.block);
        if !l.found.is_empty() {
            let mut literals = vec![];
            for lit in &l.found {
                literals.push(analyse_literal(f, lit, &fields, &ctx)?);
            }
            return Ok(DecodeCtor { strukt: strukt.into(), chain, fields, via: None, literals });
        }
        let mut next: Vec<String> = l.calls.iter().filter(|c| **c != cur && (fns.contains_key(*c) || CANONICAL.contains(&c.as_str()))).cloned().collect();
        next.dedup();
        match next.len() {
            1 => cur = next.remove(0),
            0 => return Err(format!("{ctx}: neither a `{strukt} {{ … }}` literal nor a call of another constructor of the struct")),
            _ => return Err(format!("{ctx}: calls several constructors of the struct {next:?}")),
        }
    }
    Err(format!("{rel}: {strukt}::{}: constructor chain too long", chain.join(" → ")))
}

fn lean_string(s: &str) -> String {
    format!("\"{}\"", s.replace('\\', "\\\\").replace('"', "\\\""))
}

pub fn lean_ctor(c: &DecodeCtor, struct_idx: usize) -> String {
    let lits: Vec<String> = c
        .literals
        .iter()
        .map(|l| {
            let fs: Vec<String> = l
                .iter()
                .map(|f| {
                    let (kind, uniform, arms, note) = match &f.init {
                        Init::Direct => (0, 0, vec![], String::new()),
                        Init::Default(e) => (2, 0, vec![], e.clone()),
                        Init::Acc { var, uniform, conditional, arms } => (
                            1,
                            *uniform,
                            arms.iter().map(|a| format!("{{ variant := {}, yields := {}, updates := {} }}", lean_string(&a.variant), a.yields, a.updates)).collect(),
                            format!("let mut {var}; {conditional} conditional update(s) not counted"),
                        ),
                    };
                    format!(
                        "{{ field := {}, name := {}, kind := {kind}, uniform := {uniform}, arms := [{}], remark := {} }}",
                        f.idx,
                        lean_string(&f.name),
                        arms.join(", "),
                        lean_string(&note)
                    )
                })
                .collect();
            format!("[{}]", fs.join(",\n      "))
        })
        .collect();
    format!(
        "{{ struct := {struct_idx}, structName := {}, fn := {}, nFields := {}, fieldNames := [{}],\n    via := {}, literals := [{}] }}",
        lean_string(&c.strukt),
        lean_string(&c.chain.join(" → ")),
        c.fields.len(),
        c.fields.iter().map(|f| lean_string(f)).collect::<Vec<_>>().join(", "),
        match &c.via {
            Some(v) => format!("some {}", lean_string(v)),
            None => "none".into(),
        },
        lits.join(",\n     ")
    )
}
