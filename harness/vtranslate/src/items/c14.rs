//! C14 translator item `codec-ops`: the replication wire codec's framing decisions, re-read
//! from `server/core/src/repl/codec.rs` (`decode_length_checked_json`,
//! `encode_length_checked_json`): header size, length type and endianness, every comparison
//! with its operands, the ORDER of the early returns with the kind of each, the payload split
//! and the trim/advance amounts. The statement sequence is walked strictly: a statement this
//! walker does not know is an `Err`, never skipped (macros `trace!/error!/assert*!` excepted).
use super::vars;
use crate::util::*;
use quote::ToTokens;
use syn::{Expr, Pat, Stmt};

pub fn run(item: &str, repo: &str, out: &str) -> Option<Result<String, String>> {
    match item {
        "codec-ops" => Some(codec_ops(repo, out)),
        _ => None,
    }
}

fn ts<T: ToTokens>(t: &T) -> String {
    t.to_token_stream().to_string()
}

/// Remove `(..)`, and `as u64` / `as usize` casts (lossless between each other on the 64-bit
/// targets; any other cast type is an error).
fn strip(e: &Expr) -> Result<Expr, String> {
    Ok(match e {
        Expr::Paren(p) => strip(&p.expr)?,
        Expr::Group(g) => strip(&g.expr)?,
        Expr::Cast(c) => {
            let ty = ts(&c.ty);
            if ty != "u64" && ty != "usize" {
                return Err(format!("cast to `{ty}` is not modelled: `{}`", ts(e)));
            }
            strip(&c.expr)?
        }
        Expr::Binary(b) => {
            let mut b = b.clone();
            b.left = Box::new(strip(&b.left)?);
            b.right = Box::new(strip(&b.right)?);
            Expr::Binary(b)
        }
        Expr::MethodCall(m) => {
            let mut m = m.clone();
            m.receiver = Box::new(strip(&m.receiver)?);
            Expr::MethodCall(m)
        }
        Expr::Unary(u) => {
            let mut u = u.clone();
            u.expr = Box::new(strip(&u.expr)?);
            Expr::Unary(u)
        }
        other => other.clone(),
    })
}

fn lean_of(e: &Expr, v: &std::collections::BTreeMap<String, String>) -> Result<String, String> {
    lean_expr(&strip(e)?, v)
}

fn is_macro_stmt(s: &Stmt) -> Option<String> {
    match s {
        Stmt::Macro(m) => Some(m.mac.path.segments.last().map(|s| s.ident.to_string()).unwrap_or_default()),
        _ => None,
    }
}

const SKIPPED_MACROS: &[&str] = &["trace", "debug", "info", "warn", "error", "assert_eq", "assert", "debug_assert", "debug_assert_eq"];

/// `return Ok(None)` / `return Err(io::Error::new(io::ErrorKind::K, ..))` ↦ Early constructor.
fn classify_return(e: &Expr) -> Result<&'static str, String> {
    let Expr::Return(r) = e else { return Err(format!("expected `return`, found `{}`", ts(e))) };
    let Some(val) = &r.expr else { return Err("bare `return`".into()) };
    let Expr::Call(c) = &**val else { return Err(format!("unrecognised return value `{}`", ts(val))) };
    let f = path_string(&c.func).unwrap_or_default();
    if f == "Ok" && c.args.len() == 1 {
        return match path_string(&c.args[0]).as_deref() {
            Some("None") => Ok(".needMore"),
            _ => Err(format!("early return of a value is not modelled: `{}`", ts(val))),
        };
    }
    if f == "Err" && c.args.len() == 1 {
        let inner = ts(&c.args[0]);
        let inner: String = inner.split_whitespace().collect();
        if inner.contains("ErrorKind::InvalidInput") {
            return Ok(".errInvalidInput");
        }
        if inner.contains("ErrorKind::OutOfMemory") {
            return Ok(".errOutOfMemory");
        }
        return Ok(".errOther");
    }
    Err(format!("unrecognised return value `{}`", ts(val)))
}

/// `if COND { macros…; return R; }` with no else ↦ (COND, Early).
fn early_if(e: &Expr) -> Option<Result<(Expr, &'static str), String>> {
    let Expr::If(i) = e else { return None };
    if i.else_branch.is_some() {
        return None;
    }
    let stmts = &i.then_branch.stmts;
    let Some(last) = stmts.last() else { return Some(Err(format!("empty `if` body: `{}`", ts(e)))) };
    for s in &stmts[..stmts.len() - 1] {
        match is_macro_stmt(s) {
            Some(m) if SKIPPED_MACROS.contains(&m.as_str()) => {}
            _ => return Some(Err(format!("statement before an early return is not modelled: `{}`", ts(s)))),
        }
    }
    let ret = match last {
        Stmt::Expr(x, _) => x,
        other => return Some(Err(format!("expected `return` at the end of `{}`, found `{}`", ts(&i.cond), ts(other)))),
    };
    Some(classify_return(ret).map(|k| ((*i.cond).clone(), k)))
}

fn local_parts(s: &Stmt) -> Option<(&Pat, &Expr)> {
    match s {
        Stmt::Local(l) => l.init.as_ref().and_then(|i| if i.diverge.is_none() { Some((&l.pat, &*i.expr)) } else { None }),
        _ => None,
    }
}

fn pat_ident(p: &Pat) -> Option<String> {
    match p {
        Pat::Ident(i) => Some(i.ident.to_string()),
        Pat::Type(t) => pat_ident(&t.pat),
        _ => None,
    }
}

fn pat_pair(p: &Pat) -> Option<(String, String)> {
    match p {
        Pat::Tuple(t) if t.elems.len() == 2 => Some((pat_ident(&t.elems[0])?, pat_ident(&t.elems[1])?)),
        _ => None,
    }
}

/// `RECV.METHOD(ARG)` with one argument ↦ (recv path, ARG).
fn method1<'a>(e: &'a Expr, method: &str) -> Option<(String, &'a Expr)> {
    match e {
        Expr::MethodCall(m) if m.method == method && m.args.len() == 1 => Some((path_string(&m.receiver)?, &m.args[0])),
        _ => None,
    }
}

/// endian + byte width from `uN::from_XX_bytes` / `.to_XX_bytes()` names.
fn endian_of(name: &str) -> Result<&'static str, String> {
    if name.ends_with("_be_bytes") {
        Ok(".big")
    } else if name.ends_with("_le_bytes") {
        Ok(".little")
    } else {
        Err(format!("byte order of `{name}` is not modelled (native order is platform dependent)"))
    }
}

fn width_of(ty: &str) -> Result<u32, String> {
    match ty {
        "u8" => Ok(1),
        "u16" => Ok(2),
        "u32" => Ok(4),
        "u64" => Ok(8),
        "u128" => Ok(16),
        _ => Err(format!("length type `{ty}` is not modelled")),
    }
}

/// First call `serde_json::from_slice(ARG)` inside an expression.
fn find_from_slice(e: &Expr) -> Option<String> {
    struct V(Option<String>);
    impl<'ast> syn::visit::Visit<'ast> for V {
        fn visit_expr_call(&mut self, c: &'ast syn::ExprCall) {
            if self.0.is_none() && path_string(&c.func).map(|p| p.ends_with("from_slice")).unwrap_or(false) && c.args.len() == 1 {
                self.0 = path_string(&c.args[0]);
            }
            syn::visit::visit_expr_call(self, c);
        }
    }
    let mut v = V(None);
    syn::visit::Visit::visit_expr(&mut v, e);
    v.0
}

struct Dec {
    hdr_short: (String, String, &'static str),
    hdr_split: (String, i128),
    len_arr: (String, i128),
    dec_fn: String,
    dec_bytes: u32,
    dec_endian: &'static str,
    post: Vec<(String, String, &'static str)>,
    payload_split: (String, String),
    exact_trim: (String, String),
    advance: (String, String),
}

fn decoder(ast: &syn::File) -> Result<Dec, String> {
    let f = find_fn(ast, "decode_length_checked_json")?;
    // parameter names: (max_frame_bytes, src)
    let params: Vec<String> = f
        .sig
        .inputs
        .iter()
        .filter_map(|a| match a {
            syn::FnArg::Typed(t) => pat_ident(&t.pat),
            _ => None,
        })
        .collect();
    if params.len() != 2 {
        return Err(format!("decode_length_checked_json: expected 2 parameters, found {params:?}"));
    }
    let (maxv, src) = (params[0].clone(), params[1].clone());
    let srclen = format!("{src}.len()");
    let stmts: Vec<&Stmt> = f
        .block
        .stmts
        .iter()
        .filter(|s| !matches!(is_macro_stmt(s), Some(m) if SKIPPED_MACROS.contains(&m.as_str())))
        .collect();
    let mut it = stmts.into_iter().peekable();
    let mut next = |what: &str| it.next().ok_or_else(|| format!("decode_length_checked_json ends before {what}"));

    // 1. `if src.len() < 8 { return Ok(None) }`
    let s = next("the header-length check")?;
    let (cond, kind) = match s {
        Stmt::Expr(e, _) => early_if(e).ok_or_else(|| format!("expected the header-length `if`, found `{}`", ts(s)))??,
        _ => return Err(format!("expected the header-length `if`, found `{}`", ts(s))),
    };
    let v0 = vars(&[(&srclen, "srcLen")]);
    let hdr_short = (ts(&cond), lean_of(&cond, &v0)?, kind);

    // 2. `let (hdr, json) = src.split_at(N);`
    let s = next("the header split")?;
    let (pat, init) = local_parts(s).ok_or_else(|| format!("expected `let (..) = {src}.split_at(N)`, found `{}`", ts(s)))?;
    let (hdr_var, json_var) = pat_pair(pat).ok_or_else(|| format!("expected a pair pattern in `{}`", ts(s)))?;
    let (recv, arg) = method1(init, "split_at").ok_or_else(|| format!("expected `{src}.split_at(N)`, found `{}`", ts(init)))?;
    if recv != src {
        return Err(format!("header split is not on `{src}`: `{}`", ts(init)));
    }
    let hdr_split = (ts(init), eval_int(&strip(arg)?, &|_| None)?);

    // 3. `let mut arr = [0; N];`
    let s = next("the length array")?;
    let (pat, init) = local_parts(s).ok_or_else(|| format!("expected `let mut x = [0; N]`, found `{}`", ts(s)))?;
    let arr_var = pat_ident(pat).ok_or_else(|| format!("expected an identifier pattern in `{}`", ts(s)))?;
    let len_arr = match init {
        Expr::Repeat(r) => (ts(init), eval_int(&r.len, &|_| None)?),
        _ => return Err(format!("expected `[0; N]`, found `{}`", ts(init))),
    };

    // 4. `arr.copy_from_slice(hdr);`
    let s = next("copy_from_slice")?;
    match s {
        Stmt::Expr(e, _) => {
            let (recv, arg) = method1(e, "copy_from_slice").ok_or_else(|| format!("expected `{arr_var}.copy_from_slice({hdr_var})`, found `{}`", ts(s)))?;
            if recv != arr_var || path_string(arg).as_deref() != Some(hdr_var.as_str()) {
                return Err(format!("expected `{arr_var}.copy_from_slice({hdr_var})`, found `{}`", ts(s)));
            }
        }
        _ => return Err(format!("expected `{arr_var}.copy_from_slice({hdr_var})`, found `{}`", ts(s))),
    }

    // 5. `let req_len = u64::from_be_bytes(arr);`
    let s = next("from_be_bytes")?;
    let (pat, init) = local_parts(s).ok_or_else(|| format!("expected `let req_len = uN::from_be_bytes(..)`, found `{}`", ts(s)))?;
    let len_var = pat_ident(pat).ok_or_else(|| format!("expected an identifier pattern in `{}`", ts(s)))?;
    let (dec_fn, dec_bytes, dec_endian) = match init {
        Expr::Call(c) if c.args.len() == 1 && path_string(&c.args[0]).as_deref() == Some(arr_var.as_str()) => {
            let p = path_string(&c.func).unwrap_or_default();
            let (ty, name) = p.split_once("::").ok_or_else(|| format!("expected `uN::from_be_bytes`, found `{p}`"))?;
            if !name.starts_with("from_") {
                return Err(format!("expected `uN::from_be_bytes`, found `{p}`"));
            }
            (p.clone(), width_of(ty)?, endian_of(name)?)
        }
        _ => return Err(format!("expected `uN::from_be_bytes({arr_var})`, found `{}`", ts(init))),
    };

    // 6. early returns, in order, until the payload split
    let jsonlen = format!("{json_var}.len()");
    let v = vars(&[(&srclen, "srcLen"), (&len_var, "reqLen"), (&maxv, "maxFrame"), (&jsonlen, "jsonLen")]);
    let mut post = vec![];
    let s = loop {
        let s = next("the payload split")?;
        if let Stmt::Expr(e, _) = s {
            if let Some(r) = early_if(e) {
                let (cond, kind) = r?;
                post.push((ts(&cond), lean_of(&cond, &v)?, kind));
                continue;
            }
        }
        break s;
    };

    // 7. `let (payload, _rest) = json.split_at(req_len as usize);`
    let (pat, init) = local_parts(s).ok_or_else(|| format!("expected `let (..) = {json_var}.split_at(..)`, found `{}`", ts(s)))?;
    let (payload_var, _) = pat_pair(pat).ok_or_else(|| format!("expected a pair pattern in `{}`", ts(s)))?;
    let (recv, arg) = method1(init, "split_at").ok_or_else(|| format!("expected `{json_var}.split_at(..)`, found `{}`", ts(init)))?;
    if recv != json_var {
        return Err(format!("payload split is not on `{json_var}`: `{}`", ts(init)));
    }
    let payload_split = (ts(init), lean_of(arg, &v)?);

    // 8. `let res = serde_json::from_slice(payload)…;`
    let s = next("the payload parse")?;
    let (pat, init) = local_parts(s).ok_or_else(|| format!("expected `let res = serde_json::from_slice(..)`, found `{}`", ts(s)))?;
    let res_var = pat_ident(pat).ok_or_else(|| format!("expected an identifier pattern in `{}`", ts(s)))?;
    match find_from_slice(init) {
        Some(a) if a == payload_var => {}
        other => return Err(format!("payload parse is not `from_slice({payload_var})`: {other:?}")),
    }

    // 9. `if src.len() as u64 == req_len { src.clear(); … } else { src.advance(8 + req_len); }`
    let s = next("the trim")?;
    let Stmt::Expr(Expr::If(i), _) = s else { return Err(format!("expected the trim `if/else`, found `{}`", ts(s))) };
    let exact_trim = (ts(&i.cond), lean_of(&i.cond, &v)?);
    match i.then_branch.stmts.first() {
        Some(Stmt::Expr(Expr::MethodCall(m), _)) if m.method == "clear" && path_string(&m.receiver).as_deref() == Some(src.as_str()) => {}
        other => return Err(format!("trim: expected `{src}.clear()` first, found `{}`", other.map(ts).unwrap_or_default())),
    }
    let Some((_, else_e)) = &i.else_branch else { return Err("trim: missing else branch".into()) };
    let Expr::Block(eb) = &**else_e else { return Err(format!("trim: unexpected else `{}`", ts(&**else_e))) };
    if eb.block.stmts.len() != 1 {
        return Err(format!("trim: else branch has {} statements", eb.block.stmts.len()));
    }
    let adv = match &eb.block.stmts[0] {
        Stmt::Expr(e, _) => e,
        other => return Err(format!("trim: unexpected else statement `{}`", ts(other))),
    };
    let (recv, arg) = method1(adv, "advance").ok_or_else(|| format!("trim: expected `{src}.advance(..)`, found `{}`", ts(adv)))?;
    if recv != src {
        return Err(format!("trim: advance is not on `{src}`"));
    }
    let advance = (ts(adv), lean_of(arg, &v)?);

    // 10. tail expression `res`
    let s = next("the result expression")?;
    match s {
        Stmt::Expr(e, None) if path_string(e).as_deref() == Some(res_var.as_str()) => {}
        _ => return Err(format!("expected the tail expression `{res_var}`, found `{}`", ts(s))),
    }
    if let Some(extra) = it.next() {
        return Err(format!("unexpected statement after the result: `{}`", ts(extra)));
    }
    Ok(Dec { hdr_short, hdr_split, len_arr, dec_fn, dec_bytes, dec_endian, post, payload_split, exact_trim, advance })
}

/// Encoder: the two `to_XX_bytes` calls (placeholder on `uN::MIN`, final length on a value cast
/// `as uN`), must agree in width and byte order.
fn encoder(ast: &syn::File) -> Result<(String, u32, &'static str), String> {
    let f = find_fn(ast, "encode_length_checked_json")?;
    struct V {
        calls: Vec<(String, String)>, // (receiver path, method)
        casts: Vec<(String, String)>, // (let name, cast type)
    }
    impl<'ast> syn::visit::Visit<'ast> for V {
        fn visit_expr_method_call(&mut self, m: &'ast syn::ExprMethodCall) {
            let name = m.method.to_string();
            if name.starts_with("to_") && name.ends_with("_bytes") {
                self.calls.push((path_string(&m.receiver).unwrap_or_else(|| ts(&*m.receiver)), name));
            }
            syn::visit::visit_expr_method_call(self, m);
        }
        fn visit_local(&mut self, l: &'ast syn::Local) {
            if let (Some(n), Some(i)) = (pat_ident(&l.pat), &l.init) {
                if let Expr::Cast(c) = &*i.expr {
                    self.casts.push((n, ts(&c.ty)));
                }
            }
            syn::visit::visit_local(self, l);
        }
    }
    let mut v = V { calls: vec![], casts: vec![] };
    syn::visit::Visit::visit_block(&mut v, &f.block);
    if v.calls.len() != 2 {
        return Err(format!("encoder: expected 2 to_*_bytes calls (placeholder, final length), found {:?}", v.calls));
    }
    let e0 = endian_of(&v.calls[0].1)?;
    let e1 = endian_of(&v.calls[1].1)?;
    if e0 != e1 {
        return Err(format!("encoder: placeholder and final length differ in byte order: {:?}", v.calls));
    }
    // placeholder: `uN::MIN`
    let (ty0, c0) = v.calls[0].0.split_once("::").ok_or_else(|| format!("encoder: placeholder is not `uN::MIN`: {:?}", v.calls[0]))?;
    if c0 != "MIN" {
        return Err(format!("encoder: placeholder is not `uN::MIN`: {:?}", v.calls[0]));
    }
    let w0 = width_of(ty0)?;
    // final: a local bound by `let x = … as uN`
    let ty1 = v
        .casts
        .iter()
        .find(|(n, _)| *n == v.calls[1].0)
        .map(|(_, t)| t.clone())
        .ok_or_else(|| format!("encoder: `{}` is not bound by `let {} = … as uN`", v.calls[1].0, v.calls[1].0))?;
    let w1 = width_of(&ty1)?;
    if w0 != w1 {
        return Err(format!("encoder: placeholder is {w0} bytes but the final length is {w1} bytes"));
    }
    Ok((format!("{} . {} () ; {} . {} () with `{}` cast `as {}`", v.calls[0].0, v.calls[0].1, v.calls[1].0, v.calls[1].1, v.calls[1].0, ty1), w1, e1))
}

fn codec_ops(repo: &str, out: &str) -> Result<String, String> {
    let rel = "server/core/src/repl/codec.rs";
    let ast = parse_file(repo, rel)?;
    let d = decoder(&ast)?;
    let (enc_src, enc_bytes, enc_endian) = encoder(&ast)?;
    let mut b = String::from("namespace Kanidm.Gen.Codec\n");
    b += "inductive Endian where | big | little\nderiving DecidableEq, Repr\n";
    b += "/-- What an early `return` of the decoder yields. -/\n";
    b += "inductive Early where | needMore | errInvalidInput | errOutOfMemory | errOther\nderiving DecidableEq, Repr\n";
    b += &format!("/-- `{}` -/\ndef hdrShort (srcLen : Nat) : Bool := {}\n", d.hdr_short.0, d.hdr_short.1);
    b += &format!("def hdrShortRet : Early := {}\n", d.hdr_short.2);
    b += &format!("/-- `{}` -/\ndef hdrSplit : Nat := {}\n", d.hdr_split.0, d.hdr_split.1);
    b += &format!("/-- `{}` -/\ndef lenArr : Nat := {}\n", d.len_arr.0, d.len_arr.1);
    b += &format!("/-- `{}` -/\ndef decLenBytes : Nat := {}\ndef decEndian : Endian := {}\n", d.dec_fn, d.dec_bytes, d.dec_endian);
    b += &format!(
        "/-- Early returns between reading the length and taking the payload, in source order:\n{} -/\n",
        d.post.iter().map(|p| format!("`{}`", p.0)).collect::<Vec<_>>().join(" ; ")
    );
    b += "def postChecks (reqLen maxFrame jsonLen srcLen : Nat) : List (Bool × Early) :=\n  [";
    b += &d.post.iter().map(|p| format!("({}, {})", p.1, p.2)).collect::<Vec<_>>().join(", ");
    b += "]\n";
    b += &format!("/-- `{}` -/\ndef payloadSplit (reqLen : Nat) : Nat := {}\n", d.payload_split.0, d.payload_split.1);
    b += &format!("/-- `{}` (then `src.clear()`) -/\ndef exactTrim (srcLen reqLen : Nat) : Bool := {}\n", d.exact_trim.0, d.exact_trim.1);
    b += &format!("/-- else `{}` -/\ndef advanceBy (reqLen : Nat) : Nat := {}\n", d.advance.0, d.advance.1);
    b += &format!("/-- encoder: {} -/\ndef encLenBytes : Nat := {}\ndef encEndian : Endian := {}\n", enc_src, enc_bytes, enc_endian);
    b += "end Kanidm.Gen.Codec\n";
    write_generated(out, "CodecOps", &format!("{rel} (fn decode_length_checked_json, fn encode_length_checked_json)"), &b)?;
    Ok(format!("CodecOps: header {} bytes, {} post-header checks, advance `{}`", d.hdr_split.1, d.post.len(), d.advance.1))
}
