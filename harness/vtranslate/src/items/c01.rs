//! C01 translator item `filter-idl`: regenerates, from `server/lib/src/be/mod.rs`,
//!   * the constants `FILTER_SEARCH_TEST_THRESHOLD`, `FILTER_EXISTS_TEST_THRESHOLD`,
//!     `FILTER_SUBSTR_TEST_THRESHOLD`;
//!   * from `BackendTransaction::filter2idl`: the arm table of the `Or` fold (`orArm`), the two
//!     `match (cand_idl, inter)` tables of the `And` branch (`andArm`, `notArm`: set operation, early
//!     returns, result kind of every arm, in source order) and the `let inter = match inter {…}`
//!     pre-step of the AndNot loop (`notPreKind`);
//!   * from `search` / `exists`: which `IdList` kinds are re-tested with `entry_match_no_index`.
//! Output: `KanidmModel/Generated/FilterIdl.lean`. Any unrecognised shape is an error.
use crate::util::*;
use quote::ToTokens;
use syn::visit::Visit;

pub fn run(item: &str, repo: &str, out: &str) -> Option<Result<String, String>> {
    match item {
        "filter-idl" => Some(filter_idl(repo, out)),
        _ => None,
    }
}

fn toks<T: ToTokens>(t: &T) -> String {
    t.to_token_stream().to_string()
}

fn kind_of(name: &str) -> Result<&'static str, String> {
    Ok(match name {
        "AllIds" => ".allIds",
        "Partial" => ".part",
        "PartialThreshold" => ".thres",
        "Indexed" => ".idxd",
        o => return Err(format!("unknown IdList variant {o}")),
    })
}

/// `IdList::K(x)` / `IdList::K(_)` / `IdList::AllIds` → (kind, bound variable)
fn idlist_pat(p: &syn::Pat) -> Result<(&'static str, Option<String>), String> {
    match p {
        syn::Pat::TupleStruct(ts) => {
            if ts.path.segments.len() != 2 || ts.path.segments[0].ident != "IdList" || ts.elems.len() != 1 {
                return Err(format!("unexpected pattern {}", toks(p)));
            }
            let k = kind_of(&ts.path.segments[1].ident.to_string())?;
            let v = match &ts.elems[0] {
                syn::Pat::Wild(_) => None,
                syn::Pat::Ident(id) if id.subpat.is_none() => Some(id.ident.to_string()),
                o => return Err(format!("unsupported sub-pattern {}", toks(o))),
            };
            Ok((k, v))
        }
        syn::Pat::Path(pp) => {
            if pp.path.segments.len() != 2 || pp.path.segments[0].ident != "IdList" {
                return Err(format!("unexpected pattern {}", toks(p)));
            }
            Ok((kind_of(&pp.path.segments[1].ident.to_string())?, None))
        }
        o => Err(format!("unsupported pattern {}", toks(o))),
    }
}

fn alternatives(p: &syn::Pat) -> Vec<&syn::Pat> {
    match p {
        syn::Pat::Or(o) => o.cases.iter().collect(),
        other => vec![other],
    }
}

/// `IdList::K(expr)` / `IdList::AllIds` as an expression → (kind, argument tokens)
fn idlist_expr(e: &syn::Expr) -> Result<(&'static str, Option<String>), String> {
    match e {
        syn::Expr::Call(c) => {
            let f = path_string(&c.func).ok_or(format!("unexpected call {}", toks(e)))?;
            let k = f.strip_prefix("IdList::").ok_or(format!("unexpected constructor {f}"))?;
            if c.args.len() != 1 {
                return Err(format!("unexpected arity in {}", toks(e)));
            }
            Ok((kind_of(k)?, Some(toks(&c.args[0]))))
        }
        syn::Expr::Path(_) => {
            let f = path_string(e).unwrap_or_default();
            let k = f.strip_prefix("IdList::").ok_or(format!("unexpected expression {f}"))?;
            Ok((kind_of(k)?, None))
        }
        syn::Expr::Block(b) if b.block.stmts.len() == 1 => match &b.block.stmts[0] {
            syn::Stmt::Expr(x, None) => idlist_expr(x),
            o => Err(format!("unexpected block {}", toks(o))),
        },
        o => Err(format!("unexpected expression {}", toks(o))),
    }
}

/// `return Ok((IdList::K(arg), setplan));` inside a block → (kind, arg tokens)
fn returned_idlist(b: &syn::Block) -> Result<(&'static str, Option<String>), String> {
    for s in &b.stmts {
        if let syn::Stmt::Expr(syn::Expr::Return(r), _) = s {
            let e = r.expr.as_ref().ok_or("bare return")?;
            if let syn::Expr::Call(c) = &**e {
                if path_string(&c.func).as_deref() == Some("Ok") && c.args.len() == 1 {
                    if let syn::Expr::Tuple(t) = &c.args[0] {
                        if t.elems.len() == 2 {
                            return idlist_expr(&t.elems[0]);
                        }
                    }
                }
            }
            return Err(format!("unexpected return {}", toks(s)));
        }
    }
    Err(format!("no return in {}", toks(b)))
}

struct Arm {
    pats: Vec<(&'static str, &'static str)>,
    op: &'static str,
    out: &'static str,
    thres_ret: bool,
    empty_ret: bool,
}

/// one arm of a `match (cand_idl, inter)` table
fn cand_arm(arm: &syn::Arm) -> Result<Arm, String> {
    if arm.guard.is_some() {
        return Err("guarded arm".into());
    }
    let mut pats = vec![];
    let mut left_vars = std::collections::BTreeSet::new();
    let mut right_vars = std::collections::BTreeSet::new();
    for alt in alternatives(&arm.pat) {
        let syn::Pat::Tuple(t) = alt else { return Err(format!("unsupported pattern {}", toks(alt))) };
        if t.elems.len() != 2 {
            return Err(format!("unsupported pattern {}", toks(alt)));
        }
        let (kl, vl) = idlist_pat(&t.elems[0])?;
        let (kr, vr) = idlist_pat(&t.elems[1])?;
        if (kl == ".allIds" && vl.is_some()) || (kr == ".allIds" && vr.is_some()) {
            return Err(format!("AllIds binds a variable in {}", toks(alt)));
        }
        left_vars.insert(vl);
        right_vars.insert(vr);
        pats.push((kl, kr));
    }
    let left_all_allids = pats.iter().all(|p| p.0 == ".allIds");
    let right_all_allids = pats.iter().all(|p| p.1 == ".allIds");
    // ---- body
    let body_block: Vec<syn::Stmt> = match &*arm.body {
        syn::Expr::Block(b) => b.block.stmts.clone(),
        other => vec![syn::Stmt::Expr(other.clone(), None)],
    };
    // plain `IdList::K(x)` / `IdList::AllIds`
    if body_block.len() == 1 {
        if let syn::Stmt::Expr(e, None) = &body_block[0] {
            let (k, arg) = idlist_expr(e)?;
            return match arg {
                None if k == ".allIds" => Ok(Arm { pats, op: ".none", out: k, thres_ret: false, empty_ret: false }),
                Some(v) => {
                    // the single variable bound by every alternative, the other side being AllIds
                    for alt in alternatives(&arm.pat) {
                        let syn::Pat::Tuple(t) = alt else { unreachable!() };
                        let (kl, vl) = idlist_pat(&t.elems[0])?;
                        let (kr, vr) = idlist_pat(&t.elems[1])?;
                        let ok = (kl == ".allIds" && vr.as_deref() == Some(v.as_str()))
                            || (kr == ".allIds" && vl.as_deref() == Some(v.as_str()));
                        if !ok {
                            return Err(format!("arm keeps `{v}` but {} does not bind it against AllIds", toks(alt)));
                        }
                    }
                    let _ = (left_all_allids, right_all_allids);
                    Ok(Arm { pats, op: ".bound", out: k, thres_ret: false, empty_ret: false })
                }
                None => Err(format!("unexpected arm body {}", toks(e))),
            };
        }
    }
    // `let r = <setop>; <tail>`
    let (lv, rv) = match (left_vars.len(), right_vars.len()) {
        (1, 1) => (left_vars.into_iter().next().unwrap(), right_vars.into_iter().next().unwrap()),
        _ => return Err(format!("alternatives bind different variables in {}", toks(&arm.pat))),
    };
    let (lv, rv) = (lv.ok_or("left side unbound")?, rv.ok_or("right side unbound")?);
    if body_block.len() != 2 {
        return Err(format!("unexpected arm body ({} statements): {}", body_block.len(), toks(&arm.body)));
    }
    let syn::Stmt::Local(l) = &body_block[0] else { return Err(format!("expected `let r = …`, found {}", toks(&body_block[0]))) };
    let rname = toks(&l.pat);
    let init = &l.init.as_ref().ok_or("let without initialiser")?.expr;
    let op = match &**init {
        syn::Expr::Binary(b) => {
            let (a, c) = (toks(&b.left), toks(&b.right));
            let ordered = (a == lv && c == rv) || (a == rv && c == lv);
            match b.op {
                syn::BinOp::BitAnd(_) if ordered => ".inter",
                syn::BinOp::BitOr(_) if ordered => ".union",
                _ => return Err(format!("unsupported set expression {}", toks(init))),
            }
        }
        syn::Expr::MethodCall(m) if m.method == "andnot" && m.args.len() == 1 => {
            let (a, c) = (toks(&m.receiver), toks(&m.args[0]));
            if a == lv && c == rv {
                ".diff"
            } else if a == rv && c == lv {
                ".diffRev"
            } else {
                return Err(format!("unsupported set expression {}", toks(init)));
            }
        }
        _ => return Err(format!("unsupported set expression {}", toks(init))),
    };
    let syn::Stmt::Expr(tail, None) = &body_block[1] else { return Err(format!("unexpected tail {}", toks(&body_block[1]))) };
    let below = format!("{rname} . below_threshold (thres) && f_rem_count > 0");
    let empty = format!("{rname} . is_empty ()");
    match tail {
        syn::Expr::If(i) => {
            if toks(&i.cond) != below {
                return Err(format!("unexpected condition `{}` (expected `{below}`)", toks(&i.cond)));
            }
            let (k, arg) = returned_idlist(&i.then_branch)?;
            if k != ".thres" || arg.as_deref() != Some(rname.as_str()) {
                return Err(format!("threshold branch returns {k}({arg:?})"));
            }
            let (_, els) = i.else_branch.as_ref().ok_or("threshold `if` without else")?;
            match &**els {
                syn::Expr::If(j) => {
                    if toks(&j.cond) != empty {
                        return Err(format!("unexpected condition `{}` (expected `{empty}`)", toks(&j.cond)));
                    }
                    let (k, arg) = returned_idlist(&j.then_branch)?;
                    if k != ".idxd" || arg.as_deref() != Some("IDLBitRange :: new ()") {
                        return Err(format!("empty branch returns {k}({arg:?})"));
                    }
                    let (_, els2) = j.else_branch.as_ref().ok_or("empty `if` without else")?;
                    let (out, arg) = idlist_expr(els2)?;
                    if arg.as_deref() != Some(rname.as_str()) {
                        return Err(format!("else branch keeps {arg:?}"));
                    }
                    Ok(Arm { pats, op, out, thres_ret: true, empty_ret: true })
                }
                other => {
                    let (out, arg) = idlist_expr(other)?;
                    if arg.as_deref() != Some(rname.as_str()) {
                        return Err(format!("else branch keeps {arg:?}"));
                    }
                    Ok(Arm { pats, op, out, thres_ret: true, empty_ret: false })
                }
            }
        }
        other => {
            let (out, arg) = idlist_expr(other)?;
            if arg.as_deref() != Some(rname.as_str()) {
                return Err(format!("arm keeps {arg:?}"));
            }
            Ok(Arm { pats, op, out, thres_ret: false, empty_ret: false })
        }
    }
}

fn render_table(name: &str, doc: &str, m: &syn::ExprMatch) -> Result<String, String> {
    let mut s = format!("/-- {doc} -/\ndef {name} : Kind → Kind → Arm\n");
    let mut seen = std::collections::BTreeSet::new();
    for arm in &m.arms {
        let a = cand_arm(arm).map_err(|e| format!("{name}, arm `{}`: {e}", toks(&arm.pat)))?;
        for p in &a.pats {
            if !seen.insert(*p) {
                return Err(format!("{name}: pattern {p:?} appears twice"));
            }
        }
        let pats = a.pats.iter().map(|(l, r)| format!("{l}, {r}")).collect::<Vec<_>>().join(" | ");
        s += &format!("  | {pats} => ⟨{}, {}, {}, {}⟩\n", a.op, a.out, a.thres_ret, a.empty_ret);
    }
    if seen.len() != 16 {
        return Err(format!("{name}: {} of 16 (cand, inter) combinations covered", seen.len()));
    }
    Ok(s)
}

struct Matches(Vec<syn::ExprMatch>);
impl<'ast> Visit<'ast> for Matches {
    fn visit_expr_match(&mut self, m: &'ast syn::ExprMatch) {
        self.0.push(m.clone());
        syn::visit::visit_expr_match(self, m);
    }
}
fn matches_in<T: ToTokens>(block: &T) -> Vec<syn::ExprMatch> {
    let mut v = Matches(vec![]);
    let e: syn::Expr = syn::parse2(quote::quote!({ #block })).expect("reparse");
    v.visit_expr(&e);
    v.0
}

/// default method of a trait
fn trait_fn(file: &syn::File, tr: &str, name: &str) -> Result<syn::Block, String> {
    for it in &file.items {
        if let syn::Item::Trait(t) = it {
            if t.ident == tr {
                for ti in &t.items {
                    if let syn::TraitItem::Fn(f) = ti {
                        if f.sig.ident == name {
                            return f.default.clone().ok_or(format!("{tr}::{name} has no default body"));
                        }
                    }
                }
            }
        }
    }
    Err(format!("{tr}::{name} not found"))
}

fn filter_idl(repo: &str, out: &str) -> Result<String, String> {
    let rel = "server/lib/src/be/mod.rs";
    let ast = parse_file(repo, rel)?;
    let mut body = String::from("namespace Kanidm.Filter\n\n");
    // ---- constants
    for (c, l) in [
        ("FILTER_SEARCH_TEST_THRESHOLD", "thresSearch"),
        ("FILTER_EXISTS_TEST_THRESHOLD", "thresExists"),
        ("FILTER_SUBSTR_TEST_THRESHOLD", "thresSubstr"),
    ] {
        let e = find_const(&ast, c).ok_or(format!("const {c} not found"))?;
        let v = eval_int(&e, &|_| None)?;
        if v < 0 {
            return Err(format!("{c} negative"));
        }
        body += &format!("def {l} : Nat := {v}\n");
    }
    // ---- filter2idl
    let f2i = trait_fn(&ast, "BackendTransaction", "filter2idl")?;
    let top = matches_in(&f2i);
    let top = top.iter().find(|m| toks(&m.expr) == "filt").ok_or("`match filt` not found in filter2idl")?;
    let arm_of = |variant: &str| -> Result<&syn::Arm, String> {
        top.arms
            .iter()
            .find(|a| toks(&a.pat).starts_with(&format!("FilterResolved :: {variant} (")))
            .ok_or(format!("arm FilterResolved::{variant} not found"))
    };
    // Or
    let or_arm = arm_of("Or")?;
    let or_ms = matches_in(&or_arm.body);
    let or_m = or_ms.iter().find(|m| toks(&m.expr) == "self . filter2idl (f , thres) ?").ok_or("Or: `match self.filter2idl(f, thres)?` not found")?;
    body += "\n/-- `FilterResolved::Or`: per kind of a child, `none` = return `AllIds`, `some (partial, threshold)` = flags set -/\ndef orArm : Kind → Option (Bool × Bool)\n";
    let mut seen = std::collections::BTreeSet::new();
    for arm in &or_m.arms {
        let syn::Pat::Tuple(t) = &arm.pat else { return Err(format!("Or arm pattern {}", toks(&arm.pat))) };
        let (k, v) = idlist_pat(&t.elems[0])?;
        seen.insert(k);
        let b = toks(&arm.body);
        if k == ".allIds" {
            if !b.contains("return Ok ((IdList :: AllIds , setplan))") {
                return Err(format!("Or/AllIds arm does not return AllIds: {b}"));
            }
            body += &format!("  | {k} => none\n");
        } else {
            let v = v.ok_or("Or arm without bound set")?;
            if !b.contains(&format!("result = result | {v}")) || b.contains("return") {
                return Err(format!("Or/{k} arm is not a union: {b}"));
            }
            body += &format!("  | {k} => some ({}, {})\n", b.contains("partial = true"), b.contains("threshold = true"));
        }
    }
    if seen.len() != 4 {
        return Err("Or: not all four IdList kinds covered".into());
    }
    let ob = toks(&or_arm.body);
    let tail = "if partial { if threshold { let setplan = FilterPlan :: OrPartialThreshold (plan) ; (IdList :: PartialThreshold (result) , setplan) } else { let setplan = FilterPlan :: OrPartial (plan) ; (IdList :: Partial (result) , setplan) } } else { let setplan = FilterPlan :: OrIndexed (plan) ; (IdList :: Indexed (result) , setplan) }";
    if !ob.contains(tail) {
        return Err("Or: the final partial/threshold/indexed selection changed shape".into());
    }
    // And
    let and_arm = arm_of("And")?;
    let and_ms = matches_in(&and_arm.body);
    let tables: Vec<&syn::ExprMatch> = and_ms.iter().filter(|m| toks(&m.expr) == "(cand_idl , inter)").collect();
    if tables.len() != 2 {
        return Err(format!("And: expected 2 `match (cand_idl, inter)` tables, found {}", tables.len()));
    }
    body += "\n";
    body += &render_table("andArm", "`FilterResolved::And`, positive loop: `match (cand_idl, inter)`, source order", tables[0])?;
    // pre-step of the AndNot loop
    let pre = and_ms.iter().filter(|m| toks(&m.expr) == "inter").collect::<Vec<_>>();
    body += "\n/-- `FilterResolved::And`, AndNot loop: `let inter = match inter {…}` applied before the table: `some k` = replaced by the empty set of kind `k` -/\ndef notPreKind : Kind → Option Kind\n";
    match pre.len() {
        0 => body += "  | _ => none\n",
        1 => {
            for arm in &pre[0].arms {
                match &arm.pat {
                    syn::Pat::Ident(id) => {
                        if toks(&arm.body) != id.ident.to_string() {
                            return Err(format!("AndNot pre-step: catch-all arm returns {}", toks(&arm.body)));
                        }
                        body += "  | _ => none\n";
                    }
                    p => {
                        let (k, v) = idlist_pat(p)?;
                        if v.is_some() {
                            return Err("AndNot pre-step binds the set".into());
                        }
                        let (k2, arg) = idlist_expr(&arm.body)?;
                        if arg.as_deref() != Some("IDLBitRange :: new ()") {
                            return Err(format!("AndNot pre-step: {k} is replaced by {k2}({arg:?})"));
                        }
                        body += &format!("  | {k} => some {k2}\n");
                    }
                }
            }
        }
        n => return Err(format!("And: {n} `match inter` expressions")),
    }
    body += "\n";
    body += &render_table("notArm", "`FilterResolved::And`, AndNot loop: `match (cand_idl, inter)`, source order", tables[1])?;
    // ---- search / exists re-test arms
    let search = trait_fn(&ast, "BackendTransaction", "search")?;
    let sm = matches_in(&search);
    let sm = sm.iter().find(|m| toks(&m.expr) == "idl").ok_or("search: `match idl` not found")?;
    body += "\n/-- `search`: is the candidate list re-tested with `entry_match_no_index`? -/\ndef searchRetest : Kind → Bool\n";
    let mut seen = std::collections::BTreeSet::new();
    for arm in &sm.arms {
        let (k, _) = idlist_pat(&arm.pat)?;
        seen.insert(k);
        let b = toks(&arm.body);
        let retest = b.contains(". filter (| e | e . entry_match_no_index (filt))");
        if !retest && !b.trim_end_matches(['}', ' ']).ends_with("entries") {
            return Err(format!("search/{k}: arm neither re-tests nor returns the entries: {b}"));
        }
        body += &format!("  | {k} => {retest}\n");
    }
    if seen.len() != 4 {
        return Err("search: not all four IdList kinds covered".into());
    }
    let exists = trait_fn(&ast, "BackendTransaction", "exists")?;
    let em = matches_in(&exists);
    let em = em
        .iter()
        .filter(|m| toks(&m.expr) == "& idl")
        .find(|m| toks(m).contains("is_empty"))
        .ok_or("exists: the answering `match &idl` not found")?;
    body += "\n/-- `exists`: `match &idl { Indexed(idl) => Ok(!idl.is_empty()), _ => re-test }` -/\ndef existsRetest : Kind → Bool\n";
    for arm in &em.arms {
        let b = toks(&arm.body);
        match &arm.pat {
            syn::Pat::Wild(_) => {
                if !b.contains(". filter (| e | e . entry_match_no_index (filt))") || !b.contains("Ok (! entries_filtered . is_empty ())") {
                    return Err(format!("exists: catch-all arm does not re-test: {b}"));
                }
                body += "  | _ => true\n";
            }
            p => {
                let (k, v) = idlist_pat(p)?;
                let v = v.ok_or("exists: arm without bound set")?;
                if b != format!("Ok (! {v} . is_empty ())") {
                    return Err(format!("exists/{k}: unexpected body {b}"));
                }
                body += &format!("  | {k} => false\n");
            }
        }
    }
    body += "\nend Kanidm.Filter\n";
    let text = format!("import KanidmModel.Filter.IdlTypes\n{}", "");
    let _ = text;
    write_generated_with_import(out, "FilterIdl", &format!("{rel} (consts FILTER_*_THRESHOLD; fn filter2idl: Or / And / AndNot arm tables; fn search / exists: re-test arms), item filter-idl"), &body)?;
    Ok("FilterIdl: 3 constants, orArm, andArm, notPreKind, notArm, searchRetest, existsRetest".to_string())
}

/// like `write_generated`, with the import line the tables need in front
fn write_generated_with_import(out_dir: &str, module: &str, header_src: &str, body: &str) -> Result<(), String> {
    let path = format!("{out_dir}/{module}.lean");
    let text = format!(
        "import KanidmModel.Filter.IdlTypes\n-- GENERATED by vtranslate from {header_src}. Do not edit: rewritten on every check run.\nset_option linter.unusedVariables false\n{body}"
    );
    if std::fs::read_to_string(&path).map(|old| old == text).unwrap_or(false) {
        return Ok(());
    }
    std::fs::write(&path, text).map_err(|e| format!("{path}: {e}"))
}
