//! C10 translator items.
use super::vars;
use crate::util::*;

pub fn run(item: &str, repo: &str, out: &str) -> Option<Result<String, String>> {
    match item {
        "rangediff-ops" => Some(rangediff_ops(repo, out)),
        "supplier-status-map" => Some(supplier_status_map(repo, out)),
        "range-entry-ops" => Some(range_entry_ops(repo, out)),
        _ => None,
    }
}

/// C10: the three comparison conditions of `ReplicationUpdateVector::range_diff`.
fn rangediff_ops(repo: &str, out: &str) -> Result<String, String> {
    let rel = "server/lib/src/repl/ruv.rs";
    let ast = parse_file(repo, rel)?;
    let f = find_fn(&ast, "ReplicationUpdateVector::range_diff")?;
    let conds = if_conditions(&f.block);
    // `if !valid_content_overlap` is the 4th; the first three are the window comparisons
    let v = vars(&[
        ("consumer_cid_range.ts_min", "cmin"),
        ("consumer_cid_range.ts_max", "cmax"),
        ("supplier_cid_range.ts_min", "smin"),
        ("supplier_cid_range.ts_max", "smax"),
    ]);
    let mut window = vec![];
    let mut others = vec![];
    for c in &conds {
        match lean_expr(c, &v) {
            Ok(s) => window.push((quote::ToTokens::to_token_stream(c).to_string(), s)),
            Err(_) => others.push(quote::ToTokens::to_token_stream(c).to_string()),
        }
    }
    if window.len() != 3 {
        return Err(format!(
            "expected exactly 3 window comparisons in range_diff, found {} ({:?}); other conditions: {:?}",
            window.len(), window, others
        ));
    }
    if others != vec!["! valid_content_overlap".to_string()] {
        return Err(format!("unexpected extra conditions in range_diff: {others:?}"));
    }
    let mut body = String::from("namespace Kanidm.Gen.RangeDiff\n");
    for (i, (src, lean)) in window.iter().enumerate() {
        body += &format!("/-- `{src}` -/\ndef cond{i} (cmin cmax smin smax : Nat) : Bool := {lean}\n");
    }
    body += "def numConds : Nat := 3\nend Kanidm.Gen.RangeDiff\n";
    write_generated(out, "RangeDiffOps", &format!("{rel} (fn range_diff)"), &body)?;
    Ok(format!("RangeDiffOps: {} conditions", window.len()))
}

// ---------------------------------------------------------------------------------------------
// supplier-status-map: `QueryServerReadTransaction::supplier_provide_changes` (repl/supplier.rs)
// ---------------------------------------------------------------------------------------------

use quote::ToTokens;
use std::collections::BTreeMap;

/// What a tracked local of `supplier_provide_changes` holds.
#[derive(Clone, Debug, PartialEq, Eq)]
enum Loc {
    ReqDomain,   // `domain_uuid` of the request's `ReplRuvRange::V1`
    ReqRanges,   // `ranges` of the request's `ReplRuvRange::V1` (the consumer's windows)
    TrimCid,     // `self.trim_cid().clone()`
    SupplierRuv, // `self.get_be_txn().get_ruv()`
    OwnRanges,   // `<SupplierRuv>.filter_ruv_range(&<TrimCid>)` (the supplier's windows)
    Status,      // result of `ReplicationUpdateVector::range_diff(..)`
    Ranges,      // result of the `match` over the status: the ranges to supply
    Anchored,    // `<SupplierRuv>.get_anchored_ranges(<Ranges>)`
}

const LOG_MACROS: &[&str] = &[
    "error", "warn", "info", "debug", "trace", "admin_error", "admin_warn", "admin_info",
    "admin_debug", "security_info", "security_error", "request_error",
];
const REPLIES: &[(&str, &str)] = &[
    ("DomainMismatch", "domainMismatch"),
    ("NoChangesAvailable", "noChangesAvailable"),
    ("RefreshRequired", "refreshRequired"),
    ("UnwillingToSupply", "unwillingToSupply"),
];

fn toks<T: ToTokens>(t: &T) -> String {
    t.to_token_stream().to_string()
}

/// Token text without any whitespace (for comparing against fixed shapes).
fn nsp<T: ToTokens>(t: &T) -> String {
    toks(t).chars().filter(|c| !c.is_whitespace()).collect()
}

fn single_ident(e: &syn::Expr) -> Option<String> {
    match e {
        syn::Expr::Path(p) if p.qself.is_none() && p.path.segments.len() == 1 => {
            Some(p.path.segments[0].ident.to_string())
        }
        syn::Expr::Paren(p) => single_ident(&p.expr),
        _ => None,
    }
}

/// `&x` → x
fn ref_ident(e: &syn::Expr) -> Option<String> {
    match e {
        syn::Expr::Reference(r) if r.mutability.is_none() => single_ident(&r.expr),
        _ => None,
    }
}

fn is_log_macro(m: &syn::Macro) -> bool {
    m.path.segments.last().map(|s| LOG_MACROS.contains(&s.ident.to_string().as_str())).unwrap_or(false)
}

fn count_returns(b: &syn::Block) -> usize {
    struct V(usize);
    impl<'ast> syn::visit::Visit<'ast> for V {
        fn visit_expr_return(&mut self, r: &'ast syn::ExprReturn) {
            self.0 += 1;
            syn::visit::visit_expr_return(self, r);
        }
    }
    let mut v = V(0);
    syn::visit::Visit::visit_block(&mut v, b);
    v.0
}

/// `Ok(ReplIncrementalContext::<Unit variant>)` → Lean constructor name of `Reply`.
fn ok_reply(e: &syn::Expr) -> Result<&'static str, String> {
    let bad = || format!("expected `Ok(ReplIncrementalContext::<unit variant>)`, found `{}`", toks(e));
    let syn::Expr::Call(c) = e else { return Err(bad()) };
    if path_string(&c.func).as_deref() != Some("Ok") || c.args.len() != 1 {
        return Err(bad());
    }
    let p = match &c.args[0] {
        syn::Expr::Path(_) => path_string(&c.args[0]).ok_or_else(bad)?,
        _ => return Err(bad()),
    };
    let Some(v) = p.strip_prefix("ReplIncrementalContext::") else { return Err(bad()) };
    REPLIES
        .iter()
        .find(|(r, _)| *r == v)
        .map(|(_, l)| *l)
        .ok_or_else(|| format!("unknown ReplIncrementalContext variant `{v}` returned"))
}

/// A block `{ <logging macros>* return Ok(ReplIncrementalContext::X); }` → X.
fn returning_block(b: &syn::Block) -> Result<&'static str, String> {
    let n = b.stmts.len();
    if n == 0 {
        return Err("empty block where `return Ok(ReplIncrementalContext::..)` was expected".into());
    }
    for s in &b.stmts[..n - 1] {
        match s {
            syn::Stmt::Macro(m) if is_log_macro(&m.mac) => {}
            other => return Err(format!("unexpected statement before the return: `{}`", toks(other))),
        }
    }
    match &b.stmts[n - 1] {
        syn::Stmt::Expr(syn::Expr::Return(r), _) => match &r.expr {
            Some(e) => ok_reply(e),
            None => Err("bare `return`".into()),
        },
        other => Err(format!("block does not end in `return Ok(..)`: `{}`", toks(other))),
    }
}

/// Strip `?` and `.map_err(..)` / `.inspect_err(..)` adaptors (error path only).
fn peel_err(e: &syn::Expr) -> &syn::Expr {
    match e {
        syn::Expr::Try(t) => peel_err(&t.expr),
        syn::Expr::MethodCall(m) if m.method == "map_err" || m.method == "inspect_err" => peel_err(&m.receiver),
        syn::Expr::Paren(p) => peel_err(&p.expr),
        _ => e,
    }
}

fn pat_ident(p: &syn::Pat) -> Option<String> {
    match p {
        syn::Pat::Ident(i) if i.by_ref.is_none() && i.mutability.is_none() && i.subpat.is_none() => {
            Some(i.ident.to_string())
        }
        _ => None,
    }
}

/// All identifiers a pattern binds.
fn pat_binds(p: &syn::Pat) -> Vec<String> {
    struct V(Vec<String>);
    impl<'ast> syn::visit::Visit<'ast> for V {
        fn visit_pat_ident(&mut self, i: &'ast syn::PatIdent) {
            self.0.push(i.ident.to_string());
            syn::visit::visit_pat_ident(self, i);
        }
    }
    let mut v = V(vec![]);
    syn::visit::Visit::visit_pat(&mut v, p);
    v.0
}

/// `Enum::Variant { a, b: c }` → (variant, {field ↦ bound ident}); `Enum::Variant(x)` → {"0" ↦ x}.
fn variant_pat(p: &syn::Pat, en: &str) -> Result<(String, BTreeMap<String, String>), String> {
    let var_of = |path: &syn::Path| -> Result<String, String> {
        let segs: Vec<String> = path.segments.iter().map(|s| s.ident.to_string()).collect();
        if segs.len() == 2 && segs[0] == en {
            Ok(segs[1].clone())
        } else {
            Err(format!("pattern `{}` is not a `{en}::<Variant>`", toks(p)))
        }
    };
    let mut binds = BTreeMap::new();
    match p {
        syn::Pat::Path(pp) => Ok((var_of(&pp.path)?, binds)),
        syn::Pat::TupleStruct(ts) => {
            for (i, e) in ts.elems.iter().enumerate() {
                let id = pat_ident(e).ok_or_else(|| format!("unsupported sub-pattern `{}`", toks(e)))?;
                binds.insert(i.to_string(), id);
            }
            Ok((var_of(&ts.path)?, binds))
        }
        syn::Pat::Struct(st) => {
            for f in &st.fields {
                let syn::Member::Named(name) = &f.member else {
                    return Err(format!("unsupported field pattern `{}`", toks(f)));
                };
                let id = pat_ident(&f.pat).ok_or_else(|| format!("unsupported sub-pattern `{}`", toks(&f.pat)))?;
                binds.insert(name.to_string(), id);
            }
            Ok((var_of(&st.path)?, binds))
        }
        _ => Err(format!("unsupported pattern `{}` (wildcards / or-patterns are not recognised)", toks(p))),
    }
}

/// `{ <logging macros>* ident }` → ident
fn block_tail_ident(e: &syn::Expr) -> Option<String> {
    let syn::Expr::Block(b) = e else { return None };
    if b.label.is_some() || !b.attrs.is_empty() {
        return None;
    }
    let n = b.block.stmts.len();
    if n == 0 {
        return None;
    }
    for s in &b.block.stmts[..n - 1] {
        match s {
            syn::Stmt::Macro(m) if is_log_macro(&m.mac) => {}
            _ => return None,
        }
    }
    match &b.block.stmts[n - 1] {
        syn::Stmt::Expr(e, None) => single_ident(e),
        _ => None,
    }
}

struct Arm {
    lean: String, // `.cont .okRanges` | `.ret .refreshRequired`
    src: String,
    returns: bool,
}

/// The `match <status> { … }` over `RangeDiffStatus`.
fn status_match(m: &syn::ExprMatch) -> Result<BTreeMap<&'static str, Arm>, String> {
    // (Rust variant, Lean kind, payload fields ↦ Lean `Src`)
    let kinds: &[(&str, &str, &[(&str, &str)])] = &[
        ("Ok", "ok", &[("0", "okRanges")]),
        ("Refresh", "refresh", &[("lag_range", "lagRange")]),
        ("Unwilling", "unwilling", &[("adv_range", "advRange")]),
        ("Critical", "critical", &[("lag_range", "lagRange"), ("adv_range", "advRange")]),
        ("NoRUVOverlap", "noOverlap", &[]),
    ];
    let mut out: BTreeMap<&'static str, Arm> = BTreeMap::new();
    for arm in &m.arms {
        if arm.guard.is_some() {
            return Err(format!("match arm `{}` has a guard", toks(&arm.pat)));
        }
        let (var, binds) = variant_pat(&arm.pat, "RangeDiffStatus")?;
        let (_, kind, fields) = kinds
            .iter()
            .find(|(v, _, _)| *v == var)
            .ok_or_else(|| format!("unknown RangeDiffStatus variant `{var}`"))?;
        if out.contains_key(kind) {
            return Err(format!("RangeDiffStatus::{var} matched twice"));
        }
        let src = format!("{} => {}", toks(&arm.pat), toks(&*arm.body));
        let parsed = if let Some(id) = single_ident(&arm.body) {
            // continue with one of the payloads of this very arm
            let field = binds
                .iter()
                .find(|(_, b)| **b == id)
                .map(|(f, _)| f.clone())
                .ok_or_else(|| format!("arm `{src}` evaluates to `{id}`, which its pattern does not bind"))?;
            let s = fields
                .iter()
                .find(|(f, _)| *f == field)
                .map(|(_, s)| *s)
                .ok_or_else(|| format!("arm `{src}`: unknown payload field `{field}`"))?;
            Arm { lean: format!(".cont .{s}"), src, returns: false }
        } else if let Some(id) = block_tail_ident(&arm.body) {
            // `{ <logging>* payload }`
            let field = binds
                .iter()
                .find(|(_, b)| **b == id)
                .map(|(f, _)| f.clone())
                .ok_or_else(|| format!("arm `{src}` evaluates to `{id}`, which its pattern does not bind"))?;
            let s = fields
                .iter()
                .find(|(f, _)| *f == field)
                .map(|(_, s)| *s)
                .ok_or_else(|| format!("arm `{src}`: unknown payload field `{field}`"))?;
            Arm { lean: format!(".cont .{s}"), src, returns: false }
        } else if let syn::Expr::Block(b) = &*arm.body {
            if b.label.is_some() || !b.attrs.is_empty() {
                return Err(format!("unsupported arm body `{src}`"));
            }
            let r = returning_block(&b.block).map_err(|e| format!("arm RangeDiffStatus::{var}: {e}"))?;
            Arm { lean: format!(".ret .{r}"), src, returns: true }
        } else if let syn::Expr::Return(r) = &*arm.body {
            let e = r.expr.as_ref().ok_or("bare return")?;
            Arm { lean: format!(".ret .{}", ok_reply(e)?), src, returns: true }
        } else {
            return Err(format!("unrecognised arm body `{src}`"));
        };
        out.insert(kind, parsed);
    }
    for (v, k, _) in kinds {
        if !out.contains_key(k) {
            return Err(format!("no arm for RangeDiffStatus::{v}"));
        }
    }
    Ok(out)
}

/// C10: argument order and provenance of the `range_diff` call in `supplier_provide_changes`,
/// the `RangeDiffStatus` → `ReplIncrementalContext` mapping, the empty-ranges test and the
/// domain test, as a Lean table.
fn supplier_status_map(repo: &str, out: &str) -> Result<String, String> {
    let rel = "server/lib/src/repl/supplier.rs";
    let ast = parse_file(repo, rel)?;
    let f = find_fn(&ast, "QueryServerReadTransaction::supplier_provide_changes")?;

    // -- signature: (&mut self, <req>: ReplRuvRange)
    let mut params = vec![];
    for a in &f.sig.inputs {
        if let syn::FnArg::Typed(t) = a {
            let id = pat_ident(&t.pat).ok_or_else(|| format!("unsupported parameter `{}`", toks(a)))?;
            params.push((id, toks(&*t.ty)));
        }
    }
    if params.len() != 1 || params[0].1 != "ReplRuvRange" {
        return Err(format!("expected exactly one parameter of type ReplRuvRange, found {params:?}"));
    }
    let req = params[0].0.clone();

    let mut env: BTreeMap<String, Loc> = BTreeMap::new();
    let mut accounted_returns = 0usize;
    let mut domain_reply: Option<&'static str> = None;
    let mut empty_reply: Option<&'static str> = None;
    let mut call_src = String::new();
    let mut consumer_first: Option<bool> = None;
    let mut arms: Option<BTreeMap<&'static str, Arm>> = None;
    let mut seen_match = false;
    let mut after_match_nonlog = 0usize; // non-logging statements seen after the match
    let mut retrieve_ok = false;
    let mut final_ok = false;

    let get = |env: &BTreeMap<String, Loc>, id: &str| env.get(id).cloned();
    let n_stmts = f.block.stmts.len();

    for (si, stmt) in f.block.stmts.iter().enumerate() {
        match stmt {
            syn::Stmt::Macro(m) if is_log_macro(&m.mac) => continue,
            syn::Stmt::Local(l) => {
                let binds = pat_binds(&l.pat);
                let init = l.init.as_ref().ok_or_else(|| format!("`{}` has no initialiser", toks(stmt)))?;
                if init.diverge.is_some() {
                    return Err(format!("let-else is not recognised: `{}`", toks(stmt)));
                }
                let e = peel_err(&init.expr);
                for b in &binds {
                    // a tracked local may only be re-bound to the same thing (second RUV snapshot)
                    // or, for the chosen ranges, to their anchored form
                    let ok = match get(&env, b) {
                        None => true,
                        Some(Loc::SupplierRuv) => nsp(e) == "self.get_be_txn().get_ruv()",
                        Some(Loc::Ranges) => matches!(e, syn::Expr::MethodCall(mc) if mc.method == "get_anchored_ranges"),
                        Some(_) => false,
                    };
                    if !ok {
                        return Err(format!("tracked local `{b}` is re-bound by `{}`", toks(stmt)));
                    }
                }
                if seen_match {
                    after_match_nonlog += 1;
                }
                // (a) destructuring of the request
                if let syn::Expr::Match(m) = e {
                    let scrut = single_ident(&m.expr);
                    if scrut.as_deref() == Some(req.as_str()) {
                        if m.arms.len() != 1 || m.arms[0].guard.is_some() {
                            return Err("request `match` must have the single arm ReplRuvRange::V1 { .. }".into());
                        }
                        let (var, fb) = variant_pat(&m.arms[0].pat, "ReplRuvRange")?;
                        if var != "V1" {
                            return Err(format!("unexpected request variant {var}"));
                        }
                        let syn::Expr::Tuple(t) = &*m.arms[0].body else {
                            return Err(format!("request arm body `{}` is not a tuple", toks(&*m.arms[0].body)));
                        };
                        let syn::Pat::Tuple(pt) = &l.pat else {
                            return Err(format!("request is not destructured into a tuple: `{}`", toks(&l.pat)));
                        };
                        if pt.elems.len() != t.elems.len() {
                            return Err("tuple arity mismatch in request destructuring".into());
                        }
                        for (pe, te) in pt.elems.iter().zip(t.elems.iter()) {
                            let local = pat_ident(pe).ok_or_else(|| format!("unsupported pattern `{}`", toks(pe)))?;
                            let inner = single_ident(te).ok_or_else(|| format!("unsupported tuple element `{}`", toks(te)))?;
                            let field = fb.iter().find(|(_, b)| **b == inner).map(|(f, _)| f.as_str());
                            match field {
                                Some("domain_uuid") => env.insert(local, Loc::ReqDomain),
                                Some("ranges") => env.insert(local, Loc::ReqRanges),
                                _ => return Err(format!("tuple element `{inner}` is not a field of the request")),
                            };
                        }
                        continue;
                    }
                    if scrut.as_ref().and_then(|s| get(&env, s)) == Some(Loc::Status) {
                        if seen_match {
                            return Err("the range_diff status is matched twice".into());
                        }
                        let a = status_match(m)?;
                        accounted_returns += a.values().filter(|x| x.returns).count();
                        arms = Some(a);
                        let id = pat_ident(&l.pat).ok_or_else(|| format!("unsupported pattern `{}`", toks(&l.pat)))?;
                        env.insert(id, Loc::Ranges);
                        seen_match = true;
                        continue;
                    }
                }
                let one = if binds.len() == 1 { pat_ident(&l.pat) } else { None };
                // (b) self.trim_cid().clone()
                let t = toks(e);
                if nsp(e) == "self.trim_cid().clone()" {
                    env.insert(one.ok_or("unsupported pattern for trim_cid")?, Loc::TrimCid);
                    continue;
                }
                // (c) self.get_be_txn().get_ruv()
                if nsp(e) == "self.get_be_txn().get_ruv()" {
                    let id = one.ok_or("unsupported pattern for get_ruv")?;
                    // the same snapshot may be taken a second time after the match (anchoring)
                    env.insert(id, Loc::SupplierRuv);
                    continue;
                }
                if let syn::Expr::MethodCall(mc) = e {
                    let recv = single_ident(&mc.receiver).and_then(|r| get(&env, &r));
                    // (d) <ruv>.filter_ruv_range(&<trim_cid>)
                    if mc.method == "filter_ruv_range" {
                        let arg = mc.args.first().and_then(ref_ident).and_then(|a| get(&env, &a));
                        if recv != Some(Loc::SupplierRuv) || arg != Some(Loc::TrimCid) || mc.args.len() != 1 {
                            return Err(format!(
                                "`{t}`: expected <self.get_be_txn().get_ruv()>.filter_ruv_range(&<self.trim_cid().clone()>)"
                            ));
                        }
                        env.insert(one.ok_or("unsupported pattern for filter_ruv_range")?, Loc::OwnRanges);
                        continue;
                    }
                    // (g) <ruv>.get_anchored_ranges(<ranges>)
                    if mc.method == "get_anchored_ranges" {
                        let arg = mc.args.first().and_then(single_ident).and_then(|a| get(&env, &a));
                        if recv != Some(Loc::SupplierRuv) || arg != Some(Loc::Ranges) || mc.args.len() != 1 {
                            return Err(format!("`{t}`: expected <supplier ruv>.get_anchored_ranges(<ranges of the match>)"));
                        }
                        env.insert(one.ok_or("unsupported pattern for get_anchored_ranges")?, Loc::Anchored);
                        continue;
                    }
                    // <be>.retrieve_range(&<ranges>)
                    if mc.method == "retrieve_range" {
                        let arg = mc.args.first().and_then(ref_ident).and_then(|a| get(&env, &a));
                        if nsp(&*mc.receiver) != "self.get_be_txn()" || arg != Some(Loc::Ranges) {
                            return Err(format!("`{t}`: expected self.get_be_txn().retrieve_range(&<ranges of the match>)"));
                        }
                        retrieve_ok = true;
                        continue;
                    }
                }
                // (e) ReplicationUpdateVector::range_diff(&X, &Y)
                if let syn::Expr::Call(c) = e {
                    if path_string(&c.func).as_deref() == Some("ReplicationUpdateVector::range_diff") {
                        if consumer_first.is_some() {
                            return Err("range_diff is called twice".into());
                        }
                        if c.args.len() != 2 {
                            return Err(format!("`{t}`: expected two arguments"));
                        }
                        let a0 = ref_ident(&c.args[0]).ok_or_else(|| format!("`{t}`: 1st argument is not `&local`"))?;
                        let a1 = ref_ident(&c.args[1]).ok_or_else(|| format!("`{t}`: 2nd argument is not `&local`"))?;
                        consumer_first = Some(match (get(&env, &a0), get(&env, &a1)) {
                            (Some(Loc::ReqRanges), Some(Loc::OwnRanges)) => true,
                            (Some(Loc::OwnRanges), Some(Loc::ReqRanges)) => false,
                            (x, y) => {
                                return Err(format!(
                                    "`{t}`: arguments must be the request's ranges and the supplier's filtered RUV ranges, \
                                     found {a0}={x:?}, {a1}={y:?}"
                                ))
                            }
                        });
                        call_src = t.clone();
                        env.insert(one.ok_or("unsupported pattern for range_diff")?, Loc::Status);
                        continue;
                    }
                }
                // any other local: must not consume the status or the request ranges in a way we do not model
                if t.contains("range_diff") {
                    return Err(format!("unrecognised use of range_diff: `{t}`"));
                }
                continue;
            }
            syn::Stmt::Expr(syn::Expr::If(i), _) => {
                if seen_match {
                    after_match_nonlog += 1;
                }
                let rets = {
                    let mut n = count_returns(&i.then_branch);
                    if let Some((_, e)) = &i.else_branch {
                        struct V(usize);
                        impl<'ast> syn::visit::Visit<'ast> for V {
                            fn visit_expr_return(&mut self, _: &'ast syn::ExprReturn) {
                                self.0 += 1;
                            }
                        }
                        let mut v = V(0);
                        syn::visit::Visit::visit_expr(&mut v, e);
                        n += v.0;
                    }
                    n
                };
                if rets == 0 {
                    continue;
                }
                if i.else_branch.is_some() {
                    return Err(format!("unexpected `if .. else` with an early return: `{}`", toks(&*i.cond)));
                }
                // domain test: `<req domain> != self.d_info.d_uuid`
                if let syn::Expr::Binary(b) = &*i.cond {
                    if matches!(b.op, syn::BinOp::Ne(_)) && !seen_match && consumer_first.is_none() {
                        let l = single_ident(&b.left).and_then(|x| get(&env, &x));
                        let r = single_ident(&b.right).and_then(|x| get(&env, &x));
                        let (lt, rt) = (nsp(&*b.left), nsp(&*b.right));
                        let own = "self.d_info.d_uuid";
                        if (l == Some(Loc::ReqDomain) && rt == own) || (r == Some(Loc::ReqDomain) && lt == own) {
                            if domain_reply.is_some() {
                                return Err("two domain tests".into());
                            }
                            domain_reply = Some(returning_block(&i.then_branch).map_err(|e| format!("domain test: {e}"))?);
                            accounted_returns += 1;
                            continue;
                        }
                    }
                }
                // empty test: `<ranges>.is_empty()`, the first non-logging statement after the match
                if let syn::Expr::MethodCall(mc) = &*i.cond {
                    let recv = single_ident(&mc.receiver).and_then(|x| get(&env, &x));
                    if mc.method == "is_empty" && mc.args.is_empty() && recv == Some(Loc::Ranges) {
                        if after_match_nonlog != 1 || empty_reply.is_some() {
                            return Err("`ranges.is_empty()` test is not the first statement after the status match".into());
                        }
                        empty_reply = Some(returning_block(&i.then_branch).map_err(|e| format!("empty test: {e}"))?);
                        accounted_returns += 1;
                        continue;
                    }
                }
                return Err(format!("unrecognised early return under `if {}`", toks(&*i.cond)));
            }
            syn::Stmt::Expr(e, None) if si == n_stmts - 1 => {
                // final value: Ok(ReplIncrementalContext::V1 { .., ranges, .. })
                let bad = || format!("final expression is not `Ok(ReplIncrementalContext::V1 {{ .. }})`: `{}`", toks(e));
                let syn::Expr::Call(c) = e else { return Err(bad()) };
                if path_string(&c.func).as_deref() != Some("Ok") || c.args.len() != 1 {
                    return Err(bad());
                }
                let syn::Expr::Struct(st) = &c.args[0] else { return Err(bad()) };
                if nsp(&st.path) != "ReplIncrementalContext::V1" || st.rest.is_some() {
                    return Err(bad());
                }
                let fld = st
                    .fields
                    .iter()
                    .find(|f| matches!(&f.member, syn::Member::Named(n) if n == "ranges"))
                    .ok_or_else(bad)?;
                let v = single_ident(&fld.expr).and_then(|x| get(&env, &x));
                if v != Some(Loc::Anchored) {
                    return Err(format!(
                        "V1.ranges is `{}` ({v:?}); expected the anchored form of the ranges chosen by the status match",
                        toks(&fld.expr)
                    ));
                }
                final_ok = true;
            }
            other => {
                if count_returns(&syn::Block { brace_token: Default::default(), stmts: vec![other.clone()] }) > 0 {
                    return Err(format!("unrecognised statement with an early return: `{}`", toks(other)));
                }
                if seen_match {
                    after_match_nonlog += 1;
                }
            }
        }
    }

    let total_returns = count_returns(&f.block);
    if total_returns != accounted_returns {
        return Err(format!(
            "supplier_provide_changes has {total_returns} `return`s, {accounted_returns} recognised (domain test, status arms, empty test)"
        ));
    }
    let consumer_first = consumer_first.ok_or("no call ReplicationUpdateVector::range_diff(&_, &_) found")?;
    let arms = arms.ok_or("no `match` over the range_diff status found")?;
    if !retrieve_ok {
        return Err("self.get_be_txn().retrieve_range(&<ranges>) not found".into());
    }
    if !final_ok {
        return Err("final `Ok(ReplIncrementalContext::V1 { .. })` not found".into());
    }

    let opt = |r: Option<&str>| match r {
        Some(x) => format!("some .{x}"),
        None => "none".to_string(),
    };
    let mut body = String::from("namespace Kanidm.Gen.SupplierMap\n");
    body += "/-- Unit variants of `ReplIncrementalContext` (repl/proto.rs) a decision can return. -/\n";
    body += "inductive Reply where\n";
    for (_, l) in REPLIES {
        body += &format!("  | {l}\n");
    }
    body += "deriving DecidableEq, Repr\n";
    body += "/-- Variants of `RangeDiffStatus`, the scrutinee of the `match` in `supplier_provide_changes`. -/\n";
    body += "inductive Kind where\n  | ok\n  | refresh\n  | unwilling\n  | critical\n  | noOverlap\nderiving DecidableEq, Repr\n";
    body += "/-- Which payload of the matched status an arm hands on as the ranges to supply. -/\n";
    body += "inductive Src where\n  | okRanges\n  | lagRange\n  | advRange\nderiving DecidableEq, Repr\n";
    body += "/-- An arm either continues with a payload or returns a unit reply. -/\n";
    body += "inductive Arm where\n  | cont (s : Src)\n  | ret (r : Reply)\nderiving DecidableEq, Repr\n";
    body += "/-- The `match` over the status, arm by arm, as it is in the source now. -/\n";
    body += "def supplierMap : Kind → Arm\n";
    for k in ["ok", "refresh", "unwilling", "critical", "noOverlap"] {
        let a = &arms[k];
        let src: String = a.src.split("=>").next().unwrap_or("").trim().chars().take(80).collect::<String>();
        body += &format!("  | .{k} => {}  -- `{}`\n", a.lean, src.replace('`', "'"));
    }
    body += &format!(
        "/-- `{}`: `true` = the request's (consumer's) ranges are the 1st argument and the supplier's own\nfiltered RUV ranges the 2nd. -/\ndef consumerArgFirst : Bool := {}\n",
        call_src, consumer_first
    );
    body += &format!(
        "/-- `if ranges.is_empty() {{ return Ok(..) }}` right after the match (`none` = no such test). -/\ndef emptyRangesReply : Option Reply := {}\n",
        opt(empty_reply)
    );
    body += &format!(
        "/-- `if ctx_domain_uuid != self.d_info.d_uuid {{ return Ok(..) }}` before anything else (`none` = no such test). -/\ndef domainMismatchReply : Option Reply := {}\n",
        opt(domain_reply)
    );
    body += "end Kanidm.Gen.SupplierMap\n";
    write_generated(out, "SupplierMap", &format!("{rel} (fn supplier_provide_changes)"), &body)?;
    Ok(format!(
        "SupplierMap: 5 arms, consumerArgFirst={consumer_first}, empty={:?}, domain={:?}",
        empty_reply, domain_reply
    ))
}

// ---------------------------------------------------------------------------------------------
// range-entry-ops: bound kinds of `range_to_idl` (repl/ruv.rs) and the per-attribute window test of
// `ReplIncrementalEntryV1::new` (repl/proto.rs)
// ---------------------------------------------------------------------------------------------

struct Finder {
    ranges: Vec<syn::ExprMethodCall>,
    closures: Vec<syn::ExprClosure>,
    unwrap_or: Vec<String>,
    is_repl: usize,
}
impl<'ast> syn::visit::Visit<'ast> for Finder {
    fn visit_expr_method_call(&mut self, m: &'ast syn::ExprMethodCall) {
        if m.method == "range" {
            self.ranges.push(m.clone());
        }
        if m.method == "unwrap_or" && m.args.len() == 1 {
            self.unwrap_or.push(nsp(&m.args[0]));
        }
        if m.method == "is_replicated" {
            self.is_repl += 1;
        }
        syn::visit::visit_expr_method_call(self, m);
    }
    fn visit_expr_closure(&mut self, c: &'ast syn::ExprClosure) {
        if c.inputs.len() == 1 && nsp(&c.inputs[0]) == "repl_range" {
            self.closures.push(c.clone());
        }
        syn::visit::visit_expr_closure(self, c);
    }
}

fn bound(e: &syn::Expr, which: &str) -> Result<String, String> {
    let t = nsp(e);
    let var = if which == "lower" { "rmin" } else { "rmax" };
    let field = if which == "lower" { "ctx_range.ts_min" } else { "ctx_range.ts_max" };
    let cmp = |strict: bool| match (which, strict) {
        ("lower", true) => format!("decide ({var} < ts)"),
        ("lower", false) => format!("decide ({var} ≤ ts)"),
        (_, true) => format!("decide (ts < {var})"),
        (_, false) => format!("decide (ts ≤ {var})"),
    };
    if t == "Unbounded" {
        Ok("true".into())
    } else if t == format!("Excluded({field})") {
        Ok(cmp(true))
    } else if t == format!("Included({field})") {
        Ok(cmp(false))
    } else {
        Err(format!("range_to_idl: unrecognised {which} bound `{t}`"))
    }
}

fn range_entry_ops(repo: &str, out: &str) -> Result<String, String> {
    use syn::visit::Visit;
    let rel = "server/lib/src/repl/ruv.rs";
    let ast = parse_file(repo, rel)?;
    let f = find_fn(&ast, "ReplicationUpdateVectorTransaction::range_to_idl")?;
    let mut fd = Finder { ranges: vec![], closures: vec![], unwrap_or: vec![], is_repl: 0 };
    fd.visit_block(&f.block);
    if fd.ranges.len() != 1 || fd.ranges[0].args.len() != 1 {
        return Err(format!("range_to_idl: expected exactly one `.range((lo, hi))` call, found {}", fd.ranges.len()));
    }
    if nsp(&fd.ranges[0].receiver) != "ruv_range" {
        return Err(format!("range_to_idl: `.range` on `{}`", nsp(&fd.ranges[0].receiver)));
    }
    let (lo, hi) = match &fd.ranges[0].args[0] {
        syn::Expr::Tuple(t) if t.elems.len() == 2 => (bound(&t.elems[0], "lower")?, bound(&t.elems[1], "upper")?),
        o => return Err(format!("range_to_idl: range argument `{}` is not a pair of bounds", nsp(o))),
    };
    let rel2 = "server/lib/src/repl/proto.rs";
    let ast2 = parse_file(repo, rel2)?;
    let g = find_fn(&ast2, "ReplIncrementalEntryV1::new")?;
    let mut gd = Finder { ranges: vec![], closures: vec![], unwrap_or: vec![], is_repl: 0 };
    gd.visit_block(&g.block);
    if gd.closures.len() != 1 {
        return Err(format!("ReplIncrementalEntryV1::new: expected one `|repl_range|` closure, found {}", gd.closures.len()));
    }
    let body = match &*gd.closures[0].body {
        syn::Expr::Block(b) if b.block.stmts.len() == 1 => match &b.block.stmts[0] {
            syn::Stmt::Expr(e, None) => e.clone(),
            o => return Err(format!("window closure body `{}`", toks(o))),
        },
        e => e.clone(),
    };
    let v = vars(&[("cid.ts", "ts"), ("repl_range.ts_min", "rmin"), ("repl_range.ts_max", "rmax")]);
    let within = lean_expr(&body, &v)?;
    let missing = match gd.unwrap_or.as_slice() {
        [x] if x == "false" || x == "true" => x.clone(),
        o => return Err(format!("ReplIncrementalEntryV1::new: unwrap_or arguments {o:?}")),
    };
    let nb = nsp(&g.block);
    if gd.is_repl != 1 || !nb.contains("letwithin=schema.is_replicated(attr_name)&&ctx_range.get(&cid.s_uuid).map(") {
        return Err("ReplIncrementalEntryV1::new: `within = schema.is_replicated(attr_name) && ctx_range.get(&cid.s_uuid).map(..)` not found".into());
    }
    if !nb.contains("State::Tombstone{at}=>ReplStateV1::Tombstone{at:at.into()}") {
        return Err("ReplIncrementalEntryV1::new: tombstone arm is not `ReplStateV1::Tombstone { at: at.into() }`".into());
    }
    let mut s = String::from("namespace Kanidm.Gen.RangeEntries
");
    s += &format!("/-- lower bound of `{}` -/
def idlLower (ts rmin : Nat) : Bool := {lo}
", toks(&fd.ranges[0].args[0]));
    s += &format!("/-- upper bound of the same call -/
def idlUpper (ts rmax : Nat) : Bool := {hi}
");
    s += &format!("/-- `{}` -/
def attrWithin (ts rmin rmax : Nat) : Bool := {within}
", toks(&body));
    s += &format!("/-- `.unwrap_or({missing})`: server of the cid not in the supplied ranges -/
def attrMissingRange : Bool := {missing}
");
    s += "end Kanidm.Gen.RangeEntries
";
    write_generated(out, "RangeEntryOps", &format!("{rel} (fn range_to_idl), {rel2} (fn ReplIncrementalEntryV1::new)"), &s)?;
    Ok(format!("RangeEntryOps: lower `{lo}`, upper `{hi}`, within `{within}`"))
}
