//! C10 translator items.
use super::vars;
use crate::util::*;

pub fn run(item: &str, repo: &str, out: &str) -> Option<Result<String, String>> {
    match item {
        "rangediff-ops" => Some(rangediff_ops(repo, out)),
        _ => None,
    }
}

/// C10: the three comparison conditions of `ReplicationUpdateVector::range_diff`.
fn rangediff_ops(repo: &str, out: &str) -> Result<String, String> {
    let rel = "server/lib/src/repl/ruv.rs";
    let ast = parse_file(repo, rel)?;
    let f = find_fn(&ast, "ReplicationUpdateVector::range_diff")?;
    let conds = if_conditions(&f.block);
    // `if !valid_content_overlap` is the 4th; the first three are the window comparisons
    let v = vars(&[
        ("consumer_cid_range.ts_min", "cmin"),
        ("consumer_cid_range.ts_max", "cmax"),
        ("supplier_cid_range.ts_min", "smin"),
        ("supplier_cid_range.ts_max", "smax"),
    ]);
    let mut window = vec![];
    let mut others = vec![];
    for c in &conds {
        match lean_expr(c, &v) {
            Ok(s) => window.push((quote::ToTokens::to_token_stream(c).to_string(), s)),
            Err(_) => others.push(quote::ToTokens::to_token_stream(c).to_string()),
        }
    }
    if window.len() != 3 {
        return Err(format!(
            "expected exactly 3 window comparisons in range_diff, found {} ({:?}); other conditions: {:?}",
            window.len(), window, others
        ));
    }
    if others != vec!["! valid_content_overlap".to_string()] {
        return Err(format!("unexpected extra conditions in range_diff: {others:?}"));
    }
    let mut body = String::from("namespace Kanidm.Gen.RangeDiff\n");
    for (i, (src, lean)) in window.iter().enumerate() {
        body += &format!("/-- `{src}` -/\ndef cond{i} (cmin cmax smin smax : Nat) : Bool := {lean}\n");
    }
    body += "def numConds : Nat := 3\nend Kanidm.Gen.RangeDiff\n";
    write_generated(out, "RangeDiffOps", &format!("{rel} (fn range_diff)"), &body)?;
    Ok(format!("RangeDiffOps: {} conditions", window.len()))
}
