//! C34 translator item `keyobject-ops`: regenerates `Generated/KeyObjectOps.lean` from
//!   value.rs                     enum KeyUsage (variant order)
//!   server/keys/internal.rs      per usage key set (`KeyObjectInternalJwtEs256`, …): `new_active` (status of
//!                                the new record, `active.insert`), `load` (which `match status` arms insert
//!                                into `active`, status kept as is), `to_key_iter` (status kept as is),
//!                                `verify` / `decipher` (`match &internal.status` arms: handed to the verifier
//!                                or `Err`), `get_valid_signer` / `get_valid_cipher` (`range((Unbounded,
//!                                Included(t))).next_back()`), `revoke` (already-revoked guard, status and cid
//!                                assignment, `active.remove(&valid_from)`); `KeyObjectInternal::rotate_keys`,
//!                                `revoke_keys` (usage order, `has_revoked` / `Err`), `as_valuesets` (chain
//!                                order), `jws_verify` / `jwe_decrypt` dispatch
//!   plugins/keyobject.rs         `apply_keyobject_inner`: order of the key object calls, `Duration::ZERO`
//!                                asserts, the rotation-time rule
//!   valueset/key_internal.rs     `merge`: the replace condition
//!   repl/proto.rs                `ReplIncrementalEntryV1::new`: which attributes are put into a supply
//!   entry.rs                     `merge_state`: the cid the merged attribute is stamped with
//! Any shape not recognised is an `Err` (never a guess).
use crate::util::*;
use quote::ToTokens;
use syn::visit::Visit;

pub fn run(item: &str, repo: &str, out: &str) -> Option<Result<String, String>> {
    match item {
        "keyobject-ops" => Some(keyobject_ops(repo, out)),
        _ => None,
    }
}

/// (KeyUsage variant, per-usage struct, field of KeyObjectInternal, verify fn, signer fn)
const USAGES: [(&str, &str, &str, Option<&str>, &str); 5] = [
    ("JwsEs256", "KeyObjectInternalJwtEs256", "jws_es256", Some("verify"), "get_valid_signer"),
    ("JwsHs256", "KeyObjectInternalJwtHs256", "jws_hs256", Some("verify"), "get_valid_signer"),
    ("JwsRs256", "KeyObjectInternalJwtRs256", "jws_rs256", Some("verify"), "get_valid_signer"),
    ("JweA128GCM", "KeyObjectInternalJweA128GCM", "jwe_a128gcm", Some("decipher"), "get_valid_cipher"),
    ("HkdfS256", "KeyObjectInternalHkdfS256", "hkdf_s256", None, "get_valid_signer"),
];
const STATUSES: [&str; 3] = ["Valid", "Retained", "Revoked"];

fn lower_first(s: &str) -> String {
    let mut c = s.chars();
    match c.next() {
        Some(f) => f.to_lowercase().collect::<String>() + c.as_str(),
        None => String::new(),
    }
}
fn ns<T: ToTokens>(t: &T) -> String {
    t.to_token_stream().to_string().replace(' ', "")
}
fn lean_usage(v: &str) -> String {
    format!(".{}", lower_first(v))
}
fn lean_status(v: &str) -> String {
    format!(".{}", lower_first(v))
}
fn usage_of_field(f: &str) -> Result<&'static str, String> {
    USAGES.iter().find(|u| u.2 == f).map(|u| u.0).ok_or_else(|| format!("unknown key object field `{f}`"))
}

/// Last path segment of a pattern / expression that names an enum variant (`X::Valid { .. }`,
/// `X::Revoked`, `KeyStatus::Valid`).
fn variant_of_pat(p: &syn::Pat) -> Result<Vec<String>, String> {
    match p {
        syn::Pat::Or(o) => {
            let mut v = vec![];
            for c in &o.cases {
                v.extend(variant_of_pat(c)?);
            }
            Ok(v)
        }
        syn::Pat::Struct(s) => Ok(vec![s.path.segments.last().unwrap().ident.to_string()]),
        syn::Pat::TupleStruct(s) => Ok(vec![s.path.segments.last().unwrap().ident.to_string()]),
        syn::Pat::Path(s) => Ok(vec![s.path.segments.last().unwrap().ident.to_string()]),
        syn::Pat::Ident(i) if i.subpat.is_none() => Ok(vec![i.ident.to_string()]),
        syn::Pat::Reference(r) => variant_of_pat(&r.pat),
        o => Err(format!("unsupported arm pattern `{}`", o.to_token_stream())),
    }
}
fn variant_of_expr(e: &syn::Expr) -> Option<String> {
    match e {
        syn::Expr::Struct(s) => Some(s.path.segments.last()?.ident.to_string()),
        syn::Expr::Path(p) => Some(p.path.segments.last()?.ident.to_string()),
        syn::Expr::Paren(p) => variant_of_expr(&p.expr),
        _ => None,
    }
}
fn status_ok(v: &str) -> Result<(), String> {
    if STATUSES.contains(&v) {
        Ok(())
    } else {
        Err(format!("unknown status variant `{v}`"))
    }
}

/// All `match` expressions of a block whose scrutinee (spaces removed) satisfies `pred`, in source order.
fn matches_on(block: &syn::Block, pred: &dyn Fn(&str) -> bool) -> Vec<syn::ExprMatch> {
    struct V<'a>(&'a dyn Fn(&str) -> bool, Vec<syn::ExprMatch>);
    impl<'a, 'ast> Visit<'ast> for V<'a> {
        fn visit_expr_match(&mut self, m: &'ast syn::ExprMatch) {
            if (self.0)(&ns(&m.expr)) {
                self.1.push(m.clone());
            }
            syn::visit::visit_expr_match(self, m);
        }
    }
    let mut v = V(pred, vec![]);
    v.visit_block(block);
    v.1
}

/// Method calls `recv.method(..)` (receiver rendered without spaces) in source order.
fn method_calls<T: ToTokens>(node: &T) -> Vec<(String, String, Vec<String>)> {
    struct V(Vec<(String, String, Vec<String>)>);
    impl<'ast> Visit<'ast> for V {
        fn visit_expr_method_call(&mut self, m: &'ast syn::ExprMethodCall) {
            // receiver first (evaluation order), then this call
            syn::visit::visit_expr_method_call(self, m);
            self.0.push((ns(&m.receiver), m.method.to_string(), m.args.iter().map(|a| ns(a)).collect()));
        }
    }
    let mut v = V(vec![]);
    let ts = node.to_token_stream();
    if let Ok(b) = syn::parse2::<syn::Block>(ts.clone()) {
        v.visit_block(&b);
    } else if let Ok(e) = syn::parse2::<syn::Expr>(ts) {
        v.visit_expr(&e);
    }
    v.0
}
fn has_call<T: ToTokens>(node: &T, recv: &str, method: &str) -> bool {
    method_calls(node).iter().any(|(r, m, _)| r == recv && m == method)
}

fn tail_expr(e: &syn::Expr) -> Option<&syn::Expr> {
    match e {
        syn::Expr::Block(b) => match b.block.stmts.last()? {
            syn::Stmt::Expr(inner, None) => tail_expr(inner),
            _ => None,
        },
        other => Some(other),
    }
}

struct PerUsage {
    new_status: String,
    load_activates: Vec<(String, bool)>,
    verify: Option<Vec<(String, bool)>>,
    signer_op: &'static str,
    revoke_skips: bool,
}

fn per_usage(file: &syn::File, ty: &str, verify_fn: Option<&str>, signer_fn: &str) -> Result<PerUsage, String> {
    let ctx = |m: &str| format!("{ty}::{m}");
    // --- new_active
    let f = find_fn(file, &ctx("new_active"))?;
    let calls = method_calls(&f.block);
    if !calls.iter().any(|(r, m, a)| r == "self.active" && m == "insert" && a.first().map(|x| x == "valid_from").unwrap_or(false)) {
        return Err(format!("{}: `self.active.insert(valid_from, ..)` not found", ctx("new_active")));
    }
    let mut new_status = None;
    {
        struct V(Option<syn::ExprStruct>);
        impl<'ast> Visit<'ast> for V {
            fn visit_expr_method_call(&mut self, m: &'ast syn::ExprMethodCall) {
                if ns(&m.receiver) == "self.all" && m.method == "insert" && m.args.len() == 2 {
                    if let syn::Expr::Struct(s) = &m.args[1] {
                        self.0 = Some(s.clone());
                    }
                }
                syn::visit::visit_expr_method_call(self, m);
            }
        }
        let mut v = V(None);
        v.visit_block(&f.block);
        let s = v.0.ok_or_else(|| format!("{}: `self.all.insert(kid, Internal {{ .. }})` not found", ctx("new_active")))?;
        for fv in &s.fields {
            let name = match &fv.member {
                syn::Member::Named(i) => i.to_string(),
                _ => String::new(),
            };
            match name.as_str() {
                "status" => new_status = variant_of_expr(&fv.expr),
                "status_cid" => {
                    if ns(&fv.expr) != "cid.clone()" {
                        return Err(format!("{}: status_cid is `{}`, expected cid.clone()", ctx("new_active"), ns(&fv.expr)));
                    }
                }
                "valid_from" => {}
                o => return Err(format!("{}: unexpected field `{o}`", ctx("new_active"))),
            }
        }
    }
    let new_status = new_status.ok_or_else(|| format!("{}: status of the new record not recognised", ctx("new_active")))?;
    status_ok(&new_status)?;

    // --- load
    let f = find_fn(file, &ctx("load"))?;
    let ms = matches_on(&f.block, &|s| s == "status");
    if ms.len() != 1 {
        return Err(format!("{}: expected exactly one `match status`, found {}", ctx("load"), ms.len()));
    }
    let mut load_activates = vec![];
    for arm in &ms[0].arms {
        if arm.guard.is_some() {
            return Err(format!("{}: guarded arm", ctx("load")));
        }
        let vs = variant_of_pat(&arm.pat)?;
        let act = method_calls(&arm.body).iter().any(|(r, m, a)| r == "self.active" && m == "insert" && a.first().map(|x| x == "valid_from").unwrap_or(false));
        let kept = tail_expr(&arm.body).and_then(variant_of_expr).ok_or_else(|| format!("{}: arm `{}` does not end in a status value", ctx("load"), ns(&arm.pat)))?;
        for v in vs {
            status_ok(&v)?;
            if kept != v {
                return Err(format!("{}: arm {v} builds status {kept} (the model keeps the stored status)", ctx("load")));
            }
            load_activates.push((v, act));
        }
    }
    for st in STATUSES {
        if load_activates.iter().filter(|(v, _)| v == st).count() != 1 {
            return Err(format!("{}: status {st} not covered exactly once", ctx("load")));
        }
    }
    if !method_calls(&f.block).iter().any(|(r, m, a)| r == "self.all" && m == "insert" && a.first().map(|x| x == "id.clone()").unwrap_or(false)) {
        return Err(format!("{}: `self.all.insert(id.clone(), ..)` not found", ctx("load")));
    }

    // --- to_key_iter: status kept as is
    let f = find_fn(file, &ctx("to_key_iter"))?;
    let ms = matches_on(&f.block, &|s| s.starts_with('&') && s.ends_with(".status"));
    if ms.len() != 1 {
        return Err(format!("{}: expected one `match &x.status`", ctx("to_key_iter")));
    }
    let mut seen = vec![];
    for arm in &ms[0].arms {
        let vs = variant_of_pat(&arm.pat)?;
        let t = tail_expr(&arm.body).ok_or("to_key_iter: arm body")?;
        let first = match t {
            syn::Expr::Tuple(t) if t.elems.len() == 2 => variant_of_expr(&t.elems[0]),
            _ => None,
        }
        .ok_or_else(|| format!("{}: arm value is not `(KeyStatus::_, der)`", ctx("to_key_iter")))?;
        for v in vs {
            if v != first {
                return Err(format!("{}: status {v} stored as {first}", ctx("to_key_iter")));
            }
            seen.push(v);
        }
    }
    for st in STATUSES {
        if seen.iter().filter(|v| *v == st).count() != 1 {
            return Err(format!("{}: status {st} not covered exactly once", ctx("to_key_iter")));
        }
    }

    // --- verify / decipher
    let verify = match verify_fn {
        None => None,
        Some(vf) => {
            let f = find_fn(file, &ctx(vf))?;
            // the key is looked up by the token's kid in `all`
            if !method_calls(&f.block).iter().any(|(r, m, _)| r == "self.all" && m == "get") {
                return Err(format!("{}: `self.all.get(&kid)` not found", ctx(vf)));
            }
            let ms = matches_on(&f.block, &|s| s.starts_with('&') && s.ends_with(".status"));
            if ms.len() != 1 {
                return Err(format!("{}: expected one `match &x.status`", ctx(vf)));
            }
            let mut rows = vec![];
            for arm in &ms[0].arms {
                if arm.guard.is_some() {
                    return Err(format!("{}: guarded arm", ctx(vf)));
                }
                let vs = variant_of_pat(&arm.pat)?;
                let calls = method_calls(&arm.body);
                let hands_over = calls.iter().any(|(r, m, _)| (r == "verifier" || r == "cipher") && (m == "verify" || m == "decipher"));
                let is_err = match tail_expr(&arm.body) {
                    Some(syn::Expr::Call(c)) => ns(&c.func) == "Err",
                    _ => false,
                };
                let val = match (hands_over, is_err) {
                    (true, false) => true,
                    (false, true) => false,
                    _ => return Err(format!("{}: arm `{}` neither hands the token to the verifier nor is `Err(..)`", ctx(vf), ns(&arm.pat))),
                };
                for v in vs {
                    status_ok(&v)?;
                    rows.push((v, val));
                }
            }
            for st in STATUSES {
                if rows.iter().filter(|(v, _)| v == st).count() != 1 {
                    return Err(format!("{}: status {st} not covered exactly once", ctx(vf)));
                }
            }
            Some(rows)
        }
    };

    // --- get_valid_signer
    let f = find_fn(file, &ctx(signer_fn))?;
    let body = ns(&f.block);
    let signer_op = if body.contains("self.active.range((Unbounded,Included(ct_secs))).next_back()") {
        "≤"
    } else if body.contains("self.active.range((Unbounded,Excluded(ct_secs))).next_back()") {
        "<"
    } else {
        return Err(format!("{}: not `self.active.range((Unbounded, Included|Excluded(ct_secs))).next_back()`", ctx(signer_fn)));
    };
    if !body.contains("letct_secs=time.as_secs();") {
        return Err(format!("{}: `let ct_secs = time.as_secs();` not found", ctx(signer_fn)));
    }
    // assert_active: creates a key iff no signer at valid_from
    let f = find_fn(file, &ctx("assert_active"))?;
    let conds = if_conditions(&f.block);
    if conds.len() != 1 || ns(&conds[0]) != format!("self.{signer_fn}(valid_from).is_none()") || !has_call(&f.block, "self", "new_active") {
        return Err(format!("{}: not `if self.{signer_fn}(valid_from).is_none() {{ self.new_active(..) }}`", ctx("assert_active")));
    }

    // --- revoke
    let f = find_fn(file, &ctx("revoke"))?;
    let body = ns(&f.block);
    let mut revoke_skips = false;
    for c in if_conditions(&f.block) {
        let c = ns(&c);
        if c.starts_with("matches!(&key_to_revoke.status,") && c.ends_with("::Revoked)") {
            revoke_skips = true;
        }
    }
    if revoke_skips && !body.contains("::Revoked){returnOk(false);}") {
        return Err(format!("{}: already-revoked guard does not `return Ok(false)`", ctx("revoke")));
    }
    if !body.contains("ifletSome(key_to_revoke)=self.all.get_mut(revoke_key_id)") {
        return Err(format!("{}: `if let Some(key_to_revoke) = self.all.get_mut(revoke_key_id)` not found", ctx("revoke")));
    }
    let assigns_revoked = body.contains("key_to_revoke.status=") && {
        // the assigned value names the Revoked variant
        struct V(bool);
        impl<'ast> Visit<'ast> for V {
            fn visit_expr_assign(&mut self, a: &'ast syn::ExprAssign) {
                if ns(&a.left) == "key_to_revoke.status" && variant_of_expr(&a.right).as_deref() == Some("Revoked") {
                    self.0 = true;
                }
            }
        }
        let mut v = V(false);
        v.visit_block(&f.block);
        v.0
    };
    if !assigns_revoked {
        return Err(format!("{}: `key_to_revoke.status = …::Revoked` not found", ctx("revoke")));
    }
    if !body.contains("key_to_revoke.status_cid=cid.clone();") {
        return Err(format!("{}: `key_to_revoke.status_cid = cid.clone()` not found", ctx("revoke")));
    }
    if !body.contains("letvalid_from=key_to_revoke.valid_from;") || !body.contains("self.active.remove(&valid_from);") {
        return Err(format!("{}: `self.active.remove(&valid_from)` of the key's valid_from not found", ctx("revoke")));
    }
    Ok(PerUsage { new_status, load_activates, verify, signer_op, revoke_skips })
}

/// `if let Some(x) = &mut self.FIELD { … x.METHOD(..) … }` statements of a block, in order.
fn iflet_fields(stmts: &[syn::Stmt], method: &str, what: &str) -> Result<Vec<String>, String> {
    let mut out = vec![];
    for st in stmts {
        let e = match st {
            syn::Stmt::Expr(e, _) => e,
            syn::Stmt::Local(_) => continue,
            o => return Err(format!("{what}: unexpected statement `{}`", o.to_token_stream())),
        };
        match e {
            syn::Expr::If(i) => {
                let c = ns(&i.cond);
                if let Some(rest) = c.strip_prefix("letSome(") {
                    // letSome(x)=&mutself.FIELD
                    let field = rest.split("=&mutself.").nth(1).ok_or_else(|| format!("{what}: condition `{c}`"))?;
                    let var = rest.split(')').next().unwrap_or("");
                    if !has_call(&i.then_branch, var, method) {
                        return Err(format!("{what}: `{var}.{method}(..)` not called for field {field}"));
                    }
                    out.push(field.to_string());
                } else if c == "!has_revoked" {
                    continue;
                } else {
                    return Err(format!("{what}: unexpected condition `{c}`"));
                }
            }
            syn::Expr::Call(c) if ns(&c.func) == "Ok" => {}
            o => return Err(format!("{what}: unexpected statement `{}`", o.to_token_stream())),
        }
    }
    Ok(out)
}

fn keyobject_ops(repo: &str, out: &str) -> Result<String, String> {
    let value = parse_file(repo, "server/lib/src/value.rs")?;
    let internal = parse_file(repo, "server/lib/src/server/keys/internal.rs")?;
    let plugin = parse_file(repo, "server/lib/src/plugins/keyobject.rs")?;
    let kint = parse_file(repo, "server/lib/src/valueset/key_internal.rs")?;

    // enum KeyUsage
    let mut usage_variants = vec![];
    for it in &value.items {
        if let syn::Item::Enum(e) = it {
            if e.ident == "KeyUsage" {
                for v in &e.variants {
                    if !matches!(v.fields, syn::Fields::Unit) {
                        return Err(format!("KeyUsage::{} has fields", v.ident));
                    }
                    usage_variants.push(v.ident.to_string());
                }
            }
        }
    }
    if usage_variants.is_empty() {
        return Err("enum KeyUsage not found in value.rs".into());
    }
    for v in &usage_variants {
        if !USAGES.iter().any(|u| u.0 == v) {
            return Err(format!("KeyUsage::{v}: no per-usage key set known (the model must be extended)"));
        }
    }
    if usage_variants.len() != USAGES.len() {
        return Err(format!("KeyUsage has {} variants, the model knows {}", usage_variants.len(), USAGES.len()));
    }

    let mut per = vec![];
    for v in &usage_variants {
        let u = USAGES.iter().find(|u| u.0 == v).unwrap();
        per.push((v.clone(), per_usage(&internal, u.1, u.3, u.4).map_err(|e| format!("internal.rs: {e}"))?));
    }
    let op = per[0].1.signer_op;
    if per.iter().any(|(_, p)| p.signer_op != op) {
        return Err("get_valid_signer: the usages disagree on the range bound".into());
    }

    // KeyObjectInternal
    let f = find_fn(&internal, "KeyObjectT@KeyObjectInternal::rotate_keys")?;
    let rotate_order: Vec<&str> = iflet_fields(&f.block.stmts, "new_active", "rotate_keys")?.iter().map(|f| usage_of_field(f)).collect::<Result<_, _>>()?;
    let f = find_fn(&internal, "KeyObjectT@KeyObjectInternal::revoke_keys")?;
    let for_body = f
        .block
        .stmts
        .iter()
        .find_map(|s| match s {
            syn::Stmt::Expr(syn::Expr::ForLoop(fl), _) if ns(&fl.expr) == "revoke_set.iter()" => Some(fl.body.clone()),
            _ => None,
        })
        .ok_or("revoke_keys: `for revoke_key_id in revoke_set.iter()` not found")?;
    let revoke_order: Vec<&str> = iflet_fields(&for_body.stmts, "revoke", "revoke_keys")?.iter().map(|f| usage_of_field(f)).collect::<Result<_, _>>()?;
    let fb = ns(&for_body);
    if !fb.contains("letmuthas_revoked=false;") || !fb.contains("if!has_revoked{") || !fb.contains("returnErr(OperationError::KP0026KeyObjectNoSuchKey);") {
        return Err("revoke_keys: `has_revoked` / `Err(KP0026KeyObjectNoSuchKey)` shape not recognised".into());
    }
    if fb.matches("has_revoked=true;").count() != revoke_order.len() {
        return Err("revoke_keys: not every successful revoke sets has_revoked".into());
    }
    for (name, ord) in [("rotate_keys", &rotate_order), ("revoke_keys", &revoke_order)] {
        let mut s = ord.clone();
        s.sort();
        s.dedup();
        if s.len() != USAGES.len() || ord.len() != USAGES.len() {
            return Err(format!("{name}: covers {ord:?}, expected every usage exactly once"));
        }
    }
    // as_valuesets chain order
    let f = find_fn(&internal, "KeyObjectT@KeyObjectInternal::as_valuesets")?;
    let key_iter = f
        .block
        .stmts
        .iter()
        .find_map(|s| match s {
            syn::Stmt::Local(l) if ns(&l.pat) == "key_iter" => l.init.as_ref().map(|i| (*i.expr).clone()),
            _ => None,
        })
        .ok_or("as_valuesets: `let key_iter = …` not found")?;
    let mut chain: Vec<&str> = vec![];
    for (r, m, _) in method_calls(&key_iter) {
        if m == "iter" {
            if let Some(field) = r.strip_prefix("self.") {
                chain.push(usage_of_field(field)?);
            }
        } else if !["flat_map", "chain", "to_key_iter"].contains(&m.as_str()) {
            return Err(format!("as_valuesets: unexpected call `{m}` in the key iterator"));
        }
    }
    {
        let mut s = chain.clone();
        s.sort();
        s.dedup();
        if s.len() != USAGES.len() || chain.len() != USAGES.len() {
            return Err(format!("as_valuesets: chain covers {chain:?}, expected every usage exactly once"));
        }
    }
    if !ns(&f.block).contains("ValueSetKeyInternal::from_key_iter(key_iter)") {
        return Err("as_valuesets: `ValueSetKeyInternal::from_key_iter(key_iter)` not found".into());
    }
    // jws_verify / jwe_decrypt dispatch
    let f = find_fn(&internal, "KeyObjectT@KeyObjectInternal::jws_verify")?;
    let ms = matches_on(&f.block, &|s| s == "alg");
    if ms.len() != 1 {
        return Err("jws_verify: `match alg` not found".into());
    }
    let mut dispatch = vec![];
    for arm in &ms[0].arms {
        let alg = variant_of_pat(&arm.pat)?.join("|");
        let b = ns(&arm.body);
        let field = ["jws_es256", "jws_hs256", "jws_rs256"].iter().find(|fld| b.contains(&format!("=&self.{fld}{{")) && b.contains(&format!("{fld}_object.verify(jwsc)"))).ok_or_else(|| format!("jws_verify: arm {alg} does not verify with one key set"))?;
        dispatch.push((alg, *field));
    }
    dispatch.sort();
    if dispatch != vec![("ES256".to_string(), "jws_es256"), ("HS256".to_string(), "jws_hs256"), ("RS256".to_string(), "jws_rs256")] {
        return Err(format!("jws_verify: alg dispatch is {dispatch:?}"));
    }
    let f = find_fn(&internal, "KeyObjectT@KeyObjectInternal::jwe_decrypt")?;
    let b = ns(&f.block);
    if !b.contains("(JweAlg::A128KW,JweEnc::A128GCM)=>") || !b.contains("=&self.jwe_a128gcm{jwe_a128_gcm.decipher(jwec)}") {
        return Err("jwe_decrypt: dispatch shape not recognised".into());
    }

    // plugin
    let f = find_fn(&plugin, "KeyObjectManagement::apply_keyobject_inner")?;
    let mut steps = vec![];
    let mut saw_valuesets = false;
    for (r, m, a) in method_calls(&f.block) {
        if r != "key_object" {
            continue;
        }
        if saw_valuesets {
            return Err(format!("apply_keyobject_inner: `key_object.{m}` after as_valuesets"));
        }
        let assert_of = |fld: &str| -> Result<String, String> {
            if a.first().map(|x| x.as_str()) != Some("Duration::ZERO") {
                return Err(format!("apply_keyobject_inner: `{m}` is not asserted at Duration::ZERO"));
            }
            Ok(format!(".assert {}", lean_usage(usage_of_field(fld)?)))
        };
        let step = match m.as_str() {
            "jws_es256_import" => ".importEs256".to_string(),
            "jws_rs256_import" => ".importRs256".to_string(),
            "revoke_keys" => ".revoke".to_string(),
            "rotate_keys" => ".rotate".to_string(),
            "as_valuesets" => {
                saw_valuesets = true;
                continue;
            }
            other => match other.strip_suffix("_assert") {
                Some(fld) => assert_of(fld)?,
                None => return Err(format!("apply_keyobject_inner: unknown key object call `{other}`")),
            },
        };
        steps.push(step);
    }
    if !saw_valuesets {
        return Err("apply_keyobject_inner: as_valuesets not called".into());
    }
    let pb = ns(&f.block);
    if !pb.contains("letvalid_from=qs.get_curtime();") || !pb.contains("key_providers.get_or_create_in_default(key_object_uuid)") || !pb.contains("entry.merge_ava_set(&attribute,valueset)") {
        return Err("apply_keyobject_inner: get_curtime / get_or_create_in_default / merge_ava_set shape not recognised".into());
    }
    let rot_op = if pb.contains("ifsecs>valid_from.as_secs(){Duration::from_secs(secs)}else{valid_from}") {
        ">"
    } else if pb.contains("ifsecs>=valid_from.as_secs(){Duration::from_secs(secs)}else{valid_from}") {
        "≥"
    } else {
        return Err("apply_keyobject_inner: rotation-time rule not recognised".into());
    };

    // ValueSetKeyInternal::merge
    let f = find_fn(&kint, "ValueSetT@ValueSetKeyInternal::merge")?;
    let conds: Vec<String> = if_conditions(&f.block).iter().map(|c| ns(c)).collect();
    let merge_op = if conds.iter().any(|c| c == "v_other.status>v_self.status") {
        ">"
    } else if conds.iter().any(|c| c == "v_other.status>=v_self.status") {
        "≥"
    } else {
        return Err(format!("ValueSetKeyInternal::merge: replace condition not recognised ({conds:?})"));
    };
    let mb = ns(&f.block);
    if !mb.contains("*v_self=v_other.clone();") || !mb.contains("self.map.insert(k_other.clone(),v_other.clone());") {
        return Err("ValueSetKeyInternal::merge: loop body shape not recognised".into());
    }

    // ReplIncrementalEntryV1::new: the range test of an attribute's cid
    let proto = parse_file(repo, "server/lib/src/repl/proto.rs")?;
    let f = find_fn(&proto, "ReplIncrementalEntryV1::new")?;
    let nb = ns(&f.block);
    let mut within = None;
    for (hi, hi_lean) in [("<=", "≤"), ("<", "<")] {
        for (lo, lo_lean) in [(">", ">"), (">=", "≥")] {
            let pat = format!("letwithin=schema.is_replicated(attr_name)&&ctx_range.get(&cid.s_uuid).map(|repl_range|{{cid.ts{hi}repl_range.ts_max&&cid.ts{lo}repl_range.ts_min}}).unwrap_or(false);");
            if nb.contains(&pat) {
                within = Some((hi, hi_lean, lo, lo_lean));
            }
        }
    }
    let (w_hi, w_hi_lean, w_lo, w_lo_lean) = within.ok_or("ReplIncrementalEntryV1::new: the `within` range test is not of the recognised shape")?;
    if !nb.contains("ifwithin{") || !nb.contains("Some((attr_name.clone(),ReplAttrStateV1{cid,attr}))}else{None}") {
        return Err("ReplIncrementalEntryV1::new: `if within { Some(..) } else { None }` not recognised".into());
    }
    // merge_state: the merged attribute takes the cid of the side chosen by take_left
    let entry = parse_file(repo, "server/lib/src/entry.rs")?;
    let f = find_fn(&entry, "merge_state")?;
    let mb2 = ns(&f.block);
    if !mb2.contains("lettake_left=cid_left>cid_right;")
        || !mb2.contains("(Some(vs_left),Some(vs_right))iftake_left=>{changes.insert(attr_name.clone(),cid_left.clone());")
        || !mb2.contains("(Some(vs_left),Some(vs_right))=>{changes.insert(attr_name.clone(),cid_right.clone());")
    {
        return Err("merge_state: the cid of a merged attribute is not `cid_left` if take_left else `cid_right`".into());
    }

    // ---- emit
    let mut b = String::new();
    b += "-- GENERATED by vtranslate (item keyobject-ops) from server/lib/src/{value.rs, server/keys/internal.rs, plugins/keyobject.rs, valueset/key_internal.rs, repl/proto.rs, entry.rs}. Do not edit: rewritten on every check run.\n";
    b += "import KanidmModel.Generated.SessionOrd\nset_option linter.unusedVariables false\nnamespace Kanidm.Gen.KeyObjectOps\nopen Kanidm.Gen.SessionOrd\n\n";
    b += "/-- `enum KeyUsage` (value.rs), declaration order. -/\ninductive Usage where\n";
    for v in &usage_variants {
        b += &format!("  | {}\n", lower_first(v));
    }
    b += "  deriving DecidableEq, Repr\n\n";
    b += "/-- `new_active`: the status variant of the record inserted into `all` (every usage also does `self.active.insert(valid_from, …)`). -/\ndef newKeyStatus : Usage → KeyStatus\n";
    for (v, p) in &per {
        b += &format!("  | {} => {}\n", lean_usage(v), lean_status(&p.new_status));
    }
    b += "\n/-- `load`: the `match status` arms whose body contains `self.active.insert(valid_from, …)`. -/\ndef loadActivates : Usage → KeyStatus → Bool\n";
    for (v, p) in &per {
        for st in STATUSES {
            let a = p.load_activates.iter().find(|(s, _)| s == st).unwrap().1;
            b += &format!("  | {}, {} => {}\n", lean_usage(v), lean_status(st), a);
        }
    }
    b += "\n/-- `verify` / `decipher`: `match &internal.status` — `true` = the arm hands the token to the stored verifier / cipher, `false` = the arm is `Err(..)`. HkdfS256 has no verify entry point (all `false`). -/\ndef verifyArm : Usage → KeyStatus → Bool\n";
    for (v, p) in &per {
        for st in STATUSES {
            let a = match &p.verify {
                Some(rows) => rows.iter().find(|(s, _)| s == st).unwrap().1,
                None => false,
            };
            b += &format!("  | {}, {} => {}\n", lean_usage(v), lean_status(st), a);
        }
    }
    b += &format!("\n/-- `get_valid_signer` / `get_valid_cipher`: `self.active.range((Unbounded, {}(ct_secs))).next_back()` (same in all five usages). -/\ndef signerStarted (validFrom t : Nat) : Bool := decide (validFrom {op} t)\n", if op == "≤" { "Included" } else { "Excluded" });
    b += "\n/-- `revoke`: has the guard `if matches!(&key_to_revoke.status, …::Revoked) { return Ok(false); }`. -/\ndef revokeSkipsRevoked : Usage → Bool\n";
    for (v, p) in &per {
        b += &format!("  | {} => {}\n", lean_usage(v), p.revoke_skips);
    }
    let list = |o: &Vec<&str>| o.iter().map(|u| lean_usage(u)).collect::<Vec<_>>().join(", ");
    b += &format!("\n/-- `KeyObjectInternal::rotate_keys`: the usages whose `new_active` is called, in source order. -/\ndef rotateOrder : List Usage := [{}]\n", list(&rotate_order));
    b += &format!("\n/-- `KeyObjectInternal::revoke_keys`: the usages whose `revoke` is tried per key id (`has_revoked` is the disjunction; `!has_revoked` ⇒ `Err(KP0026KeyObjectNoSuchKey)`). -/\ndef revokeOrder : List Usage := [{}]\n", list(&revoke_order));
    b += &format!("\n/-- `KeyObjectInternal::as_valuesets`: chain order of the `to_key_iter`s collected into the map. -/\ndef valuesetOrder : List Usage := [{}]\n", list(&chain));
    b += &format!("\n/-- `KeyObjectManagement::apply_keyobject_inner`: `if secs {} valid_from.as_secs() {{ Duration::from_secs(secs) }} else {{ valid_from }}`. -/\ndef rotateUsesRequested (secs now : Nat) : Bool := decide (secs {rot_op} now)\n", if rot_op == ">" { ">" } else { ">=" });
    b += "\n/-- `apply_keyobject_inner`: the time passed to every `*_assert` (`Duration::ZERO`). -/\ndef assertTime : Nat := 0\n";
    b += "\n/-- `apply_keyobject_inner`: key object calls in source order. -/\ninductive PluginStep where\n  | importEs256\n  | importRs256\n  | revoke\n  | rotate\n  | assert (u : Usage)\n  deriving DecidableEq, Repr\n";
    b += &format!("\ndef pluginOrder : List PluginStep := [{}]\n", steps.join(", "));
    b += &format!("\n/-- `ValueSetKeyInternal::merge` (used by `merge_ava_set`): `v_other . status {} v_self . status`. -/\ndef entryMergeReplace (other self : KeyStatus) : Bool := decide (other.rank {merge_op} self.rank)\n", if merge_op == ">" { ">" } else { ">=" });
    b += &format!("\n/-- `ReplIncrementalEntryV1::new` (repl/proto.rs): an attribute is supplied iff `cid . ts {w_hi} repl_range . ts_max && cid . ts {w_lo} repl_range . ts_min` for the range of the cid's origin server (`unwrap_or(false)` when there is none). -/\ndef attrWithin (ts tsMin tsMax : Nat) : Bool := (decide (ts {w_hi_lean} tsMax) && decide (ts {w_lo_lean} tsMin))\n");
    b += "\nend Kanidm.Gen.KeyObjectOps\n";

    let path = format!("{out}/KeyObjectOps.lean");
    if !std::fs::read_to_string(&path).map(|old| old == b).unwrap_or(false) {
        std::fs::write(&path, &b).map_err(|e| format!("{path}: {e}"))?;
    }
    Ok(format!(
        "KeyObjectOps: {} usages, verify/load/new tables, signer bound {op}, {} plugin steps, merge {merge_op}",
        usage_variants.len(),
        steps.len()
    ))
}
