//! C17 translator item `memberof-ops`: the operators and call shapes of
//! `plugins/memberof.rs` (and the plugin order of `plugins/mod.rs`) the Lean model
//! `KanidmModel/MemberOf.lean` is parameterised by.  An unrecognised shape is an error.
use crate::util::*;
use quote::ToTokens;
use syn::visit::Visit;
use syn::{BinOp, Expr};

pub fn run(item: &str, repo: &str, out: &str) -> Option<Result<String, String>> {
    match item {
        "memberof-ops" => Some(memberof_ops(repo, out)),
        _ => None,
    }
}

/// Token text without any whitespace (comments are not tokens).
fn squash<T: ToTokens>(t: &T) -> String {
    t.to_token_stream().to_string().chars().filter(|c| !c.is_whitespace()).collect()
}

fn count(hay: &str, needle: &str) -> usize {
    hay.matches(needle).count()
}

/// The "did we change?" condition of `apply_memberof`: `<mo differs> OP <dmo differs>`.
fn change_condition(f: &FoundFn) -> Result<&'static str, String> {
    let mut found = vec![];
    for c in if_conditions(&f.block) {
        if let Expr::Binary(b) = &c {
            let (l, r) = (squash(&b.left), squash(&b.right));
            if l.contains("!=") && r.contains("!=") {
                let mo = "pre.get_ava_set(Attribute::MemberOf)!=tgte.get_ava_set(Attribute::MemberOf)";
                let dmo = "pre.get_ava_set(Attribute::DirectMemberOf)!=tgte.get_ava_set(Attribute::DirectMemberOf)";
                if l != mo || r != dmo {
                    return Err(format!("change test compares unexpected things: `{l}` / `{r}`"));
                }
                match b.op {
                    BinOp::Or(_) => found.push("||"),
                    BinOp::And(_) => found.push("&&"),
                    _ => return Err(format!("change test joined by unexpected operator `{}`", squash(&b.op))),
                }
            }
        }
    }
    match found.as_slice() {
        [one] => Ok(one),
        other => Err(format!("expected exactly one change test in apply_memberof, found {}", other.len())),
    }
}

/// Method names of `pre_m.<method>(post_m)` calls.
fn delta_methods(f: &FoundFn) -> Vec<String> {
    struct V(Vec<String>);
    impl<'ast> Visit<'ast> for V {
        fn visit_expr_method_call(&mut self, m: &'ast syn::ExprMethodCall) {
            if squash(&m.receiver) == "pre_m" && m.args.len() == 1 && squash(&m.args[0]) == "post_m" {
                self.0.push(m.method.to_string());
            }
            syn::visit::visit_expr_method_call(self, m);
        }
    }
    let mut v = V(vec![]);
    v.visit_block(&f.block);
    v.0
}

fn order_in(ast: &syn::File, func: &str, hook: &str) -> Result<bool, String> {
    let f = find_fn(ast, func)?;
    let body = squash(&f.block);
    let a = body.find(&format!("refint::ReferentialIntegrity::{hook}(")).ok_or(format!("{func}: no refint::{hook} call"))?;
    let b = body.find(&format!("memberof::MemberOf::{hook}(")).ok_or(format!("{func}: no memberof::{hook} call"))?;
    Ok(a < b)
}

fn memberof_ops(repo: &str, out: &str) -> Result<String, String> {
    let rel = "server/lib/src/plugins/memberof.rs";
    let ast = parse_file(repo, rel)?;
    // ---- apply_memberof
    let apply = find_fn(&ast, "apply_memberof")?;
    let comb = change_condition(&apply)?;
    let apply_s = squash(&apply.block);
    let extends = count(&apply_s, "affected_uuids.extend(") - count(&apply_s, "all_affected_uuids.extend(");
    let enqueue = match extends {
        // (pre, post) + one-sided arm, for member and for dynmember
        6 => true,
        0 => false,
        n => return Err(format!("apply_memberof: expected 6 `affected_uuids.extend(..)` calls in the changed arm, found {n}")),
    };
    for needle in [
        "while!affected_uuids.is_empty()",
        "affected_uuids.clear();",
        "do_group_memberof(qs,guuid,&muttgte)?",
        "all_affected_uuids.extend(affected_uuids.iter());",
        "do_leaf_memberof(qs,all_affected_uuids)",
    ] {
        if count(&apply_s, needle) != 1 {
            return Err(format!("apply_memberof: expected exactly one `{needle}`"));
        }
    }
    // the stripe is written after the `for` over the work set (synchronous round)
    let for_pos = apply_s.find("for(pre,muttgte)inwork_set.into_iter()").ok_or("apply_memberof: work-set loop not found")?;
    let write_pos = apply_s.find("qs.internal_apply_writable(changes)").ok_or("apply_memberof: stripe write not found")?;
    let group_pos = apply_s.find("do_group_memberof(").unwrap();
    if !(for_pos < group_pos && group_pos < write_pos) {
        return Err("apply_memberof: the stripe write no longer follows the work-set loop".into());
    }
    // ---- post_modify_inner
    let pmi = find_fn(&ast, "MemberOf::post_modify_inner")?;
    let methods = delta_methods(&pmi);
    if methods.len() != 2 || methods[0] != methods[1] {
        return Err(format!("post_modify_inner: expected the same `pre_m.<op>(post_m)` for member and dynmember, found {methods:?}"));
    }
    let delta = match methods[0].as_str() {
        "symmetric_difference" => "symmetricDifference",
        "difference" => "difference",
        "intersection" => "intersection",
        "union" => "union",
        o => return Err(format!("post_modify_inner: unknown set operation `{o}`")),
    };
    let pmi_s = squash(&pmi.block);
    if count(&pmi_s, "cand.iter().map(|post|post.get_uuid())") != 1 || count(&pmi_s, "affected_uuids.extend(members);") != 2 {
        return Err("post_modify_inner: candidate uuids / one-sided arms not in the expected shape".into());
    }
    // ---- do_group_memberof / do_leaf_memberof
    let dg = squash(&find_fn(&ast, "do_group_memberof")?.block);
    for needle in [
        "f_eq(Attribute::Class,EntryClass::Group.into())",
        "f_eq(Attribute::Member,PartialValue::Refer(uuid))",
        "f_eq(Attribute::DynMember,PartialValue::Refer(uuid))",
        "tgte.purge_ava(Attribute::MemberOf);",
        "tgte.purge_ava(Attribute::DirectMemberOf);",
        "g.get_ava_set(Attribute::MemberOf)",
    ] {
        if count(&dg, needle) != 1 {
            return Err(format!("do_group_memberof: expected exactly one `{needle}`"));
        }
    }
    let merge = match count(&dg, "mo.merge(&dmo)?") {
        1 => true,
        0 => false,
        n => return Err(format!("do_group_memberof: {n} merges of dmo into mo")),
    };
    let dl = squash(&find_fn(&ast, "do_leaf_memberof")?.block);
    let leaf_inherits = match count(&dl, "mo_set.extend(group_mo.iter())") {
        1 => true,
        0 => false,
        n => return Err(format!("do_leaf_memberof: {n} propagations of the group's memberof")),
    };
    // `dmo_set.insert` contains `mo_set.insert` as a substring
    if count(&dl, "mo_set.insert(group_uuid);") != 2 || count(&dl, "dmo_set.insert(group_uuid);") != 1 {
        return Err("do_leaf_memberof: direct group insertion not in the expected shape".into());
    }
    // ---- pre_delete / post_delete / post_create_inner
    let pd = squash(&find_fn(&ast, "MemberOf::pre_delete")?.block);
    let stash = pd.contains("entry.pop_ava(Attribute::DirectMemberOf)")
        && pd.contains("entry.set_ava_set(&Attribute::RecycledDirectMemberOf,direct_mo_vs)");
    let purge = pd.contains("entry.purge_ava(Attribute::MemberOf);");
    let post_del = squash(&find_fn(&ast, "MemberOf::post_delete")?.block);
    if !post_del.contains("e.get_ava_as_refuuid(Attribute::Member)") || !post_del.contains("apply_memberof(qs,affected_uuids)") {
        return Err("post_delete: affected set is no longer the members of the deleted groups".into());
    }
    let pci = squash(&find_fn(&ast, "MemberOf::post_create_inner")?.block);
    if !pci.contains("cand.iter().map(|e|e.get_uuid())") || !pci.contains("e.get_ava_as_refuuid(Attribute::Member)") {
        return Err("post_create_inner: affected set is no longer the candidates plus their members".into());
    }
    // ---- plugin order
    let mods = parse_file(repo, "server/lib/src/plugins/mod.rs")?;
    let mut order = true;
    for (func, hook) in [
        ("Plugins::run_post_create", "post_create"),
        ("Plugins::run_post_modify", "post_modify"),
        ("Plugins::run_post_batch_modify", "post_batch_modify"),
        ("Plugins::run_post_delete", "post_delete"),
        ("Plugins::run_post_repl_refresh", "post_repl_refresh"),
        ("Plugins::run_post_repl_incremental", "post_repl_incremental"),
    ] {
        order &= order_in(&mods, func, hook)?;
    }
    let b = |x: bool| if x { "true" } else { "false" };
    let body = format!(
        "namespace Kanidm.Gen.MemberOf\n\
inductive SetOp where\n  | symmetricDifference | difference | intersection | union\nderiving DecidableEq, Repr\n\
/-- apply_memberof: `pre.mo != tgte.mo {comb} pre.dmo != tgte.dmo` -/\n\
def changedComb (moDiffers dmoDiffers : Bool) : Bool := moDiffers {comb} dmoDiffers\n\
/-- post_modify_inner, (Some, Some) arm of the `member` match: `affected_uuids.extend(pre_m.{m}(post_m))` -/\n\
def modifyDeltaOp : SetOp := .{delta}\n\
/-- do_group_memberof: direct parents are merged into memberof (`mo.merge(&dmo)`) -/\n\
def mergeDmoIntoMo : Bool := {merge}\n\
/-- do_leaf_memberof: the group's own memberof is propagated to the leaf (`mo_set.extend(group_mo.iter())`) -/\n\
def leafInheritsGroupMo : Bool := {leaf}\n\
/-- apply_memberof, changed arm: pre- and post-members are both enqueued -/\n\
def enqueueMembersOnChange : Bool := {enq}\n\
/-- pre_delete: directmemberof is moved to recycled_directmemberof and memberof is purged -/\n\
def preDeleteStashesDmo : Bool := {stash}\n\
def preDeletePurgesMo : Bool := {purge}\n\
/-- plugins/mod.rs: referential integrity runs before memberof in every post hook -/\n\
def refintBeforeMemberOf : Bool := {order}\n\
end Kanidm.Gen.MemberOf\n",
        comb = comb,
        m = methods[0],
        delta = delta,
        merge = b(merge),
        leaf = b(leaf_inherits),
        enq = b(enqueue),
        stash = b(stash),
        purge = b(purge),
        order = b(order),
    );
    write_generated(out, "MemberOfOps", "server/lib/src/plugins/memberof.rs + server/lib/src/plugins/mod.rs", &body)?;
    Ok(format!("MemberOfOps: change test `{comb}`, delta {delta}, merge {merge}, leaf {leaf_inherits}, enqueue {enqueue}, pre_delete {stash}/{purge}, refint first {order}"))
}
