//! C31 translator item `pwquality-ops`: the two password quality gates
//! (`IdmServerCredUpdateTransaction::check_password_quality`, credupdatesession.rs, and
//! `IdmServerProxyWriteTransaction::check_password_quality`, server.rs) re-read from the source:
//! the order of the gates, the length comparisons (operands resolved through the `let` bindings:
//! graphemes / bytes / policy minimum / policy maximum / constants), the values reported with
//! `TooShort`/`TooLong`, the zxcvbn score threshold, whether the badlist is looked up with the
//! lower-cased cleartext — plus two structural checks that have no Lean counterpart and fail the
//! translation when violated:
//!  * the three password setters call their gate with the expected arguments, propagate its error
//!    with `?`, and do so before anything is hashed or stored;
//!  * no other non-test function under server/lib/src/{idm,plugins,server} turns a cleartext into a
//!    credential (allow-list of the generated-password paths).
use crate::util::*;
use quote::ToTokens;
use std::collections::{BTreeMap, BTreeSet};
use syn::visit::Visit;

pub fn run(item: &str, repo: &str, out: &str) -> Option<Result<String, String>> {
    match item {
        "pwquality-ops" => Some(pwquality_ops(repo, out)),
        _ => None,
    }
}

fn toks<T: ToTokens>(t: &T) -> String {
    t.to_token_stream().to_string()
}

/// Token text without whitespace.
fn nsp<T: ToTokens>(t: &T) -> String {
    toks(t).chars().filter(|c| !c.is_whitespace()).collect()
}

const LOG_MACROS: &[&str] = &[
    "error", "warn", "info", "debug", "trace", "admin_error", "admin_warn", "admin_info", "admin_debug",
    "security_info", "security_error", "security_access", "request_error",
];

fn is_log_macro(m: &syn::Macro) -> bool {
    m.path.segments.last().map(|s| LOG_MACROS.contains(&s.ident.to_string().as_str())).unwrap_or(false)
}

struct Env<'a> {
    binds: BTreeMap<String, syn::Expr>,
    consts: &'a BTreeMap<String, i128>,
}

/// Render a length operand / comparison as Lean over `graphemes bytes polMin polMax`.
fn render(e: &syn::Expr, env: &Env, depth: usize) -> Result<String, String> {
    use syn::{BinOp, Expr};
    if depth > 8 {
        return Err("binding chain too deep".into());
    }
    match e {
        Expr::Cast(c) => render(&c.expr, env, depth + 1),
        Expr::Paren(p) => render(&p.expr, env, depth + 1),
        Expr::Group(g) => render(&g.expr, env, depth + 1),
        Expr::Reference(r) => render(&r.expr, env, depth + 1),
        Expr::Lit(l) => match &l.lit {
            syn::Lit::Int(i) => Ok(i.base10_digits().to_string()),
            o => Err(format!("unsupported literal {}", toks(o))),
        },
        Expr::Binary(b) => {
            let l = render(&b.left, env, depth + 1)?;
            let r = render(&b.right, env, depth + 1)?;
            let op = match b.op {
                BinOp::Lt(_) => "<",
                BinOp::Le(_) => "≤",
                BinOp::Gt(_) => ">",
                BinOp::Ge(_) => "≥",
                _ => return Err(format!("unsupported operator in `{}`", toks(e))),
            };
            Ok(format!("decide ({l} {op} {r})"))
        }
        _ => {
            let s = nsp(e);
            match s.as_str() {
                "utf8_len(cleartext)" => return Ok("graphemes".into()),
                "cleartext.len()" => return Ok("bytes".into()),
                "resolved_account_policy.pw_min_length()" => return Ok("polMin".into()),
                "resolved_account_policy.pw_max_length()" => return Ok("polMax".into()),
                _ => {}
            }
            if let Expr::MethodCall(m) = e {
                let name = m.method.to_string();
                if (name == "max" || name == "min") && m.args.len() == 1 {
                    let a = render(&m.receiver, env, depth + 1)?;
                    let b = render(&m.args[0], env, depth + 1)?;
                    return Ok(format!("({name} {a} {b})"));
                }
            }
            if let Expr::Path(p) = e {
                if p.qself.is_none() {
                    let last = p.path.segments.last().map(|s| s.ident.to_string()).unwrap_or_default();
                    if p.path.segments.len() == 1 {
                        if let Some(init) = env.binds.get(&last) {
                            return render(init, env, depth + 1);
                        }
                    }
                    if let Some(v) = env.consts.get(&last) {
                        return Ok(v.to_string());
                    }
                }
            }
            Err(format!("unrecognised length operand `{}`", toks(e)))
        }
    }
}

/// The argument of the trailing `return Err(<arg>)` of a block.
fn returns_err(b: &syn::Block) -> Result<syn::Expr, String> {
    let bad = || format!("block does not end in `return Err(..)`: `{}`", toks(b));
    let Some(last) = b.stmts.last() else { return Err(bad()) };
    let syn::Stmt::Expr(syn::Expr::Return(r), _) = last else { return Err(bad()) };
    let Some(inner) = &r.expr else { return Err(bad()) };
    let syn::Expr::Call(c) = &**inner else { return Err(bad()) };
    if path_string(&c.func).as_deref() != Some("Err") || c.args.len() != 1 {
        return Err(bad());
    }
    Ok(c.args[0].clone())
}

/// First argument of the call `…::<name>(arg)` somewhere inside `e`.
fn payload_of(e: &syn::Expr, name: &str) -> Option<syn::Expr> {
    struct V<'a>(&'a str, Option<syn::Expr>);
    impl<'a, 'ast> Visit<'ast> for V<'a> {
        fn visit_expr_call(&mut self, c: &'ast syn::ExprCall) {
            if let syn::Expr::Path(p) = &*c.func {
                if p.path.segments.last().map(|s| s.ident == self.0).unwrap_or(false) && c.args.len() == 1 && self.1.is_none() {
                    self.1 = Some(c.args[0].clone());
                }
            }
            syn::visit::visit_expr_call(self, c);
        }
        fn visit_macro(&mut self, m: &'ast syn::Macro) {
            // `vec![PasswordFeedback::TooShort(x),]`
            if let Ok(args) = m.parse_body_with(syn::punctuated::Punctuated::<syn::Expr, syn::Token![,]>::parse_terminated) {
                for a in args.iter() {
                    self.visit_expr(a);
                }
            }
        }
    }
    let mut v = V(name, None);
    v.visit_expr(e);
    v.1
}

#[derive(Default)]
struct Gates {
    order: Vec<u8>,
    too_short: String,
    too_long: String,
    short_report: String,
    long_report: String,
    weak: String,
    key_lowered: bool,
    src: Vec<String>,
}

const G_LENGTH: u8 = 0;
const G_RADIUS: u8 = 1;
const G_RELATED: u8 = 2;
const G_SCORE: u8 = 3;
const G_BADLIST: u8 = 4;

fn parse_quality_fn(f: &FoundFn, qs: &str, consts: &BTreeMap<String, i128>) -> Result<Gates, String> {
    use syn::{Expr, Stmt};
    let mut env = Env { binds: BTreeMap::new(), consts };
    let mut g = Gates::default();
    let mut entropy: Option<String> = None;
    let n = f.block.stmts.len();
    let push = |g: &mut Gates, code: u8| -> Result<(), String> {
        if g.order.contains(&code) {
            return Err(format!("gate {code} appears twice"));
        }
        g.order.push(code);
        Ok(())
    };
    for (idx, stmt) in f.block.stmts.iter().enumerate() {
        let last = idx + 1 == n;
        match stmt {
            Stmt::Local(l) => {
                let name = match &l.pat {
                    syn::Pat::Ident(i) => i.ident.to_string(),
                    syn::Pat::Type(t) => match &*t.pat {
                        syn::Pat::Ident(i) => i.ident.to_string(),
                        o => return Err(format!("unsupported let pattern `{}`", toks(o))),
                    },
                    o => return Err(format!("unsupported let pattern `{}`", toks(o))),
                };
                let init = l.init.as_ref().ok_or_else(|| format!("let {name} without initialiser"))?;
                if init.diverge.is_some() {
                    return Err(format!("let-else on {name}"));
                }
                let s = nsp(&init.expr);
                if s.starts_with("zxcvbn(") {
                    if s != "zxcvbn(cleartext,related_inputs)" {
                        return Err(format!("zxcvbn is no longer called on (cleartext, related_inputs): `{s}`"));
                    }
                    entropy = Some(name);
                } else {
                    env.binds.insert(name, (*init.expr).clone());
                }
            }
            Stmt::Macro(m) if is_log_macro(&m.mac) => {}
            Stmt::Expr(Expr::Macro(m), _) if is_log_macro(&m.mac) => {}
            Stmt::Expr(Expr::ForLoop(fl), _) => {
                let s = nsp(fl);
                let want = "forrelatedinrelated_inputs{ifcleartext.contains(related){returnErr(";
                if !s.starts_with(want) {
                    return Err(format!("unrecognised loop `{}`", toks(fl)));
                }
                g.src.push("related: for related in related_inputs { if cleartext.contains(related) { return Err(..) } }".into());
                push(&mut g, G_RELATED)?;
            }
            Stmt::Expr(Expr::If(i), semi) => {
                let c = nsp(&i.cond);
                if matches!(&*i.cond, Expr::Let(_)) {
                    let want = "ifletSome(some_radius_secret)=radius_secret{ifcleartext.contains(some_radius_secret){returnErr(PasswordQuality::DontReusePasswords);}}";
                    if nsp(i) != want {
                        return Err(format!("unrecognised `if let` gate `{}`", toks(i)));
                    }
                    g.src.push("radius: if cleartext.contains(some_radius_secret) { return Err(DontReusePasswords) }".into());
                    push(&mut g, G_RADIUS)?;
                } else if c.contains(".score()") {
                    let Expr::Binary(b) = &*i.cond else { return Err(format!("score gate is not a comparison: `{c}`")) };
                    let ent = entropy.clone().ok_or("score gate before `let entropy = zxcvbn(..)`")?;
                    if nsp(&b.left) != format!("{ent}.score()") {
                        return Err(format!("score gate compares `{}`", toks(&b.left)));
                    }
                    let r = nsp(&b.right);
                    let lvl = match r.as_str() {
                        "Score::Zero" => 0,
                        "Score::One" => 1,
                        "Score::Two" => 2,
                        "Score::Three" => 3,
                        "Score::Four" => 4,
                        _ => return Err(format!("score gate compares against `{r}`")),
                    };
                    let op = match b.op {
                        syn::BinOp::Lt(_) => "<",
                        syn::BinOp::Le(_) => "≤",
                        syn::BinOp::Gt(_) => ">",
                        syn::BinOp::Ge(_) => "≥",
                        syn::BinOp::Eq(_) => "=",
                        syn::BinOp::Ne(_) => "≠",
                        _ => return Err(format!("score gate operator in `{c}`")),
                    };
                    if i.else_branch.is_some() {
                        return Err("score gate has an else branch".into());
                    }
                    returns_err(&i.then_branch)?;
                    g.weak = format!("decide (score {op} {lvl})");
                    g.src.push(format!("score: if {} {{ .. return Err(..) }}", toks(&i.cond)));
                    push(&mut g, G_SCORE)?;
                } else if c.contains("pw_badlist()") {
                    if !last || semi.is_some() {
                        return Err("the badlist lookup is no longer the tail expression".into());
                    }
                    if c == format!("{qs}.pw_badlist().contains(&cleartext.to_lowercase())") {
                        g.key_lowered = true;
                    } else if c == format!("{qs}.pw_badlist().contains(cleartext)") {
                        g.key_lowered = false;
                    } else {
                        return Err(format!("unrecognised badlist lookup `{}`", toks(&i.cond)));
                    }
                    let then_last = i.then_branch.stmts.last().map(nsp).unwrap_or_default();
                    if !(then_last.starts_with("Err(") && then_last.contains("BadListed")) {
                        return Err(format!("badlist hit does not yield Err(..BadListed..): `{then_last}`"));
                    }
                    match &i.else_branch {
                        Some((_, e)) if nsp(e) == "{Ok(())}" => {}
                        o => return Err(format!("badlist miss is not `Ok(())`: `{}`", o.as_ref().map(|x| toks(&x.1)).unwrap_or_default())),
                    }
                    g.src.push(format!("badlist: if {} {{ Err(BadListed) }} else {{ Ok(()) }}", toks(&i.cond)));
                    push(&mut g, G_BADLIST)?;
                } else {
                    // the length chain: if <short> { return Err(TooShort(a)) } else if <long> { return Err(TooLong(b)) }
                    g.too_short = render(&i.cond, &env, 0)?;
                    let e1 = returns_err(&i.then_branch)?;
                    let p1 = payload_of(&e1, "TooShort").ok_or_else(|| format!("first length branch does not report TooShort: `{}`", toks(&e1)))?;
                    g.short_report = render(&p1, &env, 0)?;
                    let Some((_, els)) = &i.else_branch else { return Err("length gate without the `else if` (maximum) branch".into()) };
                    let Expr::If(i2) = &**els else { return Err(format!("length gate else branch is not `else if`: `{}`", toks(els))) };
                    g.too_long = render(&i2.cond, &env, 0)?;
                    let e2 = returns_err(&i2.then_branch)?;
                    let p2 = payload_of(&e2, "TooLong").ok_or_else(|| format!("second length branch does not report TooLong: `{}`", toks(&e2)))?;
                    g.long_report = render(&p2, &env, 0)?;
                    if i2.else_branch.is_some() {
                        return Err("length gate has a third branch".into());
                    }
                    g.src.push(format!("length: if {} {{ return Err(TooShort({})) }} else if {} {{ return Err(TooLong({})) }}",
                        toks(&i.cond), toks(&p1), toks(&i2.cond), toks(&p2)));
                    push(&mut g, G_LENGTH)?;
                }
            }
            other => return Err(format!("unrecognised statement in check_password_quality: `{}`", toks(other))),
        }
    }
    if g.weak.is_empty() {
        // no score gate: the model's gate 3 is then never consulted, but keep the def total
        g.weak = "false".into();
    }
    if !g.order.contains(&G_LENGTH) {
        g.too_short = "false".into();
        g.too_long = "false".into();
        g.short_report = "0".into();
        g.long_report = "0".into();
    }
    Ok(g)
}

// ---------------------------------------------------------------------------------------------
// setters: the gate is called with the expected arguments, propagated with `?`, before any store
// ---------------------------------------------------------------------------------------------

struct Setter {
    file: &'static str,
    spec: &'static str,
    args: &'static str,
    /// statements that hash or store the cleartext: each must exist and come after the gate
    after: &'static [&'static str],
    /// text that must occur somewhere in the body (what is checked is what is stored)
    must_contain: &'static [&'static str],
}

const CU_ARGS: &str =
    "pw,&session.resolved_account_policy,session.account.related_inputs().as_slice(),session.account.radius_secret.as_deref()";

const SETTERS: &[Setter] = &[
    Setter {
        file: "server/lib/src/idm/credupdatesession.rs",
        spec: "IdmServerCredUpdateTransaction::credential_primary_set_password",
        args: CU_ARGS,
        after: &["session.primary=Some(ncred)", "Credential::new_password_only(self.crypto_policy,pw,timestamp)"],
        must_contain: &["primary.set_password(self.crypto_policy,pw,timestamp)"],
    },
    Setter {
        file: "server/lib/src/idm/credupdatesession.rs",
        spec: "IdmServerCredUpdateTransaction::credential_unix_set_password",
        args: CU_ARGS,
        after: &["session.unixcred=Some(ncred)", "Credential::new_password_only(self.crypto_policy,pw,timestamp)"],
        must_contain: &["unixcred.set_password(self.crypto_policy,pw,timestamp)"],
    },
    Setter {
        file: "server/lib/src/idm/server.rs",
        spec: "IdmServerProxyWriteTransaction::set_unix_account_password",
        args: "pce.cleartext.as_str(),&resolved_account_policy,account.related_inputs().as_slice()",
        after: &["self.qs_write.modify_apply(mp)"],
        must_contain: &[
            "let(account,resolved_account_policy)=self.qs_write.internal_search_uuid(pce.target).and_then(|account_entry|{Account::try_from_entry_with_policy(&account_entry,&mutself.qs_write)})",
            "gen_password_mod(pce.cleartext.as_str(),self.crypto_policy,timestamp)",
        ],
    },
];

/// `<chain of map_err/inspect_err>(self.check_password_quality(args))` → args
fn gate_call(e: &syn::Expr) -> Result<&syn::ExprMethodCall, String> {
    match e {
        syn::Expr::MethodCall(m) => {
            let name = m.method.to_string();
            if name == "check_password_quality" {
                if nsp(&m.receiver) != "self" {
                    return Err(format!("gate called on `{}`", toks(&m.receiver)));
                }
                Ok(m)
            } else if name == "map_err" || name == "inspect_err" {
                gate_call(&m.receiver)
            } else {
                Err(format!("the gate's result passes through `.{name}(..)` before `?`"))
            }
        }
        o => Err(format!("unrecognised gate statement `{}`", toks(o))),
    }
}

fn check_setter(repo: &str, s: &Setter) -> Result<String, String> {
    let ast = parse_file(repo, s.file)?;
    let f = find_fn(&ast, s.spec)?;
    let stmts: Vec<String> = f.block.stmts.iter().map(nsp).collect();
    let gate_idx: Vec<usize> =
        stmts.iter().enumerate().filter(|(_, t)| t.contains("check_password_quality(")).map(|(i, _)| i).collect();
    if gate_idx.len() != 1 {
        return Err(format!("{}: expected exactly one top-level statement calling check_password_quality, found {}", s.spec, gate_idx.len()));
    }
    let gi = gate_idx[0];
    let syn::Stmt::Expr(syn::Expr::Try(t), Some(_)) = &f.block.stmts[gi] else {
        return Err(format!("{}: the quality gate's result is not propagated with `?;`: `{}`", s.spec, toks(&f.block.stmts[gi])));
    };
    let call = gate_call(&t.expr).map_err(|e| format!("{}: {e}", s.spec))?;
    let args: Vec<String> = call.args.iter().map(nsp).collect();
    if args.join(",") != s.args {
        return Err(format!("{}: gate called with `{}` (expected `{}`)", s.spec, args.join(","), s.args));
    }
    for marker in s.after {
        let at: Vec<usize> = stmts.iter().enumerate().filter(|(_, t)| t.contains(marker)).map(|(i, _)| i).collect();
        if at.is_empty() {
            return Err(format!("{}: store/hash statement `{marker}` not found", s.spec));
        }
        if let Some(j) = at.iter().find(|j| **j <= gi) {
            return Err(format!("{}: `{marker}` (statement {j}) is not after the quality gate (statement {gi})", s.spec));
        }
    }
    let body = nsp(&f.block);
    for m in s.must_contain {
        if !body.contains(m) {
            return Err(format!("{}: expected `{m}` in the body", s.spec));
        }
    }
    // no early `return Ok` before the gate
    for (j, t) in stmts.iter().enumerate().take(gi) {
        if t.contains("returnOk(") {
            return Err(format!("{}: statement {j} returns Ok before the quality gate", s.spec));
        }
    }
    Ok(format!("{} (gate = statement {gi} of {})", s.spec, stmts.len()))
}

// ---------------------------------------------------------------------------------------------
// global scan: which non-test functions turn a cleartext into a credential
// ---------------------------------------------------------------------------------------------

const MARK_METHODS: &[&str] = &["set_password", "gen_password_mod"];
const MARK_PATHS: &[&str] = &["new_password_only", "new_generatedpassword_only", "gen_password_mod"];

/// file (relative to server/lib/src) :: function ↦ why it is not a quality-checked setter
const ALLOWED: &[(&str, &str)] = &[
    ("idm/credupdatesession.rs::credential_primary_set_password", "checked (credential update gate)"),
    ("idm/credupdatesession.rs::credential_unix_set_password", "checked (credential update gate)"),
    ("idm/server.rs::set_unix_account_password", "checked (POSIX gate)"),
    ("idm/server.rs::gen_password_mod", "helper of set_unix_account_password (its only non-test caller, scanned)"),
    ("idm/server.rs::recover_account", "exempt: server-generated 48-character password (the Some(cleartext) argument is only passed by the integration-test bootstrap in server/core)"),
    ("idm/serviceaccount.rs::generate_service_account_password", "exempt: server-generated 48-character password"),
    ("idm/application.rs::generate_application_password", "exempt: server-generated application password"),
];

fn has_cfg_test(attrs: &[syn::Attribute]) -> bool {
    attrs.iter().any(|a| {
        let s = nsp(a);
        s.contains("cfg(test)") || s.contains("cfg(all(test") || s == "#[test]" || s.contains("::test]") || s.contains("::test(")
    })
}

struct Scan {
    stack: Vec<String>,
    hits: BTreeMap<String, BTreeSet<String>>,
}

impl Scan {
    fn hit(&mut self, what: &str) {
        if let Some(f) = self.stack.last() {
            self.hits.entry(f.clone()).or_default().insert(what.to_string());
        }
    }
}

impl<'ast> Visit<'ast> for Scan {
    fn visit_item_mod(&mut self, m: &'ast syn::ItemMod) {
        if has_cfg_test(&m.attrs) || m.ident == "tests" || m.ident == "test" {
            return;
        }
        syn::visit::visit_item_mod(self, m);
    }
    fn visit_item_impl(&mut self, i: &'ast syn::ItemImpl) {
        if has_cfg_test(&i.attrs) {
            return;
        }
        syn::visit::visit_item_impl(self, i);
    }
    fn visit_item_fn(&mut self, f: &'ast syn::ItemFn) {
        if has_cfg_test(&f.attrs) {
            return;
        }
        self.stack.push(f.sig.ident.to_string());
        syn::visit::visit_item_fn(self, f);
        self.stack.pop();
    }
    fn visit_impl_item_fn(&mut self, f: &'ast syn::ImplItemFn) {
        if has_cfg_test(&f.attrs) {
            return;
        }
        self.stack.push(f.sig.ident.to_string());
        syn::visit::visit_impl_item_fn(self, f);
        self.stack.pop();
    }
    fn visit_expr_method_call(&mut self, m: &'ast syn::ExprMethodCall) {
        let n = m.method.to_string();
        if MARK_METHODS.contains(&n.as_str()) {
            self.hit(&n);
        }
        syn::visit::visit_expr_method_call(self, m);
    }
    fn visit_expr_call(&mut self, c: &'ast syn::ExprCall) {
        if let syn::Expr::Path(p) = &*c.func {
            if let Some(last) = p.path.segments.last() {
                let n = last.ident.to_string();
                if MARK_PATHS.contains(&n.as_str()) {
                    self.hit(&n);
                }
                if n == "new" && p.path.segments.len() >= 2 && p.path.segments[p.path.segments.len() - 2].ident == "ApplicationPassword" {
                    self.hit("ApplicationPassword::new");
                }
            }
        }
        syn::visit::visit_expr_call(self, c);
    }
    fn visit_macro(&mut self, m: &'ast syn::Macro) {
        // look inside expression-list macros (vec!, format!, …) too
        if let Ok(args) = m.parse_body_with(syn::punctuated::Punctuated::<syn::Expr, syn::Token![,]>::parse_terminated) {
            for a in args.iter() {
                self.visit_expr(a);
            }
        }
    }
}

fn rs_files(dir: &std::path::Path, out: &mut Vec<std::path::PathBuf>) {
    if let Ok(rd) = std::fs::read_dir(dir) {
        let mut es: Vec<_> = rd.flatten().map(|e| e.path()).collect();
        es.sort();
        for p in es {
            if p.is_dir() {
                rs_files(&p, out);
            } else if p.extension().map(|e| e == "rs").unwrap_or(false) {
                out.push(p);
            }
        }
    }
}

fn scan_setters(repo: &str) -> Result<Vec<(String, String)>, String> {
    let base = format!("{repo}/server/lib/src");
    let mut files = vec![];
    for d in ["idm", "plugins", "server"] {
        rs_files(std::path::Path::new(&format!("{base}/{d}")), &mut files);
    }
    if files.len() < 20 {
        return Err(format!("only {} source files found under {base}/{{idm,plugins,server}}", files.len()));
    }
    let mut found: BTreeMap<String, BTreeSet<String>> = BTreeMap::new();
    for p in &files {
        let rel = p.strip_prefix(&base).map_err(|e| e.to_string())?.to_string_lossy().to_string();
        let src = std::fs::read_to_string(p).map_err(|e| format!("{}: {e}", p.display()))?;
        // cheap pre-filter: most files mention none of the markers
        if !MARK_METHODS.iter().chain(MARK_PATHS.iter()).any(|m| src.contains(m)) && !src.contains("ApplicationPassword::new") {
            continue;
        }
        let ast = syn::parse_file(&src).map_err(|e| format!("{}: parse error: {e}", p.display()))?;
        let mut s = Scan { stack: vec![], hits: BTreeMap::new() };
        s.visit_file(&ast);
        for (f, marks) in s.hits {
            found.entry(format!("{rel}::{f}")).or_default().extend(marks);
        }
    }
    let allowed: BTreeMap<&str, &str> = ALLOWED.iter().cloned().collect();
    let mut out = vec![];
    for (f, marks) in &found {
        match allowed.get(f.as_str()) {
            Some(why) => out.push((format!("{f} [{}]", marks.iter().cloned().collect::<Vec<_>>().join(", ")), why.to_string())),
            None => {
                return Err(format!(
                    "new password-setting path: `{f}` calls {:?} and is not one of the quality-checked setters or listed generated-password paths",
                    marks
                ))
            }
        }
    }
    for (f, _) in ALLOWED {
        if !found.contains_key(*f) {
            return Err(format!("listed password-setting path `{f}` no longer creates a credential from a cleartext (update the C31 allow-list and model)"));
        }
    }
    Ok(out)
}

/// `recover_account(name, cleartext)` stores a *caller-supplied* cleartext unchecked when `cleartext` is `Some`.
/// Its callers (server/core) must pass `None` (a generated password), except the integration-test bootstrap.
fn check_recover_callers(repo: &str) -> Result<Vec<String>, String> {
    const ALLOWED_ARGS: &[&str] = &[
        "name.as_str(),None",
        "&itc.admin_user,Some(&itc.admin_password)",
        "&itc.idm_admin_user,Some(&itc.idm_admin_password)",
    ];
    struct V(Vec<String>);
    impl<'ast> Visit<'ast> for V {
        fn visit_expr_method_call(&mut self, m: &'ast syn::ExprMethodCall) {
            if m.method == "recover_account" {
                self.0.push(m.args.iter().map(nsp).collect::<Vec<_>>().join(","));
            }
            syn::visit::visit_expr_method_call(self, m);
        }
        fn visit_macro(&mut self, m: &'ast syn::Macro) {
            if let Ok(args) = m.parse_body_with(syn::punctuated::Punctuated::<syn::Expr, syn::Token![,]>::parse_terminated) {
                for a in args.iter() {
                    self.visit_expr(a);
                }
            }
        }
    }
    let mut files = vec![];
    rs_files(std::path::Path::new(&format!("{repo}/server/core/src")), &mut files);
    rs_files(std::path::Path::new(&format!("{repo}/server/daemon/src")), &mut files);
    let mut seen = vec![];
    for p in &files {
        let src = std::fs::read_to_string(p).map_err(|e| format!("{}: {e}", p.display()))?;
        if !src.contains("recover_account(") {
            continue;
        }
        let ast = syn::parse_file(&src).map_err(|e| format!("{}: parse error: {e}", p.display()))?;
        let mut v = V(vec![]);
        v.visit_file(&ast);
        for a in v.0 {
            if !ALLOWED_ARGS.contains(&a.as_str()) {
                return Err(format!(
                    "{}: recover_account({a}) passes a caller-chosen cleartext (or an unrecognised argument) to the unchecked recovery path",
                    p.display()
                ));
            }
            seen.push(format!("{}: recover_account({a})", p.strip_prefix(repo).unwrap_or(p).display()));
        }
    }
    if seen.is_empty() {
        return Err("no caller of recover_account found under server/core/src (update the C31 translator item)".into());
    }
    Ok(seen)
}

fn emit_gates(prefix: &str, g: &Gates, body: &mut String) {
    for s in &g.src {
        body.push_str(&format!("-- {prefix} {s}\n"));
    }
    body.push_str(&format!(
        "def {prefix}Gates : List Nat := [{}]\n",
        g.order.iter().map(|c| c.to_string()).collect::<Vec<_>>().join(", ")
    ));
    body.push_str(&format!("def {prefix}TooShort (graphemes bytes polMin polMax : Nat) : Bool := {}\n", g.too_short));
    body.push_str(&format!("def {prefix}TooLong (graphemes bytes polMin polMax : Nat) : Bool := {}\n", g.too_long));
    body.push_str(&format!("def {prefix}ShortReport (polMin polMax : Nat) : Nat := {}\n", g.short_report));
    body.push_str(&format!("def {prefix}LongReport (polMin polMax : Nat) : Nat := {}\n", g.long_report));
    body.push_str(&format!("def {prefix}Weak (score : Nat) : Bool := {}\n", g.weak));
    body.push_str(&format!("def {prefix}KeyLowered : Bool := {}\n", g.key_lowered));
}

fn const_of(file: &syn::File, name: &str) -> Result<i128, String> {
    let e = find_const(file, name).ok_or_else(|| format!("const {name} not found"))?;
    eval_int(&e, &|_| None)
}

fn pwquality_ops(repo: &str, out: &str) -> Result<String, String> {
    let crypto = parse_file(repo, "libs/crypto/src/lib.rs")?;
    let mut consts: BTreeMap<String, i128> = BTreeMap::new();
    for c in ["PW_MFA_MIN_LENGTH", "PW_SFA_MIN_LENGTH_NIST", "PW_MAX_LENGTH_NIST"] {
        consts.insert(c.to_string(), const_of(&crypto, c)?);
    }
    let cu_rel = "server/lib/src/idm/credupdatesession.rs";
    let px_rel = "server/lib/src/idm/server.rs";
    let cu_ast = parse_file(repo, cu_rel)?;
    let px_ast = parse_file(repo, px_rel)?;
    let cu = parse_quality_fn(&find_fn(&cu_ast, "IdmServerCredUpdateTransaction::check_password_quality")?, "self.qs_read", &consts)
        .map_err(|e| format!("{cu_rel} check_password_quality: {e}"))?;
    let px = parse_quality_fn(&find_fn(&px_ast, "IdmServerProxyWriteTransaction::check_password_quality")?, "self.qs_write", &consts)
        .map_err(|e| format!("{px_rel} check_password_quality: {e}"))?;

    // utf8_len is the extended-grapheme-cluster count
    let utils = parse_file(repo, "server/lib/src/utils.rs")?;
    let ul = find_fn(&utils, "utf8_len")?;
    if nsp(&ul.block) != "{value.graphemes(true).count()}" {
        return Err(format!("utils::utf8_len is no longer `value.graphemes(true).count()`: `{}`", toks(&ul.block)));
    }
    // the badlist is stored lower-cased by the value constructor
    let value_rs = parse_file(repo, "server/lib/src/value.rs")?;
    let ni = find_fn(&value_rs, "Value::new_iutf8")?;
    if nsp(&ni.block) != "{Value::Iutf8(s.to_lowercase())}" {
        return Err(format!("Value::new_iutf8 is no longer `Value::Iutf8(s.to_lowercase())`: `{}`", toks(&ni.block)));
    }
    // and loaded verbatim into the set the gates consult
    let srv = parse_file(repo, "server/lib/src/server/mod.rs")?;
    let gb = find_fn(&srv, "QueryServerTransaction::get_sc_password_badlist")?;
    let gbs = nsp(&gb.block);
    if !gbs.contains("self.internal_search_uuid(UUID_SYSTEM_CONFIG).map(|e|matche.get_ava_iter_iutf8(Attribute::BadlistPassword){Some(vs_str_iter)=>vs_str_iter.map(str::to_string).collect::<HashSet<_>>(),None=>HashSet::default(),})") {
        return Err(format!("get_sc_password_badlist has an unrecognised shape: `{}`", toks(&gb.block)));
    }

    let mut checked = vec![];
    for s in SETTERS {
        checked.push(check_setter(repo, s)?);
    }
    let paths = scan_setters(repo)?;
    let recover_callers = check_recover_callers(repo)?;

    let mut body = String::from("namespace Kanidm.Gen.PwQuality\n");
    body.push_str("/-! Constants of libs/crypto/src/lib.rs. -/\n");
    body.push_str(&format!("def pwMfaMin : Nat := {}\n", consts["PW_MFA_MIN_LENGTH"]));
    body.push_str(&format!("def pwSfaMin : Nat := {}\n", consts["PW_SFA_MIN_LENGTH_NIST"]));
    body.push_str(&format!("def pwMaxNist : Nat := {}\n", consts["PW_MAX_LENGTH_NIST"]));
    body.push_str("/-! Gate codes: 0 length, 1 radius-secret containment, 2 related-input containment, 3 zxcvbn score, 4 badlist.\n`graphemes` = `utf8_len(cleartext)`, `bytes` = `cleartext.len()`, `polMin`/`polMax` = the resolved policy's `pw_min_length()`/`pw_max_length()`. -/\n");
    body.push_str("/-! `IdmServerCredUpdateTransaction::check_password_quality` (credupdatesession.rs), gates in source order. -/\n");
    emit_gates("cu", &cu, &mut body);
    body.push_str("/-! `IdmServerProxyWriteTransaction::check_password_quality` (server.rs), gates in source order. -/\n");
    emit_gates("posix", &px, &mut body);
    body.push_str("/-! Setters whose call of the gate was shape-checked (arguments, `?`, before any hash/store):\n");
    for c in &checked {
        body.push_str(&format!("  * {c}\n"));
    }
    body.push_str("Every non-test function under server/lib/src/{idm,plugins,server} that builds a credential from a cleartext:\n");
    for (f, why) in &paths {
        body.push_str(&format!("  * {f} — {why}\n"));
    }
    body.push_str("Callers of the unchecked `recover_account` (must pass `None` = generated password; `itc` = integration-test configuration):\n");
    for c in &recover_callers {
        body.push_str(&format!("  * {c}\n"));
    }
    body.push_str("-/\n");
    body.push_str(&format!("def checkedSetters : Nat := {}\n", checked.len()));
    body.push_str("end Kanidm.Gen.PwQuality\n");
    write_generated(
        out,
        "PwQualityOps",
        "server/lib/src/idm/credupdatesession.rs, server/lib/src/idm/server.rs (check_password_quality, setters), libs/crypto/src/lib.rs (PW_* constants)",
        &body,
    )?;
    Ok(format!("PwQualityOps: cu gates {:?}, posix gates {:?}, {} setters checked, {} credential-building functions classified", cu.order, px.order, checked.len(), paths.len()))
}
