//! C18 translator item `dyngroup-ops`: the tests, flags and call order of
//! `plugins/dyngroup.rs` (and the two call sites in `plugins/memberof.rs`) that the Lean model
//! `KanidmModel/DynGroup.lean` is parameterised by. An unrecognised shape is an error.
use crate::items::vars;
use crate::util::*;
use quote::ToTokens;

pub fn run(item: &str, repo: &str, out: &str) -> Option<Result<String, String>> {
    match item {
        "dyngroup-ops" => Some(dyngroup_ops(repo, out)),
        _ => None,
    }
}

fn squash<T: ToTokens>(t: &T) -> String {
    t.to_token_stream().to_string().chars().filter(|c| !c.is_whitespace()).collect()
}

fn count(hay: &str, needle: &str) -> usize {
    hay.matches(needle).count()
}

fn need(hay: &str, what: &str, needles: &[&str]) -> Result<(), String> {
    for n in needles {
        if count(hay, n) != 1 {
            return Err(format!("{what}: expected exactly one `{n}`, found {}", count(hay, n)));
        }
    }
    Ok(())
}

/// the boolean literal passed as `expect` in the single `Self::apply_dyngroup_change(..)` call
fn expect_arg(body: &str, what: &str) -> Result<bool, String> {
    let t = "Self::apply_dyngroup_change(qs,&mutaffected_uuids,true,&ident_internal,dyn_groups,n_dyn_groups.as_slice(),)?";
    let f = "Self::apply_dyngroup_change(qs,&mutaffected_uuids,false,&ident_internal,dyn_groups,n_dyn_groups.as_slice(),)?";
    match (count(body, t), count(body, f)) {
        (1, 0) => Ok(true),
        (0, 1) => Ok(false),
        _ => Err(format!("{what}: the call of apply_dyngroup_change is not in the expected shape")),
    }
}

fn dyngroup_ops(repo: &str, out: &str) -> Result<String, String> {
    let rel = "server/lib/src/plugins/dyngroup.rs";
    let ast = parse_file(repo, rel)?;
    // ---- apply_dyngroup_change: the full path
    let adc = find_fn(&ast, "DynGroup::apply_dyngroup_change")?;
    let adc_s = squash(&adc.block);
    need(
        &adc_s,
        "apply_dyngroup_change",
        &[
            "letmutwork_set=qs.internal_search_writeable(&filt)?;",
            "f_eq(Attribute::Uuid,PartialValue::Uuid(e.get_uuid()))",
            "get_ava_single_protofilter(Attribute::DynGroupFilter)",
            "Filter::from_rw(ident_internal,&scope_f,qs)",
            "letentries=qs.internal_search(scope_i.clone())",
            "letmembers=ValueSetRefer::from_iter(entries.iter()",
            ".map(|e|e.get_uuid()),);",
            "nd_group.set_ava_set(&Attribute::DynMember,members);",
            "else{nd_group.purge_ava(Attribute::DynMember);}",
            "ifdyn_groups.insts.insert(uuid,scope_i).is_none()==expect{",
            "qs.internal_apply_writable(work_set)",
        ],
    )?;
    let mask = match (
        count(&adc_s, "entries.iter().filter(|e|e.mask_recycled_ts().is_some()).map(|e|e.get_uuid())"),
        count(&adc_s, "entries.iter().map(|e|e.get_uuid())"),
    ) {
        (1, 0) => true,
        (0, 1) => false,
        _ => return Err("apply_dyngroup_change: member collection is not `entries.iter()[.filter(mask_recycled_ts)].map(get_uuid)`".into()),
    };
    // ---- post_create
    let pc = find_fn(&ast, "DynGroup::post_create")?;
    let pc_s = squash(&pc.block);
    need(
        &pc_s,
        "post_create",
        &[
            "cand.iter().partition(|entry|{entry.attribute_equality(Attribute::Class,&EntryClass::DynGroup.into())})",
            "for(dg_uuid,dg_filter)indyn_groups.insts.iter()",
            ".and_then(|f|f.resolve(&ident_internal,None,qs.get_resolve_filter_cache()))?;",
            "if!matches.is_empty(){",
            "letfilt=filter!(f_eq(Attribute::Uuid,PartialValue::Uuid(*dg_uuid)));",
            "d_group.add_ava(Attribute::DynMember,Value::Refer(u))",
            "qs.internal_apply_writable(candidate_tuples)",
            "if!n_dyn_groups.is_empty(){",
        ],
    )?;
    // the incremental test, with or without the hidden-entry guard
    let mask_create = match (
        count(&pc_s, "ife.mask_recycled_ts().is_some()&&e.entry_match_no_index(&dg_filter_valid){Some(e.get_uuid())}else{None}"),
        count(&pc_s, "ife.entry_match_no_index(&dg_filter_valid){Some(e.get_uuid())}else{None}"),
    ) {
        (1, 0) => true,
        (0, 1) => false,
        _ => return Err("post_create: the incremental test is not `[e.mask_recycled_ts().is_some() &&] e.entry_match_no_index(&dg_filter_valid)`".into()),
    };
    let expect_create = expect_arg(&pc_s, "post_create")?;
    let inc_pos = pc_s.find("entry_match_no_index(").unwrap();
    let write_pos = pc_s.find("qs.internal_apply_writable(candidate_tuples)").unwrap();
    let full_pos = pc_s.find("Self::apply_dyngroup_change(").unwrap();
    let create_inc_first = if inc_pos < write_pos && write_pos < full_pos {
        true
    } else if full_pos < inc_pos && inc_pos < write_pos {
        false
    } else {
        return Err("post_create: incremental loop / write-back / apply_dyngroup_change are interleaved".into());
    };
    // ---- post_modify
    let pm = find_fn(&ast, "DynGroup::post_modify")?;
    let pm_s = squash(&pm.block);
    need(
        &pm_s,
        "post_modify",
        &[
            "pre_cand.iter().partition(|entry|{entry.attribute_equality(Attribute::Class,&EntryClass::DynGroup.into())})",
            "=cand.iter().partition(|entry|{entry.attribute_equality(Attribute::Class,&EntryClass::DynGroup.into())})",
            "for(dg_uuid,dg_filter)indyn_groups.insts.iter()",
            ".and_then(|f|f.resolve(&ident_internal,None,qs.get_resolve_filter_cache()))?;",
            "pre_entries.iter().zip(post_entries.iter())",
            "{Some(Ok(post.get_uuid()))}",
            "{Some(Err(post.get_uuid()))}else{None}",
            "Ok(u)=>d_group.add_ava(Attribute::DynMember,Value::Refer(u)),",
            "Err(u)=>d_group.remove_ava(Attribute::DynMember,&PartialValue::Refer(u)),",
            "letfilt=filter!(f_eq(Attribute::Uuid,PartialValue::Uuid(*dg_uuid)));",
            "qs.internal_apply_writable(candidate_tuples)",
            "if!n_dyn_groups.is_empty(){",
        ],
    )?;
    let side = |who: &str| -> Result<bool, String> {
        match (
            count(&pm_s, &format!("let{who}_t={who}.mask_recycled_ts().is_some()&&{who}.entry_match_no_index(&dg_filter_valid);")),
            count(&pm_s, &format!("let{who}_t={who}.entry_match_no_index(&dg_filter_valid);")),
        ) {
            (1, 0) => Ok(true),
            (0, 1) => Ok(false),
            _ => Err(format!("post_modify: `{who}_t` is not `[{who}.mask_recycled_ts().is_some() &&] {who}.entry_match_no_index(&dg_filter_valid)`")),
        }
    };
    let mask_pre = side("pre")?;
    let mask_post = side("post")?;
    let expect_modify = expect_arg(&pm_s, "post_modify")?;
    let full_pos = pm_s.find("Self::apply_dyngroup_change(").unwrap();
    let inc_pos = pm_s.find("entry_match_no_index(").unwrap();
    let write_pos = pm_s.find("qs.internal_apply_writable(candidate_tuples)").unwrap();
    let modify_full_first = if full_pos < inc_pos && inc_pos < write_pos {
        true
    } else if inc_pos < write_pos && write_pos < full_pos {
        false
    } else {
        return Err("post_modify: apply_dyngroup_change / incremental loop / write-back are interleaved".into());
    };
    // the add / remove tests: the two conditions that mention both pre_t and post_t
    let vs = vars(&[("post_t", "post"), ("pre_t", "pre"), ("force_cand_updates", "force")]);
    let conds: Vec<syn::Expr> = if_conditions(&pm.block)
        .into_iter()
        .filter(|c| {
            let s = squash(c);
            s.contains("pre_t") && s.contains("post_t")
        })
        .collect();
    if conds.len() != 2 {
        return Err(format!("post_modify: expected an add test and a remove test over pre_t/post_t, found {} conditions", conds.len()));
    }
    // the first one guards `Some(Ok(..))`, the second `Some(Err(..))` (checked above by the needles
    // `{Some(Ok(post.get_uuid()))}` and `{Some(Err(post.get_uuid()))}else{None}` and by their order)
    let ok_pos = pm_s.find("Some(Ok(post.get_uuid()))").unwrap();
    let err_pos = pm_s.find("Some(Err(post.get_uuid()))").unwrap();
    if ok_pos > err_pos {
        return Err("post_modify: the remove arm precedes the add arm".into());
    }
    let add = lean_expr(&conds[0], &vs)?;
    let rem = lean_expr(&conds[1], &vs)?;
    // ---- no other hook: reload only swaps the cache, verify is empty, memberof calls exactly two hooks
    let file_s = squash(&ast);
    if count(&file_s, "pubfnpost_delete(") + count(&file_s, "pubfnpre_delete(") != 0 {
        return Err("dyngroup.rs now has a delete hook: the model has none".into());
    }
    let mo = parse_file(repo, "server/lib/src/plugins/memberof.rs")?;
    let mo_s = squash(&mo);
    if count(&mo_s, "DynGroup::post_create(qs,cand,ident)?") != 1
        || count(&mo_s, "DynGroup::post_modify(qs,pre_cand,cand,ident,force_dyngroup_cand_update,)?") != 1
        || count(&mo_s, "DynGroup::") != 2
    {
        return Err("memberof.rs: the dyngroup hooks are no longer called exactly from post_create_inner and post_modify_inner".into());
    }
    let pmi = squash(&find_fn(&mo, "MemberOf::post_modify_inner")?.block);
    if !pmi.starts_with("{letdyngroup_change=super::dyngroup::DynGroup::post_modify(") {
        return Err("memberof post_modify_inner: dyngroup is no longer evaluated first".into());
    }
    let pci = squash(&find_fn(&mo, "MemberOf::post_create_inner")?.block);
    if !pci.starts_with("{letdyngroup_change=super::dyngroup::DynGroup::post_create(") {
        return Err("memberof post_create_inner: dyngroup is no longer evaluated first".into());
    }
    let b = |x: bool| if x { "true" } else { "false" };
    let body = format!(
        "namespace Kanidm.DynGroup\n\
/-- post_modify: `if {c0}` ⇒ `Some(Ok(uuid))` (the entry is added) -/\n\
def addTest (post pre force : Bool) : Bool := {add}\n\
/-- post_modify: `else if {c1}` ⇒ `Some(Err(uuid))` (the entry is removed) -/\n\
def remTest (post pre force : Bool) : Bool := {rem}\n\
/-- apply_dyngroup_change: the search answer is filtered by `mask_recycled_ts().is_some()` -/\n\
def fullMask : Bool := {mask}\n\
/-- the incremental tests are guarded by `mask_recycled_ts().is_some()`: post_create's `e`, post_modify's `pre` and `post` -/\n\
def maskCreate : Bool := {mc}\n\
def maskPre : Bool := {mpre}\n\
def maskPost : Bool := {mpost}\n\
/-- the `expect` argument of apply_dyngroup_change in post_create / post_modify -/\n\
def expectCreate : Bool := {ec}\n\
def expectModify : Bool := {em}\n\
/-- post_create: existing groups see the new entries first, then the new groups are populated -/\n\
def createIncFirst : Bool := {cif}\n\
/-- post_modify: changed groups are re-evaluated first, then the changed entries are tested -/\n\
def modifyFullFirst : Bool := {mff}\n\
end Kanidm.DynGroup\n",
        c0 = conds[0].to_token_stream(),
        c1 = conds[1].to_token_stream(),
        add = add,
        rem = rem,
        mask = b(mask),
        mc = b(mask_create),
        mpre = b(mask_pre),
        mpost = b(mask_post),
        ec = b(expect_create),
        em = b(expect_modify),
        cif = b(create_inc_first),
        mff = b(modify_full_first),
    );
    write_generated(out, "DynGroupOps", "server/lib/src/plugins/dyngroup.rs + server/lib/src/plugins/memberof.rs", &body)?;
    Ok(format!(
        "DynGroupOps: add `{add}`, remove `{rem}`, full mask {mask}, incremental masks {mask_create}/{mask_pre}/{mask_post}, expect {expect_create}/{expect_modify}, create inc-first {create_inc_first}, modify full-first {modify_full_first}"
    ))
}
