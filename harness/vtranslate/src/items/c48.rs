//! C48 translator item `migration-ops`: everything table-like or operator-like the Lean model of the
//! domain-level migration (`KanidmModel/Migration.lean`) is parameterised by, re-read from
//!   constants/mod.rs      the `DOMAIN_*` levels (the `#[cfg(not(test))]` definition where there are two)
//!   server/migrations.rs  `initialise_helper` (bootstrap table, upgrade / skip / downgrade comparisons, step
//!                         loop, taint re-migration, patch level), every `migrate_domain_*` (in-development
//!                         guard, ordered statement list), `internal_migrate_or_create(_ignore_attrs|_batch)`
//!                         (ignore list, create-once handling, error swallowing), `internal_delete_batch`
//!   server/mod.rs         `reload_domain_info_version` (early return, floor, the gate chain), `domain_remigrate`
//!   entry.rs              `gen_modlist_assert` (uuid skip, purge condition, present loop)
//! An unrecognised shape is an error, never a guess.
use crate::util::*;
use quote::ToTokens;
use std::collections::BTreeMap;

pub fn run(item: &str, repo: &str, out: &str) -> Option<Result<String, String>> {
    match item {
        "migration-ops" => Some(migration_ops(repo, out)),
        _ => None,
    }
}

fn squash<T: ToTokens>(t: &T) -> String {
    t.to_token_stream().to_string().chars().filter(|c| !c.is_whitespace()).collect()
}

fn count(hay: &str, needle: &str) -> usize {
    hay.matches(needle).count()
}

fn need(what: &str, hay: &str, needles: &[&str]) -> Result<(), String> {
    for n in needles {
        if count(hay, n) != 1 {
            return Err(format!("{what}: expected exactly one `{n}`, found {}", count(hay, n)));
        }
    }
    Ok(())
}

fn in_order(what: &str, hay: &str, needles: &[&str]) -> Result<(), String> {
    let mut last = 0usize;
    for n in needles {
        match hay[last..].find(n) {
            Some(p) => last += p + n.len(),
            None => return Err(format!("{what}: `{n}` missing or out of order")),
        }
    }
    Ok(())
}

/// All `const NAME: T = EXPR;` of the file that are not `#[cfg(test)]`, evaluated in file order.
fn constants(file: &syn::File) -> Result<BTreeMap<String, i128>, String> {
    let mut env: BTreeMap<String, i128> = BTreeMap::new();
    for it in &file.items {
        if let syn::Item::Const(c) = it {
            let name = c.ident.to_string();
            if !(name.starts_with("DOMAIN_") || name.starts_with("PATCH_LEVEL_")) {
                continue;
            }
            let cfgs: Vec<String> = c.attrs.iter().filter(|a| a.path().is_ident("cfg")).map(squash).collect();
            if cfgs.iter().any(|a| a == "#[cfg(test)]") {
                continue;
            }
            if cfgs.iter().any(|a| a != "#[cfg(not(test))]") {
                return Err(format!("const {name}: unexpected cfg attributes {cfgs:?}"));
            }
            let v = {
                let look = |n: &str| env.get(n).cloned();
                eval_int(&c.expr, &look).map_err(|e| format!("const {name}: {e}"))?
            };
            if env.insert(name.clone(), v).is_some() {
                return Err(format!("const {name}: defined twice for a non-test build"));
            }
        }
    }
    Ok(env)
}

/// variable map for `lean_expr`: every constant by its value, plus the given leaves
fn vars_with(env: &BTreeMap<String, i128>, leaves: &[(&str, &str)]) -> BTreeMap<String, String> {
    let mut m: BTreeMap<String, String> = env.iter().map(|(k, v)| (k.clone(), v.to_string())).collect();
    // named Lean constants read better than numbers where the model has them
    for (k, l) in [
        ("DOMAIN_TGT_LEVEL", "domainTgtLevel"),
        ("DOMAIN_MIGRATION_FROM_MIN", "domainMigrationFromMin"),
        ("DOMAIN_MIN_REMIGRATION_LEVEL", "domainMinRemigrationLevel"),
        ("DOMAIN_TGT_PATCH_LEVEL", "domainTgtPatchLevel"),
    ] {
        if m.contains_key(k) {
            m.insert(k.to_string(), l.to_string());
        }
    }
    for (k, v) in leaves {
        m.insert(k.to_string(), v.to_string());
    }
    m
}

/// top-level statements of a block that are `if` expressions: (condition, then-block, else)
fn top_ifs(block: &syn::Block) -> Vec<&syn::ExprIf> {
    let mut out = vec![];
    for s in &block.stmts {
        if let syn::Stmt::Expr(syn::Expr::If(i), _) = s {
            out.push(i);
        }
    }
    out
}

/// Flatten an `if … else if … else …` chain: conditions with their then-blocks, and the final else.
fn chain(i: &syn::ExprIf) -> (Vec<(&syn::Expr, &syn::Block)>, Option<&syn::Expr>) {
    let mut arms = vec![(&*i.cond, &i.then_branch)];
    let mut cur = i;
    loop {
        match &cur.else_branch {
            Some((_, e)) => match &**e {
                syn::Expr::If(n) => {
                    arms.push((&*n.cond, &n.then_branch));
                    cur = n;
                }
                other => return (arms, Some(other)),
            },
            None => return (arms, None),
        }
    }
}

/// the single method name `migrate_domain_*` called in a token string
fn migrate_call(s: &str) -> Option<String> {
    let p = s.find("migrate_domain_")?;
    let name: String = s[p..].chars().take_while(|c| c.is_alphanumeric() || *c == '_').collect();
    if count(s, "migrate_domain_") == 1 { Some(name) } else { None }
}

#[derive(Clone, Debug, PartialEq)]
enum Step {
    SchemaInMemory,
    Batch(u32),
    Reload,
    Reindex,
    DeleteDbSchema,
    Phase(u32),
    DeleteBatch,
    Fixup,
}

impl Step {
    fn lean(&self) -> String {
        match self {
            Step::SchemaInMemory => ".schemaInMemory".into(),
            Step::Batch(n) => format!(".batch {n}"),
            Step::Reload => ".reload".into(),
            Step::Reindex => ".reindex".into(),
            Step::DeleteDbSchema => ".deleteDbSchema".into(),
            Step::Phase(n) => format!(".phase {n}"),
            Step::DeleteBatch => ".deleteBatch".into(),
            Step::Fixup => ".fixup".into(),
        }
    }
}

struct Migration {
    name: String,
    /// Lean Bool expression of the in-development guard (non-test build)
    guard: String,
    steps: Vec<Step>,
    /// Some(true) = `f_and`, Some(false) = `f_or` of the db-schema delete filter, None = no such step
    schema_filter_and: Option<bool>,
}

fn migration(file: &syn::File, name: &str, env: &BTreeMap<String, i128>) -> Result<Migration, String> {
    let f = find_fn(file, &format!("QueryServerWriteTransaction::{name}"))?;
    let what = name;
    let mut stmts = f.block.stmts.iter();
    // ---- guard
    let first = stmts.next().ok_or(format!("{what}: empty body"))?;
    let guard = match first {
        syn::Stmt::Expr(syn::Expr::If(i), _) => {
            let c = squash(&i.cond);
            let rest = c.strip_prefix("!cfg!(test)&&").ok_or(format!("{what}: the first statement is not the `!cfg!(test) && ..` guard: `{c}`"))?;
            let then = squash(&i.then_branch);
            need(what, &then, &["returnErr(OperationError::MG0004DomainLevelInDevelopment);"])?;
            if i.else_branch.is_some() {
                return Err(format!("{what}: the guard has an else branch"));
            }
            // re-parse the right conjunct as an expression
            let e: syn::Expr = match &*i.cond {
                syn::Expr::Binary(b) if matches!(b.op, syn::BinOp::And(_)) => (*b.right).clone(),
                _ => return Err(format!("{what}: guard is not a conjunction: `{c}`")),
            };
            let _ = rest;
            lean_expr(&e, &vars_with(env, &[]))?
        }
        _ => return Err(format!("{what}: the first statement is not the in-development guard")),
    };
    // ---- statements
    let mut steps = vec![];
    let mut schema_filter_and = None;
    let mut pending_lets: Vec<String> = vec![];
    let mut ended = false;
    for s in stmts {
        if ended {
            return Err(format!("{what}: statements after the final `Ok(())`"));
        }
        match s {
            syn::Stmt::Item(syn::Item::Use(_)) => {}
            syn::Stmt::Local(l) => pending_lets.push(squash(l)),
            syn::Stmt::Expr(e, _) => {
                let t = squash(e);
                if t == "Ok(())" {
                    ended = true;
                } else if t.starts_with("self.internal_migrate_or_create_batch(") && t.ends_with(")?") {
                    let p = t.find("::phase_").ok_or(format!("{what}: batch without a `phase_N_..` source: `{t}`"))?;
                    let n: String = t[p + 8..].chars().take_while(|c| c.is_ascii_digit()).collect();
                    let n: u32 = n.parse().map_err(|_| format!("{what}: unreadable phase number in `{t}`"))?;
                    if count(&t, "::phase_") != 1 {
                        return Err(format!("{what}: several phases in one batch `{t}`"));
                    }
                    steps.push(Step::Batch(n));
                } else if t == "self.reload()?" {
                    steps.push(Step::Reload);
                } else if t == "self.reindex(false)?" {
                    steps.push(Step::Reindex);
                } else if t == "self.set_phase(ServerPhase::SchemaReady)" {
                    steps.push(Step::Phase(1));
                } else if t == "self.set_phase(ServerPhase::DomainInfoReady)" {
                    steps.push(Step::Phase(2));
                } else if t.starts_with("self.internal_delete_batch(") && t.ends_with(")?") && count(&t, "::phase_8_delete_uuids()") == 1 {
                    steps.push(Step::DeleteBatch);
                } else if t.starts_with("self.migrate_schema_") && t.ends_with("()?") {
                    steps.push(Step::SchemaInMemory);
                } else if t == "self.internal_delete_if_exists(&filter)?" {
                    let l = pending_lets.pop().ok_or(format!("{what}: internal_delete_if_exists without its `let filter`"))?;
                    let and = "letfilter=filter!(f_and(vec![f_eq(Attribute::Class,EntryClass::ClassType.into()),f_eq(Attribute::Class,EntryClass::AttributeType.into()),]));";
                    let or = "letfilter=filter!(f_or(vec![f_eq(Attribute::Class,EntryClass::ClassType.into()),f_eq(Attribute::Class,EntryClass::AttributeType.into()),]));";
                    schema_filter_and = Some(if l == and {
                        true
                    } else if l == or {
                        false
                    } else {
                        return Err(format!("{what}: unrecognised db-schema delete filter `{l}`"));
                    });
                    steps.push(Step::DeleteDbSchema);
                } else if t == "self.internal_modify(&filter,&modlist)?" {
                    if pending_lets.len() < 2 {
                        return Err(format!("{what}: internal_modify without its `let filter` / `let modlist`"));
                    }
                    pending_lets.clear();
                    steps.push(Step::Fixup);
                } else {
                    return Err(format!("{what}: unrecognised statement `{t}`"));
                }
            }
            other => return Err(format!("{what}: unrecognised statement `{}`", squash(other))),
        }
    }
    if !ended {
        return Err(format!("{what}: does not end with `Ok(())`"));
    }
    if !pending_lets.is_empty() {
        return Err(format!("{what}: unused `let` statements {pending_lets:?}"));
    }
    Ok(Migration { name: name.to_string(), guard, steps, schema_filter_and })
}

fn lean_bool(b: bool) -> &'static str {
    if b { "true" } else { "false" }
}

fn migration_ops(repo: &str, out: &str) -> Result<String, String> {
    // ---- constants
    let cfile = parse_file(repo, "server/lib/src/constants/mod.rs")?;
    let env = constants(&cfile)?;
    let c = |n: &str| env.get(n).cloned().ok_or(format!("constant {n} not found"));
    let mut levels: Vec<(String, i128)> = env.iter().filter(|(k, _)| k.starts_with("DOMAIN_LEVEL_")).map(|(k, v)| (k.clone(), *v)).collect();
    levels.sort_by_key(|(_, v)| *v);

    // ---- initialise_helper
    let mfile = parse_file(repo, "server/lib/src/server/migrations.rs")?;
    let init = find_fn(&mfile, "QueryServer::initialise_helper")?;
    let init_s = squash(&init.block);
    // bootstrap: `if db_domain_version == DOMAIN_LEVEL_0 { match domain_target_level { .. } write_txn.internal_apply_domain_migration(domain_target_level) .. }`
    need("initialise_helper", &init_s, &["ifdb_domain_version==DOMAIN_LEVEL_0{", "matchdomain_target_level{", "returnErr(OperationError::MG0009InvalidTargetLevelForBootstrap);"])?;
    let mut boot: Vec<(i128, String)> = vec![];
    {
        struct V<'a>(Option<&'a syn::ExprMatch>);
        impl<'a, 'ast: 'a> syn::visit::Visit<'ast> for V<'a> {
            fn visit_expr_match(&mut self, m: &'ast syn::ExprMatch) {
                if squash(&m.expr) == "domain_target_level" && self.0.is_none() {
                    self.0 = Some(m);
                }
                syn::visit::visit_expr_match(self, m);
            }
        }
        let mut v = V(None);
        syn::visit::Visit::visit_block(&mut v, &init.block);
        let m = v.0.ok_or("initialise_helper: `match domain_target_level` not found")?;
        let mut wild = false;
        for arm in &m.arms {
            let p = squash(&arm.pat);
            if p == "_" {
                wild = true;
                need("initialise_helper bootstrap `_` arm", &squash(&arm.body), &["MG0009InvalidTargetLevelForBootstrap"])?;
                continue;
            }
            let lv = c(&p).map_err(|e| format!("initialise_helper bootstrap arm `{p}`: {e}"))?;
            let body = squash(&arm.body);
            let f = migrate_call(&body).ok_or(format!("initialise_helper bootstrap arm `{p}`: no single migrate_domain_* call in `{body}`"))?;
            if body != format!("write_txn.{f}()?") {
                return Err(format!("initialise_helper bootstrap arm `{p}`: unrecognised body `{body}`"));
            }
            boot.push((lv, f));
        }
        if !wild {
            return Err("initialise_helper: the bootstrap match has no `_` arm".into());
        }
    }
    in_order("initialise_helper", &init_s, &["matchdomain_target_level{", "write_txn.internal_apply_domain_migration(domain_target_level)", "write_txn.force_domain_reload();", "write_txn.reload()?;", "letdomain_info_version=write_txn.get_domain_version();", "ifdomain_info_version", "ifreload_required{write_txn.reload()?;}", "write_txn.commit()?;"])?;
    // the upgrade / downgrade / taint chain
    let leaves = [("domain_info_version", "dbv"), ("domain_target_level", "tgt"), ("domain_patch_level", "p")];
    let vars = vars_with(&env, &leaves);
    let mut needs_upgrade = None;
    let mut skip_refused = None;
    let mut is_downgrade = None;
    let mut remigrate_from = None;
    let mut patch_needed = None;
    for i in top_ifs(&init.block) {
        let cs = squash(&i.cond);
        if cs.starts_with("domain_info_version") && cs.ends_with("domain_target_level") {
            let (arms, els) = chain(i);
            if arms.len() != 3 || els.is_some() {
                return Err(format!("initialise_helper: the level comparison chain has {} arms (expected upgrade / downgrade / taint, no else)", arms.len()));
            }
            // arm 1: upgrade
            needs_upgrade = Some(lean_expr(arms[0].0, &vars)?);
            let body = squash(arms[0].1);
            let inner = top_ifs(arms[0].1);
            if inner.len() != 1 {
                return Err("initialise_helper: the upgrade arm does not start with the single skip test".into());
            }
            skip_refused = Some(lean_expr(&inner[0].cond, &vars)?);
            need("initialise_helper skip test", &squash(&inner[0].then_branch), &["returnErr(OperationError::MG0008SkipUpgradeAttempted);"])?;
            need(
                "initialise_helper upgrade arm",
                &body,
                &[
                    "fordomain_target_level_stepindomain_info_version..domain_target_level{",
                    "letdomain_target_level_step=domain_target_level_step+1;",
                    "write_txn.internal_apply_domain_migration(domain_target_level_step)",
                ],
            )?;
            // arm 2: downgrade
            is_downgrade = Some(lean_expr(arms[1].0, &vars)?);
            need("initialise_helper downgrade arm", &squash(arms[1].1), &["returnErr(OperationError::MG0010DowngradeNotAllowed);"])?;
            // arm 3: taint
            if squash(arms[2].0) != "domain_development_taint" {
                return Err(format!("initialise_helper: third arm is `{}`, expected `domain_development_taint`", squash(arms[2].0)));
            }
            let t = squash(arms[2].1);
            let pre = "{write_txn.domain_remigrate(";
            if !t.starts_with(pre) || !t.ends_with(")?;reload_required=true;}") {
                return Err(format!("initialise_helper: unrecognised taint arm `{t}`"));
            }
            let arg = &t[pre.len()..t.len() - ")?;reload_required=true;}".len()];
            remigrate_from = Some(c(arg).map_err(|e| format!("initialise_helper domain_remigrate argument: {e}"))?);
        } else if cs.starts_with("domain_patch_level") {
            patch_needed = Some(lean_expr(&i.cond, &vars)?);
            need("initialise_helper patch arm", &squash(&i.then_branch), &["ModifyList::new_purge_and_set(Attribute::PatchLevel,Value::new_uint32(DOMAIN_TGT_PATCH_LEVEL),)", "reload_required=true;"])?;
        }
    }
    let needs_upgrade = needs_upgrade.ok_or("initialise_helper: the `domain_info_version .. domain_target_level` chain was not found")?;
    let skip_refused = skip_refused.ok_or("initialise_helper: skip test not found")?;
    let is_downgrade = is_downgrade.ok_or("initialise_helper: downgrade test not found")?;
    let remigrate_from = remigrate_from.ok_or("initialise_helper: taint arm not found")?;
    let patch_needed = patch_needed.ok_or("initialise_helper: patch level test not found")?;

    // ---- internal_apply_domain_migration
    let apply = squash(&find_fn(&mfile, "QueryServerWriteTransaction::internal_apply_domain_migration")?.block);
    if apply != "{self.internal_modify_uuid(UUID_DOMAIN_INFO,&ModifyList::new_purge_and_set(Attribute::Version,Value::new_uint32(to_level)),).and_then(|()|self.reload())}" {
        return Err(format!("internal_apply_domain_migration: unrecognised body `{apply}`"));
    }

    // ---- reload_domain_info_version
    let sfile = parse_file(repo, "server/lib/src/server/mod.rs")?;
    let rl = find_fn(&sfile, "QueryServerWriteTransaction::reload_domain_info_version")?;
    let rl_s = squash(&rl.block);
    need(
        "reload_domain_info_version",
        &rl_s,
        &[
            "letprevious_version=mut_d_info.d_vers;",
            "letprevious_patch_level=mut_d_info.d_patch_level;",
            "mut_d_info.d_vers=domain_info_version;",
            "mut_d_info.d_patch_level=domain_info_patch_level;",
        ],
    )?;
    let rvars = vars_with(&env, &[("previous_version", "prev"), ("domain_info_version", "new"), ("previous_patch_level", "prevPatch"), ("domain_info_patch_level", "newPatch")]);
    let mut reload_skips = None;
    let mut fresh = None;
    let mut floor = None;
    let mut gates: Vec<(String, String)> = vec![];
    for i in top_ifs(&rl.block) {
        let cs = squash(&i.cond);
        let then = squash(&i.then_branch);
        if i.else_branch.is_some() {
            return Err(format!("reload_domain_info_version: `if {cs}` has an else branch"));
        }
        if cs.contains("self.phase") {
            // (a == b && c == d) || *self.phase < ServerPhase::DomainInfoReady
            match &*i.cond {
                syn::Expr::Binary(b) if matches!(b.op, syn::BinOp::Or(_)) && squash(&b.right) == "*self.phase<ServerPhase::DomainInfoReady" => {
                    reload_skips = Some(format!("({} || phaseBelowDomainInfoReady)", lean_expr(&b.left, &rvars)?));
                }
                _ => return Err(format!("reload_domain_info_version: unrecognised early-return test `{cs}`")),
            }
            if then != "{returnOk(());}" {
                return Err(format!("reload_domain_info_version: early return body `{then}`"));
            }
        } else if then.contains("migrate_domain_") {
            let f = migrate_call(&then).ok_or(format!("reload_domain_info_version: gate `{cs}` does not call a single migration"))?;
            if then != format!("{{self.{f}()?;}}") {
                return Err(format!("reload_domain_info_version: unrecognised gate body `{then}`"));
            }
            gates.push((lean_expr(&i.cond, &rvars)?, f));
        } else if then.contains("MG0001InvalidReMigrationLevel") {
            floor = Some(lean_expr(&i.cond, &rvars)?);
            need("reload_domain_info_version floor", &then, &["returnErr(OperationError::MG0001InvalidReMigrationLevel);"])?;
        } else if cs.starts_with("previous_version") && then.ends_with("returnOk(());}") {
            fresh = Some(lean_expr(&i.cond, &rvars)?);
        } else {
            return Err(format!("reload_domain_info_version: unrecognised top-level test `{cs}`"));
        }
    }
    let reload_skips = reload_skips.ok_or("reload_domain_info_version: early return not found")?;
    let fresh = fresh.ok_or("reload_domain_info_version: `previous_version == DOMAIN_LEVEL_0` test not found")?;
    let floor = floor.ok_or("reload_domain_info_version: re-migration floor not found")?;
    in_order("reload_domain_info_version", &rl_s, &["mut_d_info.d_vers=domain_info_version;", "self.phase<ServerPhase::DomainInfoReady", "previous_version==DOMAIN_LEVEL_0", "MG0001InvalidReMigrationLevel", "migrate_domain_"])?;
    // the gates' upper bound gives the level each migration leads to
    let mut names: Vec<String> = boot.iter().map(|(_, f)| f.clone()).collect();
    for (_, f) in &gates {
        if !names.contains(f) {
            names.push(f.clone());
        }
    }
    // ---- domain_remigrate
    let rm = find_fn(&sfile, "QueryServerWriteTransaction::domain_remigrate")?;
    let rm_s = squash(&rm.block);
    need("domain_remigrate", &rm_s, &["mut_d_info.d_vers=level;self.changed_flags.insert(ChangeFlag::DOMAIN);Ok(())"])?;
    let rm_ifs = top_ifs(&rm.block);
    if rm_ifs.len() != 1 || squash(&rm_ifs[0].then_branch) != "{returnOk(());}" {
        return Err("domain_remigrate: expected the single no-op test".into());
    }
    let remigrate_noop = lean_expr(&rm_ifs[0].cond, &vars_with(&env, &[("level", "level"), ("mut_d_info.d_vers", "memv")]))?;

    // ---- the migrations
    let mut migs = vec![];
    for n in &names {
        migs.push(migration(&mfile, n, &env)?);
    }
    let tgt = c("DOMAIN_TGT_LEVEL")?;
    let tgt_fn = boot.iter().find(|(l, _)| *l == tgt).map(|(_, f)| f.clone()).ok_or("no bootstrap arm for DOMAIN_TGT_LEVEL")?;
    let tgt_mig = migs.iter().find(|m| m.name == tgt_fn).ok_or("target migration not translated")?;
    let filter_and = tgt_mig.schema_filter_and;

    // ---- the upsert
    let moc = squash(&find_fn(&mfile, "QueryServerWriteTransaction::internal_migrate_or_create")?.block);
    let pre = "{self.internal_migrate_or_create_ignore_attrs(e,&[";
    if !moc.starts_with(pre) || !moc.ends_with("],)}") {
        return Err(format!("internal_migrate_or_create: unrecognised body `{moc}`"));
    }
    let mut ignore: Vec<String> = vec![];
    for a in moc[pre.len()..moc.len() - "],)}".len()].split(',') {
        if a.is_empty() {
            continue;
        }
        let n = a.strip_prefix("Attribute::").ok_or(format!("internal_migrate_or_create: ignore list item `{a}`"))?;
        ignore.push(n.to_string());
    }
    let ia = squash(&find_fn(&mfile, "QueryServerWriteTransaction::internal_migrate_or_create_ignore_attrs")?.block);
    in_order(
        "internal_migrate_or_create_ignore_attrs",
        &ia,
        &[
            "letSome(filt)=e.filter_from_attrs(&[Attribute::Uuid])else{returnErr(OperationError::FilterGeneration);};",
            "letresults=self.internal_search(filt.clone())?;",
            "ifresults.is_empty(){",
            "ifletSome(members_create_once)=e.pop_ava(Attribute::MemberCreateOnce){ifletSome(members)=e.get_ava_mut(Attribute::Member){members.merge(&members_create_once)",
            "}else{e.set_ava_set(&Attribute::Member,members_create_once);}};self.internal_create(vec![e])}",
            "elseifresults.len()==1{e.remove_ava(&Attribute::MemberCreateOnce);forattrinattrs.iter(){e.remove_ava(attr);}matche.gen_modlist_assert(&self.schema){Ok(modlist)=>{",
            "self.internal_modify(&filt,&modlist)}Err(e)=>Err(OperationError::SchemaViolation(e)),}}else{",
            "Err(OperationError::InvalidDbState)}}",
        ],
    )?;
    let bt = squash(&find_fn(&mfile, "QueryServerWriteTransaction::internal_migrate_or_create_batch")?.block);
    in_order("internal_migrate_or_create_batch", &bt, &["letr:Result<(),_>=entries.into_iter().try_for_each(|entry|self.internal_migrate_or_create(entry));", "ifletErr(err)=r{", "}Ok(())}"])?;
    if count(&bt, "r?") != 0 || count(&bt, "returnErr") != 0 {
        return Err("internal_migrate_or_create_batch: the error is returned now (the model swallows it)".into());
    }
    let db = squash(&find_fn(&mfile, "QueryServerWriteTransaction::internal_delete_batch")?.block);
    in_order(
        "internal_delete_batch",
        &db,
        &[".map(|uuid|f_eq(Attribute::Uuid,PartialValue::Uuid(uuid)))", "letfilter=filter!(f_or(filter));", "letresult=self.internal_delete(&filter);", "Ok(_)|Err(OperationError::NoMatchingEntries)=>Ok(()),"],
    )?;

    // ---- gen_modlist_assert
    let efile = parse_file(repo, "server/lib/src/entry.rs")?;
    let gm = find_fn(&efile, "gen_modlist_assert")?;
    let gm_s = squash(&gm.block);
    in_order(
        "gen_modlist_assert",
        &gm_s,
        &["for(k,vs)inself.attrs.iter(){", "letr=schema.is_multivalue(k)?;", "mods.push_mod(Modify::Purged(k.clone()));}", "forvinvs.to_value_iter(){mods.push_mod(Modify::Present(k.clone(),v.clone()));}}Ok(mods)}"],
    )?;
    let skip_uuid = match count(&gm_s, "if*k==Attribute::Uuid{continue;}letr=schema.is_multivalue(k)?;") + count(&gm_s, "if*k==Attribute::Uuid{continue;}{letr=schema.is_multivalue(k)?;") {
        1 => true,
        0 if count(&gm_s, "Attribute::Uuid") == 0 => false,
        _ => return Err("gen_modlist_assert: the uuid skip is not directly before the multi-value lookup".into()),
    };
    let mut purge_cond = None;
    for cnd in if_conditions(&gm.block) {
        let s = squash(&cnd);
        if s.contains("r") && (s.starts_with("!r") || s.starts_with("r")) && !s.starts_with("*k==Attribute::Uuid") {
            if purge_cond.is_some() {
                return Err("gen_modlist_assert: more than one purge condition".into());
            }
            purge_cond = Some(s);
        }
    }
    let purge_cond = purge_cond.ok_or("gen_modlist_assert: purge condition not found")?;
    let mut parts = purge_cond.split("||");
    let head = parts.next().unwrap_or("");
    let purge_when = match head {
        "!r" => "((!multi) || forced)",
        "r" => "(multi || forced)",
        other => return Err(format!("gen_modlist_assert: the purge condition starts with `{other}`")),
    };
    let mut forced: Vec<String> = vec![];
    for p in parts {
        let n = p.strip_prefix("*k==Attribute::").ok_or(format!("gen_modlist_assert: purge disjunct `{p}`"))?;
        if !n.chars().all(|c| c.is_alphanumeric()) {
            return Err(format!("gen_modlist_assert: purge disjunct `{p}`"));
        }
        forced.push(n.to_string());
    }

    // ---- render
    let mut b = String::from("namespace Kanidm.Gen.Migration\n");
    b += "/-- constants/mod.rs: `DOMAIN_LEVEL_*` (name, value) -/\n";
    b += &format!("def domainLevels : List (String × Nat) := [{}]\n", levels.iter().map(|(k, v)| format!("(\"{k}\", {v})")).collect::<Vec<_>>().join(", "));
    b += "/-- constants/mod.rs (the `#[cfg(not(test))]` definitions where there are two) -/\n";
    for (k, l) in [
        ("DOMAIN_TGT_LEVEL", "domainTgtLevel"),
        ("DOMAIN_MAX_LEVEL", "domainMaxLevel"),
        ("DOMAIN_MIN_CREATION_LEVEL", "domainMinCreationLevel"),
        ("DOMAIN_PREVIOUS_TGT_LEVEL", "domainPreviousTgtLevel"),
        ("DOMAIN_TGT_NEXT_LEVEL", "domainTgtNextLevel"),
        ("DOMAIN_MIGRATION_FROM_MIN", "domainMigrationFromMin"),
        ("DOMAIN_MIN_REMIGRATION_LEVEL", "domainMinRemigrationLevel"),
        ("DOMAIN_TGT_PATCH_LEVEL", "domainTgtPatchLevel"),
    ] {
        b += &format!("def {l} : Nat := {}\n", c(k)?);
    }
    b += &format!("/-- migrations.rs `initialise_helper`: the upgrade test of the level chain -/\ndef needsUpgrade (dbv tgt : Nat) : Bool := {needs_upgrade}\n");
    b += &format!("/-- the skip test inside the upgrade arm, `return Err(MG0008SkipUpgradeAttempted)` -/\ndef skipRefused (dbv : Nat) : Bool := {skip_refused}\n");
    b += &format!("/-- the `else if` of the level chain, `return Err(MG0010DowngradeNotAllowed)` -/\ndef isDowngrade (dbv tgt : Nat) : Bool := {is_downgrade}\n");
    b += "/-- `for domain_target_level_step in domain_info_version..domain_target_level { let .. = .. + 1; internal_apply_domain_migration(..)? }` -/\ndef stepOffset : Nat := 1\n";
    b += &format!("/-- `else if domain_development_taint {{ write_txn.domain_remigrate(..)? }}`: the argument -/\ndef remigrateFrom : Nat := {remigrate_from}\n");
    b += &format!("/-- the patch level test -/\ndef patchNeeded (p : Nat) : Bool := {patch_needed}\n");
    b += &format!("/-- server/mod.rs `domain_remigrate`: the no-op test -/\ndef remigrateIsNoop (level memv : Nat) : Bool := {remigrate_noop}\n");
    b += "/-- the `match domain_target_level` of the bootstrap arm: (level, index into `migrationNames`) -/\n";
    b += &format!(
        "def bootstrapTable : List (Nat × Nat) := [{}]\n",
        boot.iter().map(|(l, f)| format!("({l}, {})", names.iter().position(|n| n == f).unwrap_or(0))).collect::<Vec<_>>().join(", ")
    );
    b += &format!("def migrationNames : List String := [{}]\n", names.iter().map(|n| format!("\"{n}\"")).collect::<Vec<_>>().join(", "));
    b += "/-- each migration's `if !cfg!(test) && <this> { return Err(MG0004DomainLevelInDevelopment) }` (non-test build) -/\ndef inDevelopment : Nat → Bool\n";
    for (i, m) in migs.iter().enumerate() {
        b += &format!("  | {i} => {}\n", m.guard);
    }
    b += "  | _ => true\n";
    b += &format!("/-- server/mod.rs `reload_domain_info_version`: the early return -/\ndef reloadSkips (prev new prevPatch newPatch : Nat) (phaseBelowDomainInfoReady : Bool) : Bool :=\n  {reload_skips}\n");
    b += &format!("/-- the fresh bring-up test, `return Ok(())` -/\ndef freshBringUp (prev : Nat) : Bool := {fresh}\n");
    b += &format!("/-- the re-migration floor, `return Err(MG0001InvalidReMigrationLevel)` -/\ndef remigrationRefused (prev : Nat) : Bool := {floor}\n");
    b += "/-- the `if <gate> { self.migrate_..()? }` chain, in source order -/\ndef gates : List ((Nat → Nat → Bool) × Nat) := [\n";
    b += &gates.iter().map(|(g, f)| format!("  (fun prev new => {g}, {})", names.iter().position(|n| n == f).unwrap_or(0))).collect::<Vec<_>>().join(",\n");
    b += "]\n";
    b += "/-- the level each migration function brings the data to (its arm of the bootstrap match) -/\n";
    b += &format!(
        "def migrationLevel : List (Nat × Nat) := [{}]\n",
        boot.iter().map(|(l, f)| format!("({}, {l})", names.iter().position(|n| n == f).unwrap_or(0))).collect::<Vec<_>>().join(", ")
    );
    b += "/-- One statement of a `migrate_domain_*` body. -/\ninductive Step where\n  /-- `self.migrate_schema_X()?` (extend the in-memory schema) -/\n  | schemaInMemory\n  /-- `self.internal_migrate_or_create_batch(.., phase_N(..))?` -/\n  | batch (phase : Nat)\n  | reload\n  | reindex\n  /-- `self.internal_delete_if_exists(&filter)?` of the database-held schema entries -/\n  | deleteDbSchema\n  /-- `self.set_phase(ServerPhase::X)`: 1 SchemaReady, 2 DomainInfoReady -/\n  | phase (p : Nat)\n  /-- `self.internal_delete_batch(.., phase_8_delete_uuids())?` -/\n  | deleteBatch\n  /-- `self.internal_modify(&filter, &modlist)?` of a hand-written filter (data fix-up) -/\n  | fixup\nderiving DecidableEq, Repr\n";
    b += "/-- the statements of each migration function, in source order -/\ndef migrationSteps : List (Nat × List Step) := [\n";
    b += &migs.iter().enumerate().map(|(i, m)| format!("  ({i}, [{}])", m.steps.iter().map(|s| s.lean()).collect::<Vec<_>>().join(", "))).collect::<Vec<_>>().join(",\n");
    b += "]\n";
    b += &format!(
        "/-- the target migration's `filter!(f_and(vec![f_eq(Class, ClassType), f_eq(Class, AttributeType)]))`: both classes at once (true) or either (false); true when it has no such step -/\ndef dbSchemaFilterIsAnd : Bool := {}\n",
        lean_bool(filter_and.unwrap_or(true))
    );
    // attribute atoms
    let mut table: Vec<(String, u32)> = vec![("Uuid".into(), 0), ("MemberCreateOnce".into(), 1), ("Member".into(), 2), ("Class".into(), 3)];
    let mut ignore_ids = vec![];
    for (i, a) in ignore.iter().enumerate() {
        if table.iter().any(|(n, _)| n == a) || forced.contains(a) {
            return Err(format!("attribute {a} is both special and on the ignore list: the model keeps them apart"));
        }
        table.push((a.clone(), 10 + i as u32));
        ignore_ids.push(10 + i as u32);
    }
    if ignore.len() > 9 {
        return Err("more than 9 ignored attributes".into());
    }
    let mut forced_ids = vec![];
    for (i, a) in forced.iter().enumerate() {
        let id = match table.iter().find(|(n, _)| n == a) {
            Some((_, id)) => *id,
            None => {
                table.push((a.clone(), 20 + i as u32));
                20 + i as u32
            }
        };
        forced_ids.push(id);
    }
    if forced.len() > 70 {
        return Err("more than 70 force-purged attributes".into());
    }
    b += "/-- attribute atoms the upsert treats specially (`Attribute` variant name, id); every other attribute is ≥ 100 -/\n";
    b += &format!("def attrTable : List (String × Nat) := [{}]\n", table.iter().map(|(n, i)| format!("(\"{n}\", {i})")).collect::<Vec<_>>().join(", "));
    b += "def attrUuid : Nat := 0\ndef attrMemberCreateOnce : Nat := 1\ndef attrMember : Nat := 2\ndef attrClass : Nat := 3\n";
    b += &format!("/-- migrations.rs `internal_migrate_or_create`: the ignore list handed to `internal_migrate_or_create_ignore_attrs` -/\ndef ignoreAttrs : List Nat := [{}]\n", ignore_ids.iter().map(|i| i.to_string()).collect::<Vec<_>>().join(", "));
    b += &format!("/-- entry.rs `gen_modlist_assert`: `if *k == Attribute::Uuid {{ continue; }}` -/\ndef skipUuid : Bool := {}\n", lean_bool(skip_uuid));
    b += &format!("/-- entry.rs `gen_modlist_assert`: the attributes that are purged although multi-valued (`|| *k == Attribute::X`) -/\ndef forcePurgeAttrs : List Nat := [{}]\n", forced_ids.iter().map(|i| i.to_string()).collect::<Vec<_>>().join(", "));
    b += &format!("/-- entry.rs `gen_modlist_assert`: `if {} || <forced>` with `r = schema.is_multivalue(k)?` -/\ndef purgeWhen (multi forced : Bool) : Bool := {purge_when}\n", head);
    b += "/-- migrations.rs `internal_migrate_or_create_batch`: the first error ends the batch, is logged and NOT returned -/\ndef batchSwallowsErrors : Bool := true\n";
    b += "end Kanidm.Gen.Migration\n";
    write_generated(
        out,
        "MigrationOps",
        "server/lib/src/constants/mod.rs + server/lib/src/server/migrations.rs + server/lib/src/server/mod.rs + server/lib/src/entry.rs",
        &b,
    )?;
    Ok(format!(
        "MigrationOps: target level {tgt} via {tgt_fn} ({} steps), {} gates, ignore {ignore:?}, force-purge {} attrs",
        tgt_mig.steps.len(),
        gates.len(),
        forced.len()
    ))
}
