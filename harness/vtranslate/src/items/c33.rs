//! C33 translator item `authtypes` (DESIGN §4.1 `Gen.AuthTypes`): every table and comparison
//! that decides whether a token confers write access, re-read from the source on every run:
//!  * `AuthSession::issue_uat` — `AuthType × privileged → SessionScope` (initial login), which auth
//!    types queue an `AuthSessionRecord`, `AuthType → SessionScope | reject` (re-authentication),
//!    and the argument order of the two `to_*userauthtoken` calls;
//!  * `Account::to_userauthtoken` — second truncation of `ct`, the two expiry sums, the
//!    `SessionScope → (UatPurpose, expiry)` match incl. `min(expiry, limited_expiry)`;
//!  * `Account::to_reissue_userauthtoken` — the guarded match, the privilege-expiry sum, and that
//!    the token expiry is the *session's* expiry;
//!  * `Account::client_cert_info_to_userauthtoken`, `client_certificate_to_user_auth_token`;
//!  * `IdmServerTransaction::process_uat_to_identity` — `UatPurpose → AccessScope` incl. the
//!    `cot < expiry` comparison; `validate_and_parse_token_to_identity_token` — `exp < ct_odt`;
//!  * `client_certificate_to_identity`, `process_ldap_uuid_to_identity` — the constant scope;
//!  * `From<&ApiTokenPurpose> for AccessScope`, `TryInto<ApiTokenPurpose> for ApiTokenScope`,
//!    `service_account_generate_api_token` (`read_write` flag → stored scope);
//!  * `reauth_init` (which stored session scopes may re-authenticate), `AuthSession::new_reauth`
//!    (`SessionState → session_expiry`, `ReauthRequest → read_write`);
//!  * `Account::check_user_auth_token_valid` — the grace comparison;
//!  * constants `DEFAULT_AUTH_SESSION_LIMITED_EXPIRY`, `MAXIMUM_AUTH_PRIVILEGE_EXPIRY`,
//!    `AUTH_TOKEN_GRACE_WINDOW`.
//! Anything of an unexpected shape is an `Err` — never a guess.
use crate::util::*;
use quote::ToTokens;
use std::collections::BTreeMap;
use syn::visit::Visit;

pub fn run(item: &str, repo: &str, out: &str) -> Option<Result<String, String>> {
    match item {
        "authtypes" => Some(authtypes(repo, out)),
        _ => None,
    }
}

const AUTH_TYPES: [&str; 9] = [
    "Anonymous", "Password", "GeneratedPassword", "PasswordTotp", "PasswordBackupCode",
    "PasswordSecurityKey", "Passkey", "AttestedPasskey", "OAuth2Trust",
];
const SESSION_SCOPES: [&str; 4] = ["ReadOnly", "ReadWrite", "PrivilegeCapable", "Synchronise"];
const ACCESS_SCOPES: [&str; 3] = ["ReadOnly", "ReadWrite", "Synchronise"];
const API_SCOPES: [&str; 3] = ["ReadOnly", "ReadWrite", "Synchronise"];

fn lc(v: &str) -> String {
    let mut c = v.chars();
    match c.next() {
        Some(f) => format!(".{}{}", f.to_lowercase(), c.as_str()),
        None => String::new(),
    }
}

fn known(v: &str, set: &[&str], what: &str) -> Result<String, String> {
    if set.contains(&v) {
        Ok(lc(v))
    } else {
        Err(format!("unknown {what} variant `{v}` (the Lean enumeration must be extended)"))
    }
}

fn toks<T: ToTokens>(t: &T) -> String {
    t.to_token_stream().to_string()
}

fn nospace<T: ToTokens>(t: &T) -> String {
    toks(t).replace(' ', "")
}

fn variant_of_path(p: &syn::Path, enum_name: &str) -> Option<String> {
    let segs: Vec<String> = p.segments.iter().map(|s| s.ident.to_string()).collect();
    if segs.len() >= 2 && segs[segs.len() - 2] == enum_name {
        Some(segs[segs.len() - 1].clone())
    } else {
        None
    }
}

fn variant_of_pat(p: &syn::Pat, enum_name: &str) -> Option<String> {
    match p {
        syn::Pat::Struct(s) => variant_of_path(&s.path, enum_name),
        syn::Pat::TupleStruct(s) => variant_of_path(&s.path, enum_name),
        syn::Pat::Path(s) => variant_of_path(&s.path, enum_name),
        syn::Pat::Reference(r) => variant_of_pat(&r.pat, enum_name),
        syn::Pat::Paren(r) => variant_of_pat(&r.pat, enum_name),
        _ => None,
    }
}

fn variant_of_expr(e: &syn::Expr, enum_name: &str) -> Option<String> {
    match e {
        syn::Expr::Path(p) => variant_of_path(&p.path, enum_name),
        syn::Expr::Paren(p) => variant_of_expr(&p.expr, enum_name),
        syn::Expr::Block(b) if b.block.stmts.len() == 1 => match &b.block.stmts[0] {
            syn::Stmt::Expr(e, None) => variant_of_expr(e, enum_name),
            _ => None,
        },
        _ => None,
    }
}

/// The variants an arm pattern names (`A | B | C`), all of `enum_name`; no wildcard, no binding.
fn arm_variants(p: &syn::Pat, enum_name: &str, ctx: &str) -> Result<Vec<String>, String> {
    let cases: Vec<&syn::Pat> = match p {
        syn::Pat::Or(o) => o.cases.iter().collect(),
        p => vec![p],
    };
    let mut out = vec![];
    for c in cases {
        out.push(
            variant_of_pat(c, enum_name)
                .ok_or_else(|| format!("{ctx}: pattern `{}` is not a plain {enum_name} variant", toks(c)))?,
        );
    }
    Ok(out)
}

/// Every variant of `all` is named by exactly one row.
fn exhaustive<T>(rows: &[(String, T)], all: &[&str], ctx: &str) -> Result<(), String> {
    for v in all {
        let n = rows.iter().filter(|(k, _)| k == &lc(v)).count();
        if n != 1 {
            return Err(format!("{ctx}: variant {v} is matched by {n} arms (expected exactly 1)"));
        }
    }
    if rows.len() != all.len() {
        return Err(format!("{ctx}: {} rows for {} variants", rows.len(), all.len()));
    }
    Ok(())
}

/// `let <name> = <expr>;` at the top level of a block: (statement index, expr).
fn top_let<'a>(b: &'a syn::Block, name: &str) -> Vec<(usize, &'a syn::Expr)> {
    let mut out = vec![];
    for (i, st) in b.stmts.iter().enumerate() {
        if let syn::Stmt::Local(l) = st {
            let id = match &l.pat {
                syn::Pat::Ident(pi) => Some(pi.ident.to_string()),
                syn::Pat::Type(pt) => match &*pt.pat {
                    syn::Pat::Ident(pi) => Some(pi.ident.to_string()),
                    _ => None,
                },
                _ => None,
            };
            if id.as_deref() == Some(name) {
                if let Some(init) = &l.init {
                    out.push((i, &*init.expr));
                }
            }
        }
    }
    out
}

fn one_let<'a>(b: &'a syn::Block, name: &str, ctx: &str) -> Result<(usize, &'a syn::Expr), String> {
    let v = top_let(b, name);
    if v.len() != 1 {
        return Err(format!("{ctx}: expected exactly one top-level `let {name} = …`, found {}", v.len()));
    }
    Ok(v[0])
}

/// The last top-level `match` expression statement of a block.
fn last_match<'a>(b: &'a syn::Block, ctx: &str) -> Result<&'a syn::ExprMatch, String> {
    for st in b.stmts.iter().rev() {
        if let syn::Stmt::Expr(syn::Expr::Match(m), _) = st {
            return Ok(m);
        }
    }
    Err(format!("{ctx}: no top-level `match` statement"))
}

fn as_match<'a>(e: &'a syn::Expr, scrutinee: &str, ctx: &str) -> Result<&'a syn::ExprMatch, String> {
    let syn::Expr::Match(m) = e else {
        return Err(format!("{ctx}: expected `match {scrutinee} {{…}}`, found `{}`", toks(e)));
    };
    if nospace(&*m.expr) != scrutinee {
        return Err(format!("{ctx}: match is on `{}`, expected `{scrutinee}`", toks(&*m.expr)));
    }
    Ok(m)
}

fn arm_block(a: &syn::Arm) -> Option<&syn::Block> {
    match &*a.body {
        syn::Expr::Block(b) => Some(&b.block),
        _ => None,
    }
}

fn contains_return(e: &syn::Expr) -> bool {
    struct V(bool);
    impl<'ast> Visit<'ast> for V {
        fn visit_expr_return(&mut self, _r: &'ast syn::ExprReturn) {
            self.0 = true;
        }
    }
    let mut v = V(false);
    v.visit_expr(e);
    v.0
}

/// Arguments (token strings without spaces) of the unique method call `.name(…)` inside `e`.
fn method_args(e: &syn::Expr, name: &str, ctx: &str) -> Result<Vec<String>, String> {
    struct V<'a>(&'a str, Vec<Vec<String>>);
    impl<'a, 'ast> Visit<'ast> for V<'a> {
        fn visit_expr_method_call(&mut self, m: &'ast syn::ExprMethodCall) {
            if m.method == self.0 {
                self.1.push(m.args.iter().map(nospace).collect());
            }
            syn::visit::visit_expr_method_call(self, m);
        }
    }
    let mut v = V(name, vec![]);
    v.visit_expr(e);
    if v.1.len() != 1 {
        return Err(format!("{ctx}: expected exactly one call of `.{name}(…)`, found {}", v.1.len()));
    }
    Ok(v.1.remove(0))
}

// ---------------------------------------------------------------------------------------------
// time expressions: sums of `OffsetDateTime::UNIX_EPOCH`, `ct`, `Duration::from_secs(<secs>)`
// rendered in nanoseconds over the variables `ct sessSecs privSecs`.
// ---------------------------------------------------------------------------------------------

struct Consts {
    files: Vec<syn::File>,
}

impl Consts {
    fn find(&self, name: &str) -> Option<syn::Expr> {
        self.files.iter().find_map(|f| find_const(f, name))
    }
    fn get(&self, name: &str) -> Result<i128, String> {
        let e = self
            .find(name)
            .ok_or_else(|| format!("constant {name} not found in server/lib/src/constants/mod.rs or proto/src/constants.rs"))?;
        eval_int(&e, &|n| self.find(n).and_then(|e| eval_int(&e, &|_| None).ok()))
    }
}

fn strip_conv(e: &syn::Expr) -> &syn::Expr {
    match e {
        syn::Expr::Cast(c) => strip_conv(&c.expr),
        syn::Expr::Paren(p) => strip_conv(&p.expr),
        syn::Expr::MethodCall(m) if m.method == "into" && m.args.is_empty() => strip_conv(&m.receiver),
        _ => e,
    }
}

fn render_secs(e: &syn::Expr, k: &Consts) -> Result<String, String> {
    let e = strip_conv(e);
    match e {
        syn::Expr::MethodCall(m) if m.args.is_empty() && nospace(&*m.receiver) == "account_policy" => {
            match m.method.to_string().as_str() {
                "authsession_expiry" => Ok("sessSecs".into()),
                "privilege_expiry" => Ok("privSecs".into()),
                o => Err(format!("unknown policy accessor `{o}` in a time expression")),
            }
        }
        syn::Expr::Path(_) => {
            let p = path_string(e).unwrap_or_default();
            let last = p.rsplit("::").next().unwrap_or("").to_string();
            if last.chars().all(|c| c.is_ascii_uppercase() || c == '_' || c.is_ascii_digit()) {
                Ok(k.get(&last)?.to_string())
            } else {
                Err(format!("unknown seconds operand `{p}`"))
            }
        }
        syn::Expr::Lit(l) => match &l.lit {
            syn::Lit::Int(i) => Ok(i.base10_digits().to_string()),
            _ => Err("non-integer literal in a time expression".into()),
        },
        _ => Err(format!("unrecognised seconds expression `{}`", toks(e))),
    }
}

fn render_time(e: &syn::Expr, k: &Consts) -> Result<String, String> {
    use syn::{BinOp, Expr};
    match e {
        Expr::Paren(p) => render_time(&p.expr, k),
        Expr::Path(_) => {
            let p = path_string(e).unwrap_or_default();
            if p.ends_with("UNIX_EPOCH") {
                Ok("0".into())
            } else if p == "ct" {
                Ok("ct".into())
            } else {
                Err(format!("unknown time operand `{p}`"))
            }
        }
        Expr::Binary(b) => {
            let l = render_time(&b.left, k)?;
            let r = render_time(&b.right, k)?;
            match b.op {
                BinOp::Add(_) => Ok(format!("({l} + {r})")),
                BinOp::Sub(_) => Ok(format!("({l} - {r})")),
                _ => Err(format!("unsupported operator in time expression `{}`", toks(e))),
            }
        }
        Expr::Call(c) => {
            let f = path_string(&c.func).unwrap_or_default();
            if f.ends_with("Duration::from_secs") && c.args.len() == 1 {
                Ok(format!("({} * nsPerSec)", render_secs(&c.args[0], k)?))
            } else if f.ends_with("Duration::from_nanos") && c.args.len() == 1 {
                let a = nospace(strip_conv(&c.args[0]));
                if a == "ct.subsec_nanos()" {
                    Ok("(ct % nsPerSec)".into())
                } else {
                    Err(format!("unrecognised nanosecond operand `{a}`"))
                }
            } else {
                Err(format!("unsupported call `{f}` in a time expression"))
            }
        }
        _ => Err(format!("unrecognised time expression `{}`", toks(e))),
    }
}

// ---------------------------------------------------------------------------------------------
// (UatPurpose, expiry) tuples
// ---------------------------------------------------------------------------------------------

/// Value expressions over a small environment (name ↦ Lean term).
fn render_val(e: &syn::Expr, env: &BTreeMap<String, String>) -> Result<String, String> {
    match e {
        syn::Expr::Paren(p) => render_val(&p.expr, env),
        syn::Expr::Path(_) => {
            let p = path_string(e).unwrap_or_default();
            if p == "None" {
                return Ok("none".into());
            }
            env.get(&p).cloned().ok_or_else(|| format!("unknown value `{p}` (known: {:?})", env.keys().collect::<Vec<_>>()))
        }
        syn::Expr::Call(c) => {
            let f = path_string(&c.func).unwrap_or_default();
            let args: Result<Vec<String>, String> = c.args.iter().map(|a| render_val(a, env)).collect();
            let args = args?;
            match (f.as_str(), args.len()) {
                ("Some", 1) => Ok(format!("(some {})", args[0])),
                ("std::cmp::min" | "cmp::min" | "min", 2) => Ok(format!("(min {} {})", args[0], args[1])),
                ("std::cmp::max" | "cmp::max" | "max", 2) => Ok(format!("(max {} {})", args[0], args[1])),
                _ => Err(format!("unsupported call `{f}` in a value expression")),
            }
        }
        _ => Err(format!("unrecognised value expression `{}`", toks(e))),
    }
}

fn render_purpose(e: &syn::Expr, env: &BTreeMap<String, String>) -> Result<String, String> {
    match e {
        syn::Expr::Path(p) => match variant_of_path(&p.path, "UatPurpose").as_deref() {
            Some("ReadOnly") => Ok(".readOnly".into()),
            _ => Err(format!("unrecognised purpose `{}`", toks(e))),
        },
        syn::Expr::Struct(s) => {
            if variant_of_path(&s.path, "UatPurpose").as_deref() != Some("ReadWrite") || s.fields.len() != 1 || s.rest.is_some() {
                return Err(format!("unrecognised purpose `{}`", toks(e)));
            }
            let f = &s.fields[0];
            if toks(&f.member) != "expiry" {
                return Err(format!("unrecognised purpose field in `{}`", toks(e)));
            }
            Ok(format!("(.readWrite {})", render_val(&f.expr, env)?))
        }
        _ => Err(format!("unrecognised purpose `{}`", toks(e))),
    }
}

/// Arm body `=> (purpose, expiry)` or `=> { let x = …; … (purpose, expiry) }` or one containing
/// `return None`. `lets` tells how a local `let` is rendered (by name).
fn render_purpose_arm(
    body: &syn::Expr,
    env: &BTreeMap<String, String>,
    lets: &dyn Fn(&str, &syn::Expr, &BTreeMap<String, String>) -> Result<String, String>,
    ctx: &str,
) -> Result<Option<(String, String)>, String> {
    let tuple = |t: &syn::Expr, env: &BTreeMap<String, String>| -> Result<Option<(String, String)>, String> {
        let t = match t {
            syn::Expr::Paren(p) => &*p.expr,
            t => t,
        };
        let syn::Expr::Tuple(t) = t else {
            return Err(format!("{ctx}: arm value `{}` is not a (purpose, expiry) pair", toks(t)));
        };
        if t.elems.len() != 2 {
            return Err(format!("{ctx}: arm value is not a pair"));
        }
        Ok(Some((render_purpose(&t.elems[0], env)?, render_val(&t.elems[1], env)?)))
    };
    match body {
        syn::Expr::Block(b) => {
            let mut env = env.clone();
            let n = b.block.stmts.len();
            for (i, st) in b.block.stmts.iter().enumerate() {
                match st {
                    syn::Stmt::Local(l) => {
                        let syn::Pat::Ident(pi) = &l.pat else {
                            return Err(format!("{ctx}: unsupported `let` pattern `{}`", toks(&l.pat)));
                        };
                        let init = l.init.as_ref().ok_or_else(|| format!("{ctx}: `let` without value"))?;
                        let name = pi.ident.to_string();
                        let v = lets(&name, &init.expr, &env)?;
                        env.insert(name, v);
                    }
                    syn::Stmt::Macro(m) => {
                        let name = m.mac.path.segments.last().map(|s| s.ident.to_string()).unwrap_or_default();
                        if !["warn", "error", "trace", "debug", "info", "security_info", "admin_warn"].contains(&name.as_str()) {
                            return Err(format!("{ctx}: unexpected macro `{name}!` in an arm"));
                        }
                    }
                    syn::Stmt::Expr(e, semi) => {
                        if let syn::Expr::Return(r) = e {
                            let v = r.expr.as_ref().map(|e| nospace(&**e)).unwrap_or_default();
                            if v != "None" {
                                return Err(format!("{ctx}: arm returns `{v}`, expected `None`"));
                            }
                            return Ok(None);
                        }
                        if i + 1 == n && semi.is_none() {
                            return tuple(e, &env);
                        }
                        return Err(format!("{ctx}: unexpected statement `{}` in an arm", toks(e)));
                    }
                    syn::Stmt::Item(_) => return Err(format!("{ctx}: item inside an arm")),
                }
            }
            Err(format!("{ctx}: arm block has no value"))
        }
        e => tuple(e, env),
    }
}

fn beq_any(var: &str, vs: &[String]) -> String {
    let parts: Vec<String> = vs.iter().map(|v| format!("{var} == {v}")).collect();
    format!("({})", parts.join(" || "))
}

// ---------------------------------------------------------------------------------------------

fn find_from_impl(file: &syn::File, self_ty: &str, trait_name: &str, generic_contains: &str, fn_name: &str) -> Result<syn::Block, String> {
    let mut found = vec![];
    for it in &file.items {
        if let syn::Item::Impl(i) = it {
            let Some((_, tp, _)) = &i.trait_ else { continue };
            let Some(last) = tp.segments.last() else { continue };
            if last.ident != trait_name || !toks(&last.arguments).contains(generic_contains) {
                continue;
            }
            if !toks(&*i.self_ty).ends_with(self_ty) {
                continue;
            }
            for ii in &i.items {
                if let syn::ImplItem::Fn(f) = ii {
                    if f.sig.ident == fn_name {
                        found.push(f.block.clone());
                    }
                }
            }
        }
    }
    if found.len() != 1 {
        return Err(format!("impl {trait_name}<{generic_contains}> for {self_ty}::{fn_name}: {} matches", found.len()));
    }
    Ok(found.remove(0))
}

/// First comparison (`< <= > >= == !=`) inside `e` whose two operands are exactly `a` and `b`
/// (either order); rendered with `a ↦ la`, `b ↦ lb`.
fn cmp_between(block: &syn::Block, a: &str, b: &str, la: &str, lb: &str, ctx: &str) -> Result<(String, String), String> {
    struct V(Vec<syn::ExprBinary>);
    impl<'ast> Visit<'ast> for V {
        fn visit_expr_binary(&mut self, b: &'ast syn::ExprBinary) {
            use syn::BinOp::*;
            if matches!(b.op, Lt(_) | Le(_) | Gt(_) | Ge(_) | Eq(_) | Ne(_)) {
                self.0.push(b.clone());
            }
            syn::visit::visit_expr_binary(self, b);
        }
    }
    let mut v = V(vec![]);
    v.visit_block(block);
    let hits: Vec<&syn::ExprBinary> = v
        .0
        .iter()
        .filter(|x| {
            let (l, r) = (nospace(&*x.left), nospace(&*x.right));
            (l == a && r == b) || (l == b && r == a)
        })
        .collect();
    if hits.len() != 1 {
        return Err(format!("{ctx}: expected exactly one comparison between `{a}` and `{b}`, found {}", hits.len()));
    }
    let vs: BTreeMap<String, String> = [(a.to_string(), la.to_string()), (b.to_string(), lb.to_string())].into_iter().collect();
    let e = syn::Expr::Binary(hits[0].clone());
    Ok((toks(&e), lean_expr(&e, &vs)?))
}

/// 4th argument of the unique `Identity::new(…)` call in a block.
fn identity_scope_arg(block: &syn::Block, ctx: &str) -> Result<syn::Expr, String> {
    struct V(Vec<syn::ExprCall>);
    impl<'ast> Visit<'ast> for V {
        fn visit_expr_call(&mut self, c: &'ast syn::ExprCall) {
            if path_string(&c.func).map(|p| p.ends_with("Identity::new")).unwrap_or(false) {
                self.0.push(c.clone());
            }
            syn::visit::visit_expr_call(self, c);
        }
    }
    let mut v = V(vec![]);
    v.visit_block(block);
    if v.0.len() != 1 {
        return Err(format!("{ctx}: expected exactly one `Identity::new(…)`, found {}", v.0.len()));
    }
    let c = v.0.remove(0);
    if c.args.len() != 6 {
        return Err(format!("{ctx}: `Identity::new` has {} arguments, expected 6 (…, scope, limits, last_verified_at)", c.args.len()));
    }
    Ok(c.args[3].clone())
}

fn access_scope_const(e: &syn::Expr, ctx: &str) -> Result<String, String> {
    let v = variant_of_expr(e, "AccessScope").ok_or_else(|| format!("{ctx}: `{}` is not an `AccessScope::_` constant", toks(e)))?;
    known(&v, &ACCESS_SCOPES, "AccessScope")
}

// ---------------------------------------------------------------------------------------------

fn authtypes(repo: &str, out: &str) -> Result<String, String> {
    let k = Consts {
        files: vec![parse_file(repo, "server/lib/src/constants/mod.rs")?, parse_file(repo, "proto/src/constants.rs")?],
    };
    let mut b = String::new();
    b += "namespace Kanidm.Gen.AuthTypes\nopen Kanidm.Privilege\n";

    // ---- constants -------------------------------------------------------------------------
    let limited = k.get("DEFAULT_AUTH_SESSION_LIMITED_EXPIRY")?;
    let maxpriv = k.get("MAXIMUM_AUTH_PRIVILEGE_EXPIRY")?;
    let grace = k.get("AUTH_TOKEN_GRACE_WINDOW")?;
    b += &format!("/-- `DEFAULT_AUTH_SESSION_LIMITED_EXPIRY` (seconds). -/\ndef limitedExpirySecs : Nat := {limited}\n");
    b += &format!("/-- `MAXIMUM_AUTH_PRIVILEGE_EXPIRY` (seconds): start value of `ResolvedAccountPolicy::fold_from`. -/\ndef maxPrivilegeExpirySecs : Nat := {maxpriv}\n");
    b += &format!("/-- `AUTH_TOKEN_GRACE_WINDOW` (seconds). -/\ndef graceWindowSecs : Nat := {grace}\n");

    // ---- issue_uat -------------------------------------------------------------------------
    let am = parse_file(repo, "server/lib/src/idm/authsession/mod.rs")?;
    let f = find_fn(&am, "AuthSession::issue_uat")?;
    let m = last_match(&f.block, "issue_uat")?;
    if nospace(&*m.expr) != "self.intent" || m.arms.len() != 2 {
        return Err("issue_uat: expected `match self.intent { InitialAuth{..} => …, Reauth{..} => … }`".into());
    }
    let mut init_arm = None;
    let mut reauth_arm = None;
    for a in &m.arms {
        match variant_of_pat(&a.pat, "AuthIntent").as_deref() {
            Some("InitialAuth") => init_arm = Some(a),
            Some("Reauth") => reauth_arm = Some(a),
            _ => return Err(format!("issue_uat: unexpected intent arm `{}`", toks(&a.pat))),
        }
    }
    let init_arm = init_arm.ok_or("issue_uat: no InitialAuth arm")?;
    let reauth_arm = reauth_arm.ok_or("issue_uat: no Reauth arm")?;
    if !nospace(&init_arm.pat).contains("{privileged}") {
        return Err(format!("issue_uat: InitialAuth arm does not bind `privileged`: `{}`", toks(&init_arm.pat)));
    }
    let ib = arm_block(init_arm).ok_or("issue_uat: InitialAuth arm is not a block")?;
    // (1) scope table
    let (scope_idx, scope_e) = one_let(ib, "scope", "issue_uat/InitialAuth")?;
    let sm = as_match(scope_e, "auth_type", "issue_uat/InitialAuth scope")?;
    let mut rows: Vec<(String, (String, String))> = vec![];
    for a in &sm.arms {
        if a.guard.is_some() {
            return Err("issue_uat/InitialAuth scope: guard on an arm".into());
        }
        let vs = arm_variants(&a.pat, "AuthType", "issue_uat/InitialAuth scope")?;
        let (pt, pf) = if let Some(v) = variant_of_expr(&a.body, "SessionScope") {
            let s = known(&v, &SESSION_SCOPES, "SessionScope")?;
            (s.clone(), s)
        } else {
            // `{ if privileged { SessionScope::A } else { SessionScope::B } }`
            let blk = arm_block(a).ok_or_else(|| format!("issue_uat/InitialAuth scope: unrecognised arm body `{}`", toks(&*a.body)))?;
            if blk.stmts.len() != 1 {
                return Err("issue_uat/InitialAuth scope: arm block is not a single `if`".into());
            }
            let syn::Stmt::Expr(syn::Expr::If(i), None) = &blk.stmts[0] else {
                return Err("issue_uat/InitialAuth scope: arm block is not a single `if`".into());
            };
            if nospace(&*i.cond) != "privileged" {
                return Err(format!("issue_uat/InitialAuth scope: condition `{}` is not `privileged`", toks(&*i.cond)));
            }
            let then_e = syn::Expr::Block(syn::ExprBlock { attrs: vec![], label: None, block: i.then_branch.clone() });
            let t = variant_of_expr(&then_e, "SessionScope").ok_or("issue_uat/InitialAuth scope: then-branch is not a SessionScope")?;
            let (_, else_e) = i.else_branch.as_ref().ok_or("issue_uat/InitialAuth scope: `if privileged` without else")?;
            let e = variant_of_expr(else_e, "SessionScope").ok_or("issue_uat/InitialAuth scope: else-branch is not a SessionScope")?;
            (known(&t, &SESSION_SCOPES, "SessionScope")?, known(&e, &SESSION_SCOPES, "SessionScope")?)
        };
        for v in vs {
            rows.push((known(&v, &AUTH_TYPES, "AuthType")?, (pt.clone(), pf.clone())));
        }
    }
    exhaustive(&rows, &AUTH_TYPES, "issue_uat/InitialAuth scope")?;
    b += "/-- `AuthSession::issue_uat`, `AuthIntent::InitialAuth { privileged }`: `let scope = match auth_type {…}`. -/\n";
    b += "def initialScope : AuthType → Bool → SessionScope\n";
    for (t, (pt, pf)) in &rows {
        if pt == pf {
            b += &format!("  | {t}, _ => {pt}\n");
        } else {
            b += &format!("  | {t}, true => {pt}\n  | {t}, false => {pf}\n");
        }
    }
    // (2) call of to_userauthtoken
    let (uat_idx, uat_e) = one_let(ib, "uat", "issue_uat/InitialAuth")?;
    if uat_idx < scope_idx {
        return Err("issue_uat/InitialAuth: `uat` is computed before `scope`".into());
    }
    let args = method_args(uat_e, "to_userauthtoken", "issue_uat/InitialAuth")?;
    if args != ["session_id", "scope", "time", "&self.account_policy"] {
        return Err(format!("issue_uat/InitialAuth: to_userauthtoken called with {args:?}"));
    }
    // (3) which auth types record a session
    let rm = last_match(ib, "issue_uat/InitialAuth session record")?;
    if nospace(&*rm.expr) != "auth_type" {
        return Err("issue_uat/InitialAuth: the session-record match is not on `auth_type`".into());
    }
    let mut rec: Vec<(String, bool)> = vec![];
    for a in &rm.arms {
        let vs = arm_variants(&a.pat, "AuthType", "issue_uat/InitialAuth session record")?;
        let body = nospace(&*a.body);
        let records = body.contains("DelayedAction::AuthSessionRecord");
        if records {
            for need in ["expiry:uat.expiry", "issued_at:uat.issued_at", "scope,", "type_:auth_type", "session_id,"] {
                if !body.contains(need) {
                    return Err(format!("issue_uat/InitialAuth: AuthSessionRecord does not carry `{need}`"));
                }
            }
        } else if body != "{}" {
            return Err(format!("issue_uat/InitialAuth: session-record arm is neither empty nor a record: `{}`", toks(&*a.body)));
        }
        for v in vs {
            rec.push((known(&v, &AUTH_TYPES, "AuthType")?, records));
        }
    }
    exhaustive(&rec, &AUTH_TYPES, "issue_uat/InitialAuth session record")?;
    b += "/-- `issue_uat`: auth types for which `DelayedAction::AuthSessionRecord` (expiry = `uat.expiry`, scope, type) is queued. -/\n";
    b += "def sessionRecorded : AuthType → Bool\n";
    for (t, r) in &rec {
        b += &format!("  | {t} => {r}\n");
    }
    // (4) Reauth arm
    let rb = arm_block(reauth_arm).ok_or("issue_uat: Reauth arm is not a block")?;
    let pat = nospace(&reauth_arm.pat);
    for need in ["read_write", "session_id", "session_expiry"] {
        if !pat.contains(need) {
            return Err(format!("issue_uat: Reauth arm does not bind `{need}`"));
        }
    }
    let (_, rscope_e) = one_let(rb, "scope", "issue_uat/Reauth")?;
    let rsm = as_match(rscope_e, "auth_type", "issue_uat/Reauth scope")?;
    let mut rrows: Vec<(String, Option<String>)> = vec![];
    for a in &rsm.arms {
        if a.guard.is_some() {
            return Err("issue_uat/Reauth scope: guard on an arm".into());
        }
        let vs = arm_variants(&a.pat, "AuthType", "issue_uat/Reauth scope")?;
        let val = if let Some(v) = variant_of_expr(&a.body, "SessionScope") {
            Some(known(&v, &SESSION_SCOPES, "SessionScope")?)
        } else if contains_return(&a.body) && nospace(&*a.body).contains("returnErr(") {
            None
        } else {
            return Err(format!("issue_uat/Reauth scope: unrecognised arm body `{}`", toks(&*a.body)));
        };
        for v in vs {
            rrows.push((known(&v, &AUTH_TYPES, "AuthType")?, val.clone()));
        }
    }
    exhaustive(&rrows, &AUTH_TYPES, "issue_uat/Reauth scope")?;
    b += "/-- `issue_uat`, `AuthIntent::Reauth`: `let scope = match auth_type {…}`; `none` = `return Err(AU0006…)`. -/\n";
    b += "def reauthScope : AuthType → Option SessionScope\n";
    for (t, v) in &rrows {
        match v {
            Some(s) => b += &format!("  | {t} => some {s}\n"),
            None => b += &format!("  | {t} => none\n"),
        }
    }
    let (_, ruat_e) = one_let(rb, "uat", "issue_uat/Reauth")?;
    let args = method_args(ruat_e, "to_reissue_userauthtoken", "issue_uat/Reauth")?;
    if args != ["session_id", "session_expiry", "scope", "read_write", "time", "&self.account_policy"] {
        return Err(format!("issue_uat/Reauth: to_reissue_userauthtoken called with {args:?}"));
    }

    // ---- Account::to_userauthtoken -----------------------------------------------------------
    let acc = parse_file(repo, "server/lib/src/idm/account.rs")?;
    let f = find_fn(&acc, "Account::to_userauthtoken")?;
    let sig: Vec<String> = f.sig.inputs.iter().map(nospace).collect();
    if sig != ["&self", "session_id:Uuid", "scope:SessionScope", "ct:Duration", "account_policy:&ResolvedAccountPolicy"] {
        return Err(format!("to_userauthtoken: unexpected signature {sig:?}"));
    }
    let (ct_idx, ct_e) = one_let(&f.block, "ct", "to_userauthtoken")?;
    let (ia_idx, ia_e) = one_let(&f.block, "issued_at", "to_userauthtoken")?;
    let (ex_idx, ex_e) = one_let(&f.block, "expiry", "to_userauthtoken")?;
    let (le_idx, le_e) = one_let(&f.block, "limited_expiry", "to_userauthtoken")?;
    if !(ct_idx < ia_idx && ct_idx < ex_idx && ct_idx < le_idx) {
        return Err("to_userauthtoken: the `ct` truncation does not precede the expiry computations".into());
    }
    b += &format!("/-- `to_userauthtoken`: `let ct = {}` (all instants in ns). -/\n", toks(ct_e));
    b += &format!("def issueCt (ct sessSecs privSecs : Nat) : Nat := {}\n", render_time(ct_e, &k)?);
    b += &format!("/-- `to_userauthtoken`: `let issued_at = {}` (`ct` = the truncated one). -/\n", toks(ia_e));
    b += &format!("def issueIssuedAt (ct sessSecs privSecs : Nat) : Nat := {}\n", render_time(ia_e, &k)?);
    b += &format!("/-- `to_userauthtoken`: `let expiry = {}`. -/\n", toks(ex_e));
    b += &format!("def issueExpiry (ct sessSecs privSecs : Nat) : Nat := {}\n", render_time(ex_e, &k)?);
    b += &format!("/-- `to_userauthtoken`: `let limited_expiry = {}`. -/\n", toks(le_e));
    b += &format!("def issueLimitedExpiry (ct sessSecs privSecs : Nat) : Nat := {}\n", render_time(le_e, &k)?);
    // the `(purpose, expiry)` match
    let pe_stmt = f.block.stmts.iter().enumerate().find_map(|(i, st)| match st {
        syn::Stmt::Local(l) if nospace(&l.pat) == "(purpose,expiry)" => l.init.as_ref().map(|x| (i, &*x.expr)),
        _ => None,
    });
    let (pe_idx, pe_e) = pe_stmt.ok_or("to_userauthtoken: no `let (purpose, expiry) = match scope {…}`")?;
    if pe_idx < ex_idx || pe_idx < le_idx {
        return Err("to_userauthtoken: the scope match precedes the expiry computations".into());
    }
    let pm = as_match(pe_e, "scope", "to_userauthtoken")?;
    let env: BTreeMap<String, String> =
        [("expiry".to_string(), "expiry".to_string()), ("limited_expiry".to_string(), "limitedExpiry".to_string())].into_iter().collect();
    let lets = |_n: &str, e: &syn::Expr, env: &BTreeMap<String, String>| render_val(e, env);
    let mut prow: Vec<(String, Option<(String, String)>)> = vec![];
    for a in &pm.arms {
        if a.guard.is_some() {
            return Err("to_userauthtoken: guard on a scope arm".into());
        }
        let vs = arm_variants(&a.pat, "SessionScope", "to_userauthtoken")?;
        let val = render_purpose_arm(&a.body, &env, &lets, "to_userauthtoken")?;
        for v in vs {
            prow.push((known(&v, &SESSION_SCOPES, "SessionScope")?, val.clone()));
        }
    }
    exhaustive(&prow, &SESSION_SCOPES, "to_userauthtoken")?;
    b += "/-- `to_userauthtoken`: `let (purpose, expiry) = match scope {…}`; `none` = `return None`. -/\n";
    b += "def issueOf (scope : SessionScope) (expiry limitedExpiry : Nat) : Option (Purpose × Nat) :=\n  match scope with\n";
    for (s, v) in &prow {
        match v {
            Some((p, e)) => b += &format!("  | {s} => some ({p}, {e})\n"),
            None => b += &format!("  | {s} => none\n"),
        }
    }
    // the struct literal
    let lit = struct_literal(&f.block, "UserAuthToken", "to_userauthtoken")?;
    expect_field(&lit, "expiry", "Some(expiry)", "to_userauthtoken")?;
    expect_field(&lit, "purpose", "purpose", "to_userauthtoken")?;
    expect_field(&lit, "issued_at", "issued_at", "to_userauthtoken")?;
    expect_field(&lit, "session_id", "session_id", "to_userauthtoken")?;

    // ---- Account::to_reissue_userauthtoken ---------------------------------------------------
    let f = find_fn(&acc, "Account::to_reissue_userauthtoken")?;
    let sig: Vec<String> = f.sig.inputs.iter().map(nospace).collect();
    if sig
        != ["&self", "session_id:Uuid", "session_expiry:Option<OffsetDateTime>", "scope:SessionScope", "read_write:bool", "ct:Duration", "account_policy:&ResolvedAccountPolicy"]
    {
        return Err(format!("to_reissue_userauthtoken: unexpected signature {sig:?}"));
    }
    if !top_let(&f.block, "ct").is_empty() {
        return Err("to_reissue_userauthtoken: `ct` is rebound (the model assumes it is used as given)".into());
    }
    let (_, ria_e) = one_let(&f.block, "issued_at", "to_reissue_userauthtoken")?;
    b += &format!("/-- `to_reissue_userauthtoken`: `let issued_at = {}`. -/\n", toks(ria_e));
    b += &format!("def reissueIssuedAt (ct sessSecs privSecs : Nat) : Nat := {}\n", render_time(ria_e, &k)?);
    let pe_stmt = f.block.stmts.iter().find_map(|st| match st {
        syn::Stmt::Local(l) if nospace(&l.pat) == "(purpose,expiry)" => l.init.as_ref().map(|x| &*x.expr),
        _ => None,
    });
    let pe_e = pe_stmt.ok_or("to_reissue_userauthtoken: no `let (purpose, expiry) = match scope {…}`")?;
    let pm = as_match(pe_e, "scope", "to_reissue_userauthtoken")?;
    let env: BTreeMap<String, String> = [("session_expiry".to_string(), "sessionExpiry".to_string())].into_iter().collect();
    // `let expiry = Some(<time sum>)` inside the privileged arm ↦ `(some (reissuePrivExpiry …))`
    let priv_sum: std::cell::RefCell<Vec<String>> = std::cell::RefCell::new(vec![]);
    let lets = |n: &str, e: &syn::Expr, _env: &BTreeMap<String, String>| -> Result<String, String> {
        let syn::Expr::Call(c) = e else {
            return Err(format!("to_reissue_userauthtoken: `let {n} = {}` is not `Some(<time>)`", toks(e)));
        };
        if nospace(&*c.func) != "Some" || c.args.len() != 1 {
            return Err(format!("to_reissue_userauthtoken: `let {n} = {}` is not `Some(<time>)`", toks(e)));
        }
        let t = render_time(&c.args[0], &k)?;
        priv_sum.borrow_mut().push(format!("{}\u{0}{}", toks(&c.args[0]), t));
        Ok("(some privExpiry)".into())
    };
    let mut chain: Vec<(Vec<String>, Option<String>, Option<(String, String)>)> = vec![];
    let mut seen: Vec<String> = vec![];
    for a in &pm.arms {
        let vs = arm_variants(&a.pat, "SessionScope", "to_reissue_userauthtoken")?;
        let mut lv = vec![];
        for v in vs {
            let s = known(&v, &SESSION_SCOPES, "SessionScope")?;
            if !seen.contains(&s) {
                seen.push(s.clone());
            }
            lv.push(s);
        }
        let guard = match &a.guard {
            None => None,
            Some((_, g)) => match nospace(&**g).as_str() {
                "read_write" => Some("readWrite".to_string()),
                "!read_write" => Some("!readWrite".to_string()),
                o => return Err(format!("to_reissue_userauthtoken: unrecognised guard `{o}`")),
            },
        };
        let val = render_purpose_arm(&a.body, &env, &lets, "to_reissue_userauthtoken")?;
        chain.push((lv, guard, val));
    }
    if seen.len() != SESSION_SCOPES.len() {
        return Err("to_reissue_userauthtoken: not every SessionScope variant is named by an arm".into());
    }
    let sums = priv_sum.borrow().clone();
    if sums.len() != 1 {
        return Err(format!("to_reissue_userauthtoken: expected exactly one privilege-expiry computation, found {}", sums.len()));
    }
    let (src, lean) = sums[0].split_once('\u{0}').unwrap();
    b += &format!("/-- `to_reissue_userauthtoken`, privileged arm: `Some({src})`. -/\n");
    b += &format!("def reissuePrivExpiry (ct sessSecs privSecs : Nat) : Nat := {lean}\n");
    b += "/-- `to_reissue_userauthtoken`: `let (purpose, expiry) = match scope {…}`, arms (with guards) in source order; `none` = `return None`. -/\n";
    b += "def reissueOf (scope : SessionScope) (readWrite : Bool) (privExpiry : Nat) (sessionExpiry : Option Nat) : Option (Purpose × Option Nat) :=\n";
    for (vs, g, val) in &chain {
        let cond = match g {
            Some(g) => format!("{} && {g}", beq_any("scope", vs)),
            None => beq_any("scope", vs),
        };
        let v = match val {
            Some((p, e)) => format!("some ({p}, {e})"),
            None => "none".to_string(),
        };
        b += &format!("  if {cond} then {v} else\n");
    }
    b += "  none\n";
    let lit = struct_literal(&f.block, "UserAuthToken", "to_reissue_userauthtoken")?;
    expect_field(&lit, "expiry", "expiry", "to_reissue_userauthtoken")?;
    expect_field(&lit, "purpose", "purpose", "to_reissue_userauthtoken")?;
    expect_field(&lit, "issued_at", "issued_at", "to_reissue_userauthtoken")?;
    expect_field(&lit, "session_id", "session_id", "to_reissue_userauthtoken")?;

    // ---- client certificate → UAT ------------------------------------------------------------
    let f = find_fn(&acc, "Account::client_cert_info_to_userauthtoken")?;
    let (_, p_e) = one_let(&f.block, "purpose", "client_cert_info_to_userauthtoken")?;
    let syn::Expr::If(i) = p_e else {
        return Err("client_cert_info_to_userauthtoken: `purpose` is not an `if`".into());
    };
    if nospace(&*i.cond) != "session_is_rw" {
        return Err("client_cert_info_to_userauthtoken: condition is not `session_is_rw`".into());
    }
    let empty = BTreeMap::new();
    let single = |blk: &syn::Block| -> Result<String, String> {
        match blk.stmts.as_slice() {
            [syn::Stmt::Expr(e, None)] => render_purpose(e, &empty),
            _ => Err("client_cert_info_to_userauthtoken: branch is not a single purpose".into()),
        }
    };
    let t = single(&i.then_branch)?;
    let e = match i.else_branch.as_ref().map(|(_, e)| &**e) {
        Some(syn::Expr::Block(bk)) => single(&bk.block)?,
        _ => return Err("client_cert_info_to_userauthtoken: no else branch".into()),
    };
    b += "/-- `client_cert_info_to_userauthtoken`: `if session_is_rw {…} else {…}`. -/\n";
    b += &format!("def certUatPurpose (sessionIsRw : Bool) : Purpose := if sessionIsRw then {t} else {e}\n");
    let lit = struct_literal(&f.block, "UserAuthToken", "client_cert_info_to_userauthtoken")?;
    expect_field(&lit, "expiry", "None", "client_cert_info_to_userauthtoken")?;

    let srv = parse_file(repo, "server/lib/src/idm/server.rs")?;
    let f = find_fn(&srv, "IdmServerTransaction::client_certificate_to_user_auth_token")?;
    let (_, rw_e) = one_let(&f.block, "session_is_rw", "client_certificate_to_user_auth_token")?;
    let rw = match nospace(rw_e).as_str() {
        "false" => "false",
        "true" => "true",
        o => return Err(format!("client_certificate_to_user_auth_token: `session_is_rw = {o}` is not a literal")),
    };
    b += &format!("/-- `client_certificate_to_user_auth_token`: `let session_is_rw = {rw};`. -/\ndef certSessionIsRw : Bool := {rw}\n");

    // ---- process_uat_to_identity -------------------------------------------------------------
    let f = find_fn(&srv, "IdmServerTransaction::process_uat_to_identity")?;
    let (valid_idx, valid_e) = one_let(&f.block, "valid", "process_uat_to_identity")?;
    if nospace(valid_e) != "Account::check_user_auth_token_valid(ct,uat,&entry)" {
        return Err(format!("process_uat_to_identity: `valid` is `{}`", toks(valid_e)));
    }
    let gate_ok = f.block.stmts.iter().skip(valid_idx + 1).take(1).any(|st| {
        let s = nospace(st);
        s.starts_with("if!valid{returnErr(")
    });
    if !gate_ok {
        return Err("process_uat_to_identity: `if !valid { return Err(..) }` does not follow the validity check".into());
    }
    let (scope_idx, scope_e) = one_let(&f.block, "scope", "process_uat_to_identity")?;
    if scope_idx < valid_idx {
        return Err("process_uat_to_identity: scope is computed before the validity check".into());
    }
    let sm = as_match(scope_e, "uat.purpose", "process_uat_to_identity")?;
    let mut ro = None;
    let mut rw_none = None;
    let mut rw_some = None;
    for a in &sm.arms {
        if a.guard.is_some() {
            return Err("process_uat_to_identity: guard on a purpose arm".into());
        }
        let p = nospace(&a.pat);
        if p == "UatPurpose::ReadOnly" {
            ro = Some(access_scope_const(&a.body, "process_uat_to_identity/ReadOnly")?);
        } else if p == "UatPurpose::ReadWrite{expiry:None}" {
            rw_none = Some(access_scope_const(&a.body, "process_uat_to_identity/ReadWrite{None}")?);
        } else if p == "UatPurpose::ReadWrite{expiry:Some(expiry),}" || p == "UatPurpose::ReadWrite{expiry:Some(expiry)}" {
            let blk = arm_block(a).ok_or("process_uat_to_identity: ReadWrite{Some} arm is not a block")?;
            let (_, cot_e) = one_let(blk, "cot", "process_uat_to_identity/ReadWrite{Some}")?;
            let cot = render_time(cot_e, &k)?;
            if cot != "(0 + ct)" {
                return Err(format!("process_uat_to_identity: `cot = {}` is not `UNIX_EPOCH + ct`", toks(cot_e)));
            }
            let Some(syn::Stmt::Expr(syn::Expr::If(i), None)) = blk.stmts.last() else {
                return Err("process_uat_to_identity: ReadWrite{Some} arm does not end in an `if`".into());
            };
            let vs: BTreeMap<String, String> =
                [("cot".to_string(), "cot".to_string()), ("expiry".to_string(), "expiry".to_string())].into_iter().collect();
            let cond = lean_expr(&i.cond, &vs)?;
            let then_e = syn::Expr::Block(syn::ExprBlock { attrs: vec![], label: None, block: i.then_branch.clone() });
            let t = access_scope_const(&then_e, "process_uat_to_identity/then")?;
            let (_, else_e) = i.else_branch.as_ref().ok_or("process_uat_to_identity: `if` without else")?;
            let e = access_scope_const(else_e, "process_uat_to_identity/else")?;
            rw_some = Some((toks(&*i.cond), cond, t, e));
        } else {
            return Err(format!("process_uat_to_identity: unrecognised purpose pattern `{}`", toks(&a.pat)));
        }
    }
    let (ro, rw_none, (csrc, cond, t, e)) = match (ro, rw_none, rw_some) {
        (Some(a), Some(b2), Some(c)) if sm.arms.len() == 3 => (a, b2, c),
        _ => return Err("process_uat_to_identity: expected exactly the arms ReadOnly, ReadWrite{None}, ReadWrite{Some(expiry)}".into()),
    };
    let sarg = identity_scope_arg(&f.block, "process_uat_to_identity")?;
    if nospace(&sarg) != "scope" {
        return Err(format!("process_uat_to_identity: Identity::new gets `{}` as scope", toks(&sarg)));
    }
    b += &format!("/-- `process_uat_to_identity`: `let scope = match uat.purpose {{…}}`; the comparison is `{csrc}` with `cot = UNIX_EPOCH + ct`. -/\n");
    b += "def uatAccessScope (purpose : Purpose) (cot : Nat) : AccessScope :=\n  match purpose with\n";
    b += &format!("  | .readOnly => {ro}\n  | .readWrite none => {rw_none}\n  | .readWrite (some expiry) => if {cond} then {t} else {e}\n");

    // ---- validate_and_parse_token_to_identity_token --------------------------------------------
    let f = find_fn(&srv, "IdmServerTransaction::validate_and_parse_token_to_identity_token")?;
    let (src, lean) = cmp_between(&f.block, "exp", "ct_odt", "exp", "cot", "validate_and_parse_token_to_identity_token")?;
    b += &format!("/-- `validate_and_parse_token_to_identity_token`, UAT branch: `{src}` ⇒ `SessionExpired`. -/\n");
    b += &format!("def uatExpired (exp cot : Nat) : Bool := {lean}\n");

    // ---- check_user_auth_token_valid: grace comparison -----------------------------------------
    let f = find_fn(&acc, "Account::check_user_auth_token_valid")?;
    let (src, lean) = cmp_between(&f.block, "current", "grace", "current", "grace", "check_user_auth_token_valid")?;
    let (_, g_e) = {
        // `let grace = uat.issued_at + AUTH_TOKEN_GRACE_WINDOW;` sits in the else branch: search all lets
        struct V(Vec<syn::Expr>);
        impl<'ast> Visit<'ast> for V {
            fn visit_local(&mut self, l: &'ast syn::Local) {
                if nospace(&l.pat) == "grace" {
                    if let Some(i) = &l.init {
                        self.0.push((*i.expr).clone());
                    }
                }
                syn::visit::visit_local(self, l);
            }
        }
        let mut v = V(vec![]);
        v.visit_block(&f.block);
        if v.0.len() != 1 {
            return Err("check_user_auth_token_valid: expected one `let grace = …`".into());
        }
        (0, v.0.remove(0))
    };
    if nospace(&g_e) != "uat.issued_at+AUTH_TOKEN_GRACE_WINDOW" {
        return Err(format!("check_user_auth_token_valid: `grace = {}`", toks(&g_e)));
    }
    b += &format!("/-- `check_user_auth_token_valid`, no stored session: `{src}` ⇒ invalid (`grace = uat.issued_at + AUTH_TOKEN_GRACE_WINDOW`). -/\n");
    b += &format!("def pastGrace (current grace : Nat) : Bool := {lean}\n");

    // ---- certificate / LDAP identities ---------------------------------------------------------
    let f = find_fn(&srv, "IdmServerTransaction::client_certificate_to_identity")?;
    let (_, cs_e) = one_let(&f.block, "scope", "client_certificate_to_identity")?;
    let cs = access_scope_const(cs_e, "client_certificate_to_identity")?;
    let sarg = identity_scope_arg(&f.block, "client_certificate_to_identity")?;
    if nospace(&sarg) != "scope" {
        return Err(format!("client_certificate_to_identity: Identity::new gets `{}` as scope", toks(&sarg)));
    }
    b += &format!("/-- `client_certificate_to_identity`: `let scope = {};` handed to `Identity::new`. -/\ndef certScope : AccessScope := {cs}\n", toks(cs_e));
    let f = find_fn(&srv, "IdmServerTransaction::process_ldap_uuid_to_identity")?;
    let sarg = identity_scope_arg(&f.block, "process_ldap_uuid_to_identity")?;
    let ls = access_scope_const(&sarg, "process_ldap_uuid_to_identity")?;
    b += &format!("/-- `process_ldap_uuid_to_identity`: scope argument of `Identity::new`. -/\ndef ldapScope : AccessScope := {ls}\n");

    // ---- API tokens ----------------------------------------------------------------------------
    let f = find_fn(&srv, "IdmServerTransaction::process_apit_to_identity")?;
    let (_, as_e) = one_let(&f.block, "scope", "process_apit_to_identity")?;
    if nospace(as_e) != "(&apit.purpose).into()" {
        return Err(format!("process_apit_to_identity: `scope = {}`", toks(as_e)));
    }
    let sarg = identity_scope_arg(&f.block, "process_apit_to_identity")?;
    if nospace(&sarg) != "scope" {
        return Err("process_apit_to_identity: Identity::new does not get `scope`".into());
    }
    let idf = parse_file(repo, "server/lib/src/server/identity.rs")?;
    let blk = find_from_impl(&idf, "AccessScope", "From", "ApiTokenPurpose", "from")?;
    let m = last_match(&blk, "From<&ApiTokenPurpose> for AccessScope")?;
    let mut arows: Vec<(String, String)> = vec![];
    for a in &m.arms {
        for v in arm_variants(&a.pat, "ApiTokenPurpose", "From<&ApiTokenPurpose>")? {
            arows.push((known(&v, &API_SCOPES, "ApiTokenPurpose")?, access_scope_const(&a.body, "From<&ApiTokenPurpose>")?));
        }
    }
    exhaustive(&arows, &API_SCOPES, "From<&ApiTokenPurpose> for AccessScope")?;
    b += "/-- `impl From<&ApiTokenPurpose> for AccessScope`. -/\ndef apiAccessScope : ApiScope → AccessScope\n";
    for (p, s) in &arows {
        b += &format!("  | {p} => {s}\n");
    }
    let vf = parse_file(repo, "server/lib/src/value.rs")?;
    let blk = find_from_impl(&vf, "ApiTokenScope", "TryInto", "ApiTokenPurpose", "try_into")?;
    let m = last_match(&blk, "TryInto<ApiTokenPurpose> for ApiTokenScope")?;
    let mut trows: Vec<(String, String)> = vec![];
    for a in &m.arms {
        let syn::Expr::Call(c) = &*a.body else {
            return Err("TryInto<ApiTokenPurpose>: arm is not `Ok(..)`".into());
        };
        if nospace(&*c.func) != "Ok" || c.args.len() != 1 {
            return Err("TryInto<ApiTokenPurpose>: arm is not `Ok(..)`".into());
        }
        let tv = variant_of_expr(&c.args[0], "ApiTokenPurpose").ok_or("TryInto<ApiTokenPurpose>: arm value is not a purpose")?;
        for v in arm_variants(&a.pat, "ApiTokenScope", "TryInto<ApiTokenPurpose>")? {
            trows.push((known(&v, &API_SCOPES, "ApiTokenScope")?, known(&tv, &API_SCOPES, "ApiTokenPurpose")?));
        }
    }
    exhaustive(&trows, &API_SCOPES, "TryInto<ApiTokenPurpose> for ApiTokenScope")?;
    b += "/-- `impl TryInto<ApiTokenPurpose> for ApiTokenScope` (stored scope ↦ token purpose). -/\ndef apiPurposeOfScope : ApiScope → ApiScope\n";
    for (p, s) in &trows {
        b += &format!("  | {p} => {s}\n");
    }
    let saf = parse_file(repo, "server/lib/src/idm/serviceaccount.rs")?;
    let f = find_fn(&saf, "IdmServerProxyWriteTransaction::service_account_generate_api_token")?;
    let (_, sc_e) = one_let(&f.block, "scope", "service_account_generate_api_token")?;
    let syn::Expr::If(i) = sc_e else {
        return Err("service_account_generate_api_token: `scope` is not an `if`".into());
    };
    if nospace(&*i.cond) != "gte.read_write" {
        return Err("service_account_generate_api_token: condition is not `gte.read_write`".into());
    }
    let then_e = syn::Expr::Block(syn::ExprBlock { attrs: vec![], label: None, block: i.then_branch.clone() });
    let t = variant_of_expr(&then_e, "ApiTokenScope").ok_or("service_account_generate_api_token: then-branch")?;
    let (_, else_e) = i.else_branch.as_ref().ok_or("service_account_generate_api_token: no else")?;
    let e = variant_of_expr(else_e, "ApiTokenScope").ok_or("service_account_generate_api_token: else-branch")?;
    b += "/-- `service_account_generate_api_token`: `if gte.read_write {…} else {…}` (stored scope). -/\n";
    b += &format!(
        "def apiScopeOfFlag (readWrite : Bool) : ApiScope := if readWrite then {} else {}\n",
        known(&t, &API_SCOPES, "ApiTokenScope")?,
        known(&e, &API_SCOPES, "ApiTokenScope")?
    );

    // ---- reauth_init / new_reauth --------------------------------------------------------------
    let rf = parse_file(repo, "server/lib/src/idm/reauth.rs")?;
    let f = find_fn(&rf, "IdmServerAuthTransaction::reauth_init")?;
    let m = last_match_on(&f.block, "session.scope", "reauth_init")?;
    let mut srows: Vec<(String, bool)> = vec![];
    for a in &m.arms {
        let vs = arm_variants(&a.pat, "SessionScope", "reauth_init")?;
        let rejects = contains_return(&a.body);
        if !rejects && !nospace(&*a.body).trim_start_matches('{').trim_end_matches('}').is_empty() {
            return Err(format!("reauth_init: accepting arm is not empty: `{}`", toks(&*a.body)));
        }
        for v in vs {
            srows.push((known(&v, &SESSION_SCOPES, "SessionScope")?, !rejects));
        }
    }
    exhaustive(&srows, &SESSION_SCOPES, "reauth_init")?;
    b += "/-- `reauth_init`: `match session.scope {…}` — `false` = `return Err(SessionMayNotReauth)`. -/\ndef reauthAllowed : SessionScope → Bool\n";
    for (s, ok) in &srows {
        b += &format!("  | {s} => {ok}\n");
    }
    let f = find_fn(&am, "AuthSession::new_reauth")?;
    let (_, se_e) = one_let(&f.block, "session_expiry", "new_reauth")?;
    let sem = as_match(se_e, "session.state", "new_reauth")?;
    b += "/-- `new_reauth`: `let session_expiry = match session.state {…}`; outer `none` = the re-auth is refused. -/\n";
    b += "def reauthSessionExpiry : SessionState → Option (Option Nat)\n";
    let mut seen = vec![];
    for a in &sem.arms {
        let p = nospace(&a.pat);
        let body = nospace(&*a.body);
        if p == "SessionState::ExpiresAt(odt)" && body == "Some(odt)" {
            b += "  | .expiresAt odt => some (some odt)\n";
            seen.push("e");
        } else if p == "SessionState::NeverExpires" && body == "None" {
            b += "  | .neverExpires => some none\n";
            seen.push("n");
        } else if p == "SessionState::RevokedAt(_)" && contains_return(&a.body) {
            b += "  | .revokedAt => none\n";
            seen.push("r");
        } else {
            return Err(format!("new_reauth: unrecognised session.state arm `{} => {}`", toks(&a.pat), toks(&*a.body)));
        }
    }
    seen.sort();
    if seen != ["e", "n", "r"] {
        return Err("new_reauth: session.state match does not have exactly the arms ExpiresAt/NeverExpires/RevokedAt".into());
    }
    // `read_write = match reauth_req {…}` sits inside the Proceed arm
    struct RW(Vec<syn::ExprMatch>);
    impl<'ast> Visit<'ast> for RW {
        fn visit_expr_match(&mut self, m: &'ast syn::ExprMatch) {
            if nospace(&*m.expr) == "reauth_req" {
                self.0.push(m.clone());
            }
            syn::visit::visit_expr_match(self, m);
        }
    }
    let mut v = RW(vec![]);
    v.visit_block(&f.block);
    if v.0.len() != 1 {
        return Err("new_reauth: expected one `match reauth_req {…}`".into());
    }
    b += "/-- `new_reauth`: `let read_write = match reauth_req {…}`. -/\ndef reauthRequestRw : ReauthRequest → Bool\n";
    let mut n = 0;
    for a in &v.0[0].arms {
        let vname = variant_of_pat(&a.pat, "ReauthRequest").ok_or("new_reauth: reauth_req arm is not a ReauthRequest variant")?;
        let val = match nospace(&*a.body).as_str() {
            "true" => "true",
            "false" => "false",
            o => return Err(format!("new_reauth: reauth_req arm value `{o}`")),
        };
        let c = known(&vname, &["VerifyCredentials", "GrantReadWrite"], "ReauthRequest")?;
        b += &format!("  | {c} => {val}\n");
        n += 1;
    }
    if n != 2 {
        return Err("new_reauth: reauth_req match does not have 2 arms".into());
    }
    // the intent carries them unchanged
    let body = nospace(&f.block);
    if !body.contains("intent:AuthIntent::Reauth{read_write,session_id,session_expiry,}") {
        return Err("new_reauth: the Reauth intent is not built from `read_write, session_id, session_expiry`".into());
    }

    // ---- every place that can hand out a read-write scope -------------------------------------
    let sites = rw_scope_sites(repo)?;
    b += "/-- Every non-test function under `server/lib/src/idm/` and in `server/identity.rs` in which the\nvalue `AccessScope::ReadWrite` is produced (not matched on, not compared) or `project_with_scope`\nis called: (file, function, occurrences). -/\n";
    b += "def rwScopeSites : List (String × String × Nat) := [\n";
    for (i, (f, func, n)) in sites.iter().enumerate() {
        b += &format!("  (\"{f}\", \"{func}\", {n}){}\n", if i + 1 == sites.len() { "" } else { "," });
    }
    b += "]\n";

    b += "end Kanidm.Gen.AuthTypes\n";
    // own writer: the generated module imports the enumerations, and `import` must come first
    let path = format!("{out}/AuthTypes.lean");
    let text = format!(
        "-- GENERATED by vtranslate from server/lib/src/idm/{{authsession/mod.rs, account.rs, server.rs, reauth.rs, serviceaccount.rs}}, server/identity.rs, value.rs, constants. Do not edit: rewritten on every check run.\nimport KanidmModel.PrivilegeTypes\nset_option linter.unusedVariables false\n{b}"
    );
    if !std::fs::read_to_string(&path).map(|old| old == text).unwrap_or(false) {
        std::fs::write(&path, text).map_err(|e| format!("{path}: {e}"))?;
    }
    Ok(format!(
        "authtypes: {} auth types, {} session scopes; generated AuthTypes.lean",
        AUTH_TYPES.len(),
        SESSION_SCOPES.len()
    ))
}

/// The last `match <scrutinee> {…}` found anywhere at statement level of the function body.
fn last_match_on(b: &syn::Block, scrutinee: &str, ctx: &str) -> Result<syn::ExprMatch, String> {
    struct V<'a>(&'a str, Vec<syn::ExprMatch>);
    impl<'a, 'ast> Visit<'ast> for V<'a> {
        fn visit_expr_match(&mut self, m: &'ast syn::ExprMatch) {
            if nospace(&*m.expr) == self.0 {
                self.1.push(m.clone());
            }
            syn::visit::visit_expr_match(self, m);
        }
    }
    let mut v = V(scrutinee, vec![]);
    v.visit_block(b);
    if v.1.len() != 1 {
        return Err(format!("{ctx}: expected exactly one `match {scrutinee} {{…}}`, found {}", v.1.len()));
    }
    Ok(v.1.remove(0))
}

/// The unique struct literal `Name { … }` in a block.
fn struct_literal(b: &syn::Block, name: &str, ctx: &str) -> Result<syn::ExprStruct, String> {
    struct V<'a>(&'a str, Vec<syn::ExprStruct>);
    impl<'a, 'ast> Visit<'ast> for V<'a> {
        fn visit_expr_struct(&mut self, s: &'ast syn::ExprStruct) {
            if s.path.segments.last().map(|x| x.ident == self.0).unwrap_or(false) {
                self.1.push(s.clone());
            }
            syn::visit::visit_expr_struct(self, s);
        }
    }
    let mut v = V(name, vec![]);
    v.visit_block(b);
    if v.1.len() != 1 {
        return Err(format!("{ctx}: expected exactly one `{name} {{…}}` literal, found {}", v.1.len()));
    }
    Ok(v.1.remove(0))
}

fn expect_field(s: &syn::ExprStruct, field: &str, value: &str, ctx: &str) -> Result<(), String> {
    for f in &s.fields {
        if toks(&f.member) == field {
            let v = nospace(&f.expr);
            if v == value {
                return Ok(());
            }
            return Err(format!("{ctx}: field `{field}` is `{v}`, expected `{value}`"));
        }
    }
    Err(format!("{ctx}: no field `{field}` in the token literal"))
}

/// All `.rs` files below a directory, sorted.
fn rs_files(dir: &std::path::Path, out: &mut Vec<std::path::PathBuf>) -> Result<(), String> {
    let mut ents: Vec<_> = std::fs::read_dir(dir)
        .map_err(|e| format!("{}: {e}", dir.display()))?
        .filter_map(|e| e.ok().map(|e| e.path()))
        .collect();
    ents.sort();
    for p in ents {
        if p.is_dir() {
            rs_files(&p, out)?;
        } else if p.extension().map(|x| x == "rs").unwrap_or(false) {
            out.push(p);
        }
    }
    Ok(())
}

fn is_cfg_test(attrs: &[syn::Attribute]) -> bool {
    attrs.iter().any(|a| a.path().is_ident("cfg") && nospace(&a.meta).contains("test"))
}

/// Functions that *produce* `AccessScope::ReadWrite` (expression position, not an operand of
/// `==`/`!=`) or call `project_with_scope`, outside `#[cfg(test)]` items.
fn rw_scope_sites(repo: &str) -> Result<Vec<(String, String, usize)>, String> {
    struct V {
        fn_stack: Vec<String>,
        hits: Vec<String>,
    }
    impl V {
        fn hit(&mut self) {
            self.hits.push(self.fn_stack.last().cloned().unwrap_or_else(|| "<item>".into()));
        }
    }
    fn is_rw(e: &syn::Expr) -> bool {
        match e {
            syn::Expr::Path(p) => {
                let segs: Vec<String> = p.path.segments.iter().map(|s| s.ident.to_string()).collect();
                segs.len() >= 2 && segs[segs.len() - 2] == "AccessScope" && segs[segs.len() - 1] == "ReadWrite"
            }
            syn::Expr::Paren(p) => is_rw(&p.expr),
            syn::Expr::Reference(r) => is_rw(&r.expr),
            _ => false,
        }
    }
    impl<'ast> Visit<'ast> for V {
        fn visit_item_mod(&mut self, m: &'ast syn::ItemMod) {
            if is_cfg_test(&m.attrs) {
                return;
            }
            syn::visit::visit_item_mod(self, m);
        }
        fn visit_item_impl(&mut self, i: &'ast syn::ItemImpl) {
            if is_cfg_test(&i.attrs) {
                return;
            }
            syn::visit::visit_item_impl(self, i);
        }
        fn visit_item_fn(&mut self, f: &'ast syn::ItemFn) {
            if is_cfg_test(&f.attrs) {
                return;
            }
            self.fn_stack.push(f.sig.ident.to_string());
            syn::visit::visit_item_fn(self, f);
            self.fn_stack.pop();
        }
        fn visit_impl_item_fn(&mut self, f: &'ast syn::ImplItemFn) {
            if is_cfg_test(&f.attrs) {
                return;
            }
            self.fn_stack.push(f.sig.ident.to_string());
            syn::visit::visit_impl_item_fn(self, f);
            self.fn_stack.pop();
        }
        fn visit_trait_item_fn(&mut self, f: &'ast syn::TraitItemFn) {
            self.fn_stack.push(f.sig.ident.to_string());
            syn::visit::visit_trait_item_fn(self, f);
            self.fn_stack.pop();
        }
        fn visit_expr_binary(&mut self, b: &'ast syn::ExprBinary) {
            if matches!(b.op, syn::BinOp::Eq(_) | syn::BinOp::Ne(_)) {
                if !is_rw(&b.left) {
                    self.visit_expr(&b.left);
                }
                if !is_rw(&b.right) {
                    self.visit_expr(&b.right);
                }
                return;
            }
            syn::visit::visit_expr_binary(self, b);
        }
        fn visit_pat(&mut self, p: &'ast syn::Pat) {
            // `Pat::Path` is an `ExprPath`: a pattern matches on the scope, it does not produce it
            if !matches!(p, syn::Pat::Path(_)) {
                syn::visit::visit_pat(self, p);
            }
        }
        fn visit_expr_path(&mut self, p: &'ast syn::ExprPath) {
            if is_rw(&syn::Expr::Path(p.clone())) {
                self.hit();
            }
        }
        fn visit_expr_method_call(&mut self, m: &'ast syn::ExprMethodCall) {
            if m.method == "project_with_scope" {
                self.hit();
            }
            syn::visit::visit_expr_method_call(self, m);
        }
    }
    let root = std::path::Path::new(repo).join("server/lib/src");
    let mut files = vec![];
    rs_files(&root.join("idm"), &mut files)?;
    files.push(root.join("server/identity.rs"));
    let mut out: Vec<(String, String, usize)> = vec![];
    for p in files {
        let src = std::fs::read_to_string(&p).map_err(|e| format!("{}: {e}", p.display()))?;
        let ast = syn::parse_file(&src).map_err(|e| format!("{}: parse error: {e}", p.display()))?;
        let mut v = V { fn_stack: vec![], hits: vec![] };
        v.visit_file(&ast);
        let rel = p.strip_prefix(&root).unwrap_or(&p).display().to_string();
        let mut per: BTreeMap<String, usize> = BTreeMap::new();
        for h in v.hits {
            *per.entry(h).or_insert(0) += 1;
        }
        for (f, n) in per {
            out.push((rel.clone(), f, n));
        }
    }
    Ok(out)
}
