//! C11 translator item `session-ord`: regenerates `Generated/SessionOrd.lean` from
//!   value.rs            enum SessionState + `Ord for SessionState::cmp` match arms (+ check that
//!                       `partial_cmp` delegates to `cmp`), enum KeyStatus variant order (derived Ord)
//!   valueset/session.rs the replace condition of the two `repl_merge_valueset` loops, the trim guards
//!   valueset/key_internal.rs  replace condition + trim guard
//!   valueset/auditlogstring.rs AUDIT_LOG_STRING_CAPACITY, direction of `mergemaps!`
//!   constants/mod.rs    SESSION_MAXIMUM
//!   entry.rs            `take_left = cid_left > cid_right` and which side is `self` of the two
//!                       `repl_merge_valueset` calls in `merge_state`
//! Any shape not recognised is an `Err` (never a guess).
use crate::util::*;
use quote::ToTokens;
use syn::visit::Visit;

pub fn run(item: &str, repo: &str, out: &str) -> Option<Result<String, String>> {
    match item {
        "session-ord" => Some(session_ord(repo, out)),
        _ => None,
    }
}

fn lower_first(s: &str) -> String {
    let mut c = s.chars();
    match c.next() {
        Some(f) => f.to_lowercase().collect::<String>() + c.as_str(),
        None => String::new(),
    }
}

fn find_enum<'a>(file: &'a syn::File, name: &str) -> Result<&'a syn::ItemEnum, String> {
    for it in &file.items {
        if let syn::Item::Enum(e) = it {
            if e.ident == name {
                return Ok(e);
            }
        }
    }
    Err(format!("enum {name} not found at top level"))
}

fn derives(e: &syn::ItemEnum) -> Vec<String> {
    let mut v = vec![];
    for a in &e.attrs {
        if a.path().is_ident("derive") {
            let _ = a.parse_nested_meta(|m| {
                if let Some(s) = m.path.segments.last() {
                    v.push(s.ident.to_string());
                }
                Ok(())
            });
        }
    }
    v
}

/// One side of a `(self, other)` tuple pattern → Lean pattern.
fn lean_pat(p: &syn::Pat, enum_name: &str, variants: &[(String, usize)]) -> Result<String, String> {
    let vname = |path: &syn::Path| -> Result<(String, usize), String> {
        let segs: Vec<String> = path.segments.iter().map(|s| s.ident.to_string()).collect();
        if segs.len() != 2 || segs[0] != enum_name {
            return Err(format!("pattern path {} is not {enum_name}::Variant", segs.join("::")));
        }
        variants
            .iter()
            .find(|(n, _)| *n == segs[1])
            .cloned()
            .ok_or_else(|| format!("unknown variant {}", segs[1]))
    };
    match p {
        syn::Pat::Wild(_) => Ok("_".into()),
        syn::Pat::Path(pp) => {
            let (n, ar) = vname(&pp.path)?;
            if ar != 0 {
                return Err(format!("variant {n} used without fields"));
            }
            Ok(format!(".{}", lower_first(&n)))
        }
        syn::Pat::Ident(pi) if pi.subpat.is_none() => {
            // a bare identifier would be a catch-all binding
            Err(format!("binding pattern `{}` not supported", pi.ident))
        }
        syn::Pat::TupleStruct(ts) => {
            let (n, ar) = vname(&ts.path)?;
            if ts.elems.len() != ar {
                return Err(format!("variant {n}: {} fields in pattern, {ar} declared", ts.elems.len()));
            }
            let mut s = format!(".{}", lower_first(&n));
            for el in &ts.elems {
                match el {
                    syn::Pat::Wild(_) => s += " _",
                    syn::Pat::Ident(pi) if pi.subpat.is_none() => s += &format!(" {}", pi.ident),
                    o => return Err(format!("unsupported field pattern `{}`", o.to_token_stream())),
                }
            }
            Ok(s)
        }
        o => Err(format!("unsupported pattern `{}`", o.to_token_stream())),
    }
}

/// Arm body → Lean `Ordering` expression.
fn lean_ordering(e: &syn::Expr) -> Result<String, String> {
    match e {
        syn::Expr::Block(b) if b.block.stmts.len() == 1 => match &b.block.stmts[0] {
            syn::Stmt::Expr(inner, None) => lean_ordering(inner),
            o => Err(format!("unsupported arm body `{}`", o.to_token_stream())),
        },
        syn::Expr::Path(_) => {
            let p = path_string(e).unwrap_or_default();
            match p.as_str() {
                "Ordering::Greater" => Ok(".gt".into()),
                "Ordering::Less" => Ok(".lt".into()),
                "Ordering::Equal" => Ok(".eq".into()),
                _ => Err(format!("unsupported arm value `{p}`")),
            }
        }
        syn::Expr::MethodCall(m) if m.method == "cmp" && m.args.len() == 1 => {
            let l = path_string(&m.receiver).ok_or("cmp receiver is not a name")?;
            let r = path_string(&m.args[0]).ok_or("cmp argument is not a name")?;
            if l.contains('.') || l.contains(':') || r.contains('.') || r.contains(':') {
                return Err(format!("cmp operands `{l}`/`{r}` are not plain bindings"));
            }
            Ok(format!("compare {l} {r}"))
        }
        syn::Expr::MethodCall(m) if m.method == "reverse" && m.args.is_empty() => {
            Ok(format!("({}).swap", lean_ordering(&m.receiver)?))
        }
        o => Err(format!("unsupported arm body `{}`", o.to_token_stream())),
    }
}

/// `a OP b` where a,b are the given paths (either order) → Lean Bool over `cmpf older newer`
/// style; returns (op, swapped) with swapped = operands appear as (b, a).
fn binary_on(e: &syn::Expr, a: &str, b: &str) -> Result<(String, bool), String> {
    let e = match e {
        syn::Expr::Paren(p) => &p.expr,
        o => o,
    };
    if let syn::Expr::Binary(bin) = e {
        let l = path_string(&bin.left).unwrap_or_default();
        let r = path_string(&bin.right).unwrap_or_default();
        let op = match bin.op {
            syn::BinOp::Lt(_) => "lt",
            syn::BinOp::Le(_) => "le",
            syn::BinOp::Gt(_) => "gt",
            syn::BinOp::Ge(_) => "ge",
            _ => return Err(format!("unsupported operator in `{}`", e.to_token_stream())),
        };
        if l == a && r == b {
            return Ok((op.into(), false));
        }
        if l == b && r == a {
            return Ok((op.into(), true));
        }
        return Err(format!("operands `{l}`, `{r}` are not `{a}`, `{b}`"));
    }
    Err(format!("`{}` is not a comparison", e.to_token_stream()))
}

/// Bool expression for `x OP y` over an `Ordering`-valued `c` = cmp x y.
fn ord_test(op: &str, c: &str) -> String {
    match op {
        "gt" => format!("({c} == .gt)"),
        "ge" => format!("({c} != .lt)"),
        "lt" => format!("({c} == .lt)"),
        _ => format!("({c} != .gt)"),
    }
}

fn nat_test(op: &str, x: &str, y: &str) -> String {
    match op {
        "gt" => format!("decide ({x} > {y})"),
        "ge" => format!("decide ({x} ≥ {y})"),
        "lt" => format!("decide ({x} < {y})"),
        _ => format!("decide ({x} ≤ {y})"),
    }
}

/// Non-`let` `if` conditions of a function.
fn plain_ifs(f: &FoundFn) -> Vec<syn::Expr> {
    if_conditions(&f.block).into_iter().filter(|c| !matches!(c, syn::Expr::Let(_))).collect()
}

/// All guarded match arms `(pattern, guard)` of a function, source order.
fn guarded_arms(f: &FoundFn) -> Vec<(String, syn::Expr, String)> {
    struct V(Vec<(String, syn::Expr, String)>);
    impl<'ast> Visit<'ast> for V {
        fn visit_arm(&mut self, a: &'ast syn::Arm) {
            if let Some((_, g)) = &a.guard {
                self.0.push((
                    a.pat.to_token_stream().to_string(),
                    (**g).clone(),
                    a.body.to_token_stream().to_string(),
                ));
            }
            syn::visit::visit_arm(self, a);
        }
    }
    let mut v = V(vec![]);
    v.visit_block(&f.block);
    v.0
}

/// The replace test of a `repl_merge_valueset` loop: exactly one plain `if`,
/// `v_other.<field> OP v_self.<field>`; rendered over (older, newer).
fn replace_cond(ast: &syn::File, ty: &str, field: &str) -> Result<(String, bool, String), String> {
    let f = find_fn(ast, &format!("ValueSetT@{ty}::repl_merge_valueset"))?;
    let ifs = plain_ifs(&f);
    if ifs.len() != 1 {
        return Err(format!(
            "{ty}::repl_merge_valueset: expected exactly one comparison `if`, found {}: {:?}",
            ifs.len(),
            ifs.iter().map(|c| c.to_token_stream().to_string()).collect::<Vec<_>>()
        ));
    }
    let (op, sw) = binary_on(&ifs[0], &format!("v_other.{field}"), &format!("v_self.{field}"))
        .map_err(|e| format!("{ty}::repl_merge_valueset: {e}"))?;
    // shape checks on the rest of the loop: iterates the *older* map, clones self.map, calls trim
    let body = f.block.to_token_stream().to_string();
    for needle in ["self . map . clone ()", "b . iter ()", "vs . trim (trim_cid)", "map . insert ("] {
        if !body.contains(needle) {
            return Err(format!("{ty}::repl_merge_valueset: expected `{needle}` in the body"));
        }
    }
    Ok((op, sw, ifs[0].to_token_stream().to_string()))
}

fn session_ord(repo: &str, out: &str) -> Result<String, String> {
    let value = parse_file(repo, "server/lib/src/value.rs")?;
    // ---- enum SessionState
    let en = find_enum(&value, "SessionState")?;
    let mut variants: Vec<(String, usize)> = vec![];
    for v in &en.variants {
        let ar = match &v.fields {
            syn::Fields::Unit => 0,
            syn::Fields::Unnamed(u) => u.unnamed.len(),
            syn::Fields::Named(_) => return Err("SessionState: named fields not supported".into()),
        };
        if ar > 1 {
            return Err(format!("SessionState::{}: more than one field", v.ident));
        }
        variants.push((v.ident.to_string(), ar));
    }
    let d = derives(en);
    if d.iter().any(|x| x == "PartialOrd" || x == "Ord") {
        return Err("SessionState derives an ordering; expected the hand-written Ord impl".into());
    }
    if !d.iter().any(|x| x == "PartialEq") {
        return Err("SessionState no longer derives PartialEq".into());
    }
    // ---- partial_cmp delegates to cmp
    let pc = find_fn(&value, "PartialOrd@SessionState::partial_cmp")?;
    let pcs = pc.block.to_token_stream().to_string();
    if pcs != "{ Some (self . cmp (other)) }" {
        return Err(format!("SessionState::partial_cmp is not `Some(self.cmp(other))`: {pcs}"));
    }
    // no overridden gt/lt/ge/le
    for m in ["gt", "lt", "ge", "le"] {
        if find_fn(&value, &format!("PartialOrd@SessionState::{m}")).is_ok() {
            return Err(format!("SessionState overrides PartialOrd::{m}"));
        }
    }
    // ---- Ord::cmp arms
    let cmpf = find_fn(&value, "Ord@SessionState::cmp")?;
    let mexpr = match cmpf.block.stmts.last() {
        Some(syn::Stmt::Expr(syn::Expr::Match(m), None)) if cmpf.block.stmts.len() == 1 => m.clone(),
        _ => return Err("SessionState::cmp: body is not a single match".into()),
    };
    if mexpr.expr.to_token_stream().to_string() != "(self , other)" {
        return Err(format!(
            "SessionState::cmp: scrutinee is `{}`, expected `(self, other)`",
            mexpr.expr.to_token_stream()
        ));
    }
    let mut arms = vec![];
    for a in &mexpr.arms {
        if a.guard.is_some() {
            return Err("SessionState::cmp: guarded arm not supported".into());
        }
        let (l, r) = match &a.pat {
            syn::Pat::Tuple(t) if t.elems.len() == 2 => (&t.elems[0], &t.elems[1]),
            o => return Err(format!("SessionState::cmp: arm pattern `{}` is not a pair", o.to_token_stream())),
        };
        let lp = lean_pat(l, "SessionState", &variants)?;
        let rp = lean_pat(r, "SessionState", &variants)?;
        let body = lean_ordering(&a.body)?;
        arms.push((a.pat.to_token_stream().to_string(), format!("  | {lp}, {rp} => {body}")));
    }
    // ---- KeyStatus
    let ks = find_enum(&value, "KeyStatus")?;
    let kd = derives(ks);
    if !(kd.iter().any(|x| x == "PartialOrd") && kd.iter().any(|x| x == "Ord")) {
        return Err("KeyStatus does not derive PartialOrd+Ord (variant order is no longer its order)".into());
    }
    for m in ["cmp", "partial_cmp"] {
        if find_fn(&value, &format!("KeyStatus::{m}")).is_ok() {
            return Err(format!("KeyStatus has a hand-written {m}"));
        }
    }
    let mut kvars = vec![];
    for v in &ks.variants {
        if !matches!(v.fields, syn::Fields::Unit) || v.discriminant.is_some() {
            return Err("KeyStatus: only plain unit variants supported".into());
        }
        kvars.push(v.ident.to_string());
    }

    // ---- session.rs
    let sess = parse_file(repo, "server/lib/src/valueset/session.rs")?;
    let (s_op, s_sw, s_src) = replace_cond(&sess, "ValueSetSession", "state")?;
    let (o_op, o_sw, o_src) = replace_cond(&sess, "ValueSetOauth2Session", "state")?;
    let trim_guard = |ty: &str| -> Result<(String, bool, String), String> {
        let f = find_fn(&sess, &format!("ValueSetT@{ty}::trim"))?;
        let g = guarded_arms(&f);
        if g.len() != 1 {
            return Err(format!("{ty}::trim: expected exactly one guarded arm, found {}", g.len()));
        }
        if g[0].0 != "SessionState :: RevokedAt (cid)" {
            return Err(format!("{ty}::trim: guarded arm pattern is `{}`", g[0].0));
        }
        let body = f.block.to_token_stream().to_string();
        if g[0].2 != "{ false }" || !body.contains("_ => true") || !body.contains("self . map . retain") {
            return Err(format!("{ty}::trim: retain closure shape changed"));
        }
        let (op, sw) = binary_on(&g[0].1, "cid", "trim_cid").map_err(|e| format!("{ty}::trim: {e}"))?;
        Ok((op, sw, g[0].1.to_token_stream().to_string()))
    };
    let (st_op, st_sw, st_src) = trim_guard("ValueSetSession")?;
    let (ot_op, ot_sw, ot_src) = trim_guard("ValueSetOauth2Session")?;
    // force trim limit
    let strim = find_fn(&sess, "ValueSetT@ValueSetSession::trim")?;
    let lim_ifs = plain_ifs(&strim);
    if lim_ifs.len() != 1 || lim_ifs[0].to_token_stream().to_string() != "self . map . len () > SESSION_MAXIMUM" {
        return Err(format!(
            "ValueSetSession::trim: limit test is not `self.map.len() > SESSION_MAXIMUM`: {:?}",
            lim_ifs.iter().map(|c| c.to_token_stream().to_string()).collect::<Vec<_>>()
        ));
    }
    let otrim = find_fn(&sess, "ValueSetT@ValueSetOauth2Session::trim")?;
    if !plain_ifs(&otrim).is_empty() {
        return Err("ValueSetOauth2Session::trim gained an `if` (limit?)".into());
    }
    let consts = parse_file(repo, "server/lib/src/constants/mod.rs")?;
    let smax = find_const(&consts, "SESSION_MAXIMUM").ok_or("SESSION_MAXIMUM not found")?;
    let smax = eval_int(&smax, &|_| None)?;

    // ---- key_internal.rs
    let key = parse_file(repo, "server/lib/src/valueset/key_internal.rs")?;
    let (k_op, k_sw, k_src) = replace_cond(&key, "ValueSetKeyInternal", "status")?;
    let kt = find_fn(&key, "ValueSetT@ValueSetKeyInternal::trim")?;
    let kg = guarded_arms(&kt);
    if kg.len() != 1 || kg[0].0 != "KeyStatus :: Revoked" {
        return Err(format!(
            "ValueSetKeyInternal::trim: expected one guarded arm `KeyStatus::Revoked`, found {:?}",
            kg.iter().map(|g| g.0.clone()).collect::<Vec<_>>()
        ));
    }
    let ktb = kt.block.to_token_stream().to_string();
    if kg[0].2 != "{ false }" || !ktb.contains("_ => true") || !ktb.contains("match & key_internal . status") {
        return Err("ValueSetKeyInternal::trim: retain closure shape changed".into());
    }
    let (kt_op, kt_sw) = binary_on(&kg[0].1, "key_internal.status_cid", "trim_cid")
        .map_err(|e| format!("ValueSetKeyInternal::trim: {e}"))?;
    let kt_src = kg[0].1.to_token_stream().to_string();

    // ---- auditlogstring.rs
    let audit = parse_file(repo, "server/lib/src/valueset/auditlogstring.rs")?;
    let cap = find_const(&audit, "AUDIT_LOG_STRING_CAPACITY").ok_or("AUDIT_LOG_STRING_CAPACITY not found")?;
    let cap = eval_int(&cap, &|_| None)?;
    let am = find_fn(&audit, "ValueSetT@ValueSetAuditLogString::repl_merge_valueset")?;
    let ams = am.block.to_token_stream().to_string();
    // base = older map, newer inserted over it, then remove_oldest
    for needle in ["older . as_audit_log_string () . cloned ()", "mergemaps ! (map , self . map)", "new_vs . remove_oldest ()"] {
        if !ams.contains(needle) {
            return Err(format!("ValueSetAuditLogString::repl_merge_valueset: expected `{needle}`"));
        }
    }
    let ro = find_fn(&audit, "ValueSetAuditLogString::remove_oldest")?;
    let ros = ro.block.to_token_stream().to_string();
    if ros != "{ while self . map . len () > AUDIT_LOG_STRING_CAPACITY { self . map . pop_first () ; } }" {
        return Err(format!("ValueSetAuditLogString::remove_oldest shape changed: {ros}"));
    }
    // mergemaps! overwrites (insert, no contains_key test)
    let macros = std::fs::read_to_string(format!("{repo}/server/lib/src/macros.rs")).map_err(|e| e.to_string())?;
    let mm = macros
        .split("macro_rules! mergemaps")
        .nth(1)
        .ok_or("mergemaps! not found in macros.rs")?;
    let mm = &mm[..mm.find("macro_rules!").unwrap_or(mm.len())];
    let code: String = mm.lines().filter(|l| !l.trim_start().starts_with("//")).collect::<Vec<_>>().join("\n");
    if !code.contains("$a.insert(k.clone(), v.clone());") || code.contains("contains_key") {
        return Err("mergemaps! no longer inserts every (k, v) of $b into $a unconditionally".into());
    }

    // ---- entry.rs merge_state
    let entry = parse_file(repo, "server/lib/src/entry.rs")?;
    let ms = find_fn(&entry, "merge_state")?;
    struct L(Vec<(String, syn::Expr)>, Vec<(String, String)>);
    impl<'ast> Visit<'ast> for L {
        fn visit_local(&mut self, l: &'ast syn::Local) {
            if let (syn::Pat::Ident(pi), Some(init)) = (&l.pat, &l.init) {
                self.0.push((pi.ident.to_string(), (*init.expr).clone()));
            }
            syn::visit::visit_local(self, l);
        }
        fn visit_expr_method_call(&mut self, m: &'ast syn::ExprMethodCall) {
            if m.method == "repl_merge_valueset" && m.args.len() == 2 {
                self.1.push((
                    m.receiver.to_token_stream().to_string(),
                    m.args[0].to_token_stream().to_string(),
                ));
            }
            syn::visit::visit_expr_method_call(self, m);
        }
    }
    let mut l = L(vec![], vec![]);
    l.visit_block(&ms.block);
    let tl: Vec<_> = l.0.iter().filter(|(n, _)| n == "take_left").collect();
    if tl.len() != 1 {
        return Err(format!("merge_state: expected one `let take_left`, found {}", tl.len()));
    }
    let (tl_op, tl_sw) = binary_on(&tl[0].1, "cid_left", "cid_right").map_err(|e| format!("merge_state: {e}"))?;
    let tl_src = tl[0].1.to_token_stream().to_string();
    let want = vec![
        ("vs_left".to_string(), "vs_right".to_string()),
        ("vs_right".to_string(), "vs_left".to_string()),
    ];
    if l.1 != want {
        return Err(format!("merge_state: repl_merge_valueset calls are {:?}, expected {:?}", l.1, want));
    }
    // the first call sits in the `if take_left` arm
    let guards = guarded_arms(&ms);
    let first = guards
        .iter()
        .find(|(p, _, _)| p == "(Some (vs_left) , Some (vs_right))")
        .ok_or("merge_state: arm `(Some(vs_left), Some(vs_right)) if …` not found")?;
    if first.1.to_token_stream().to_string() != "take_left" {
        return Err(format!("merge_state: guard of the both-present arm is `{}`", first.1.to_token_stream()));
    }

    // ---- render
    let mut b = String::from("namespace Kanidm.Gen.SessionOrd\n\n");
    b += "/-- `enum SessionState` (value.rs); `Cid` and `OffsetDateTime` payloads as `Nat` (order-preserving). -/\ninductive SState where\n";
    for (n, ar) in &variants {
        if *ar == 1 {
            b += &format!("  | {} (a : Nat)\n", lower_first(n));
        } else {
            b += &format!("  | {}\n", lower_first(n));
        }
    }
    b += "  deriving DecidableEq, Repr\n\n";
    b += "/-- `impl Ord for SessionState { fn cmp }`, arm by arm in source order\n";
    for (src, _) in &arms {
        b += &format!("    `{src}`\n");
    }
    b += "(`partial_cmp` checked to be `Some(self.cmp(other))`). -/\ndef SState.cmp (self other : SState) : Ordering :=\n  match self, other with\n";
    for (_, a) in &arms {
        b += a;
        b += "\n";
    }
    b += "\n/-- `enum KeyStatus` (derives PartialOrd, Ord: declaration order is the order). -/\ninductive KeyStatus where\n";
    for k in &kvars {
        b += &format!("  | {}\n", lower_first(k));
    }
    b += "  deriving DecidableEq, Repr\n\ndef KeyStatus.rank : KeyStatus → Nat\n";
    for (i, k) in kvars.iter().enumerate() {
        b += &format!("  | .{} => {i}\n", lower_first(k));
    }
    let state_test = |op: &str, sw: bool| -> String {
        if sw { ord_test(op, "SState.cmp newer older") } else { ord_test(op, "SState.cmp older newer") }
    };
    b += &format!(
        "\n/-- ValueSetSession::repl_merge_valueset: `{s_src}` (v_other = older, v_self = newer). -/\ndef sessReplace (older newer : SState) : Bool := {}\n",
        state_test(&s_op, s_sw)
    );
    b += &format!(
        "/-- ValueSetOauth2Session::repl_merge_valueset: `{o_src}`. -/\ndef o2Replace (older newer : SState) : Bool := {}\n",
        state_test(&o_op, o_sw)
    );
    let nt = |op: &str, sw: bool, x: &str, y: &str| if sw { nat_test(op, y, x) } else { nat_test(op, x, y) };
    b += &format!(
        "/-- ValueSetSession::trim: `SessionState::RevokedAt(cid) if {st_src}` ⇒ removed. -/\ndef sessTrim (cid trimCid : Nat) : Bool := {}\n",
        nt(&st_op, st_sw, "cid", "trimCid")
    );
    b += &format!(
        "/-- ValueSetOauth2Session::trim: `SessionState::RevokedAt(cid) if {ot_src}` ⇒ removed. -/\ndef o2Trim (cid trimCid : Nat) : Bool := {}\n",
        nt(&ot_op, ot_sw, "cid", "trimCid")
    );
    b += &format!(
        "/-- ValueSetKeyInternal::repl_merge_valueset: `{k_src}`. -/\ndef keyReplace (older newer : KeyStatus) : Bool := {}\n",
        nt(&k_op, k_sw, "older.rank", "newer.rank")
    );
    b += &format!(
        "/-- ValueSetKeyInternal::trim: `KeyStatus::Revoked if {kt_src}` ⇒ removed. -/\ndef keyTrim (statusCid trimCid : Nat) : Bool := {}\n",
        nt(&kt_op, kt_sw, "statusCid", "trimCid")
    );
    b += &format!(
        "/-- Entry::merge_state: `let take_left = {tl_src}`; left is `self` of repl_merge_valueset iff take_left. -/\ndef takeLeft (cidLeft cidRight : Nat) : Bool := {}\n",
        nt(&tl_op, tl_sw, "cidLeft", "cidRight")
    );
    b += &format!("/-- constants/mod.rs SESSION_MAXIMUM (`self.map.len() > SESSION_MAXIMUM` ⇒ force trim). -/\ndef sessionMaximum : Nat := {smax}\n");
    b += &format!("/-- auditlogstring.rs AUDIT_LOG_STRING_CAPACITY (`while len > CAP pop_first`). -/\ndef auditCapacity : Nat := {cap}\n");
    b += "\nend Kanidm.Gen.SessionOrd\n";
    write_generated(
        out,
        "SessionOrd",
        "server/lib/src/{value.rs, valueset/session.rs, valueset/key_internal.rs, valueset/auditlogstring.rs, entry.rs, constants/mod.rs, macros.rs}",
        &b,
    )?;
    Ok(format!("SessionOrd: {} cmp arms, {} key statuses, 7 operators, 2 constants", arms.len(), kvars.len()))
}
