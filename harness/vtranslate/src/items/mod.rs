//! Registry of translator items. One file per property (`items/cXX.rs`), each exposing
//! `pub fn run(item, repo, out) -> Option<Result<String, String>>` (None = not my item).
//! To add items for a property: create `items/cXX.rs`, add `mod cXX;` and one line in `run`.
use std::collections::BTreeMap;

mod c10;

pub fn run(item: &str, repo: &str, out: &str) -> Result<String, String> {
    let handlers: &[fn(&str, &str, &str) -> Option<Result<String, String>>] = &[
        c10::run,
    ];
    for h in handlers {
        if let Some(r) = h(item, repo, out) {
            return r;
        }
    }
    Err(format!("unknown item {item}"))
}

pub fn vars(pairs: &[(&str, &str)]) -> BTreeMap<String, String> {
    pairs.iter().map(|(a, b)| (a.to_string(), b.to_string())).collect()
}
