//! Registry of translator items. One file per property (`items/cXX.rs`), each exposing
//! `pub fn run(item, repo, out) -> Option<Result<String, String>>` (None = not my item).
//! To add items for a property: create `items/cXX.rs`, add `mod cXX;` and one line in `run`.
use std::collections::BTreeMap;

mod c01;
mod c02;
mod c04;
mod c03;
mod c05;
mod c07;
mod c08;
mod c10;
mod c11;
mod c12;
mod c13;
mod c14;
mod c15;
mod c16;
mod c17;
mod c18;
mod c19;
mod c20;
mod c21;
mod c22;
mod c23;
mod c24;
mod c25;
mod c26;
mod c27;
mod c28;
mod c29;
mod c30;
mod c31;
mod c32;
mod c33;
mod c34;
mod c35;
mod c36;
mod c37;
mod c38;
mod c39;
mod c40;
mod c41;
mod c42;
mod c43;
mod c44;
mod c45;
mod c46;
mod c47;
mod c48;
mod c49;
mod c50;

pub fn run(item: &str, repo: &str, out: &str) -> Result<String, String> {
    let handlers: &[fn(&str, &str, &str) -> Option<Result<String, String>>] = &[
        c01::run,
        c02::run,
        c04::run,
        c03::run,
        c05::run,
        c07::run,
        c08::run,
        c10::run,
        c11::run,
        c12::run,
        c13::run,
        c14::run,
        c15::run,
        c16::run,
        c17::run,
        c18::run,
        c19::run,
        c20::run,
        c21::run,
        c22::run,
        c23::run,
        c24::run,
        c25::run,
        c26::run,
        c27::run,
        c28::run,
        c29::run,
        c30::run,
        c31::run,
        c32::run,
        c33::run,
        c34::run,
        c35::run,
        c36::run,
        c37::run,
        c38::run,
        c39::run,
        c40::run,
        c41::run,
        c42::run,
        c43::run,
        c44::run,
        c45::run,
        c46::run,
        c47::run,
        c48::run,
        c49::run,
        c50::run,
    ];
    for h in handlers {
        if let Some(r) = h(item, repo, out) {
            return r;
        }
    }
    Err(format!("unknown item {item}"))
}

pub fn vars(pairs: &[(&str, &str)]) -> BTreeMap<String, String> {
    pairs.iter().map(|(a, b)| (a.to_string(), b.to_string())).collect()
}
