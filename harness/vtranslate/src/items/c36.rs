//! C36 translator item `session-plugin-ops` → `Generated/SessionPluginOps.lean`.
//!
//! Re-reads from the current source everything the "credential removed ⇒ sessions revoked" /
//! "orphaned OAuth2 session unusable after grace" decisions turn on, and checks the fixed shape
//! around it.  Anything unrecognised is an `Err`.
//!
//!  * proto/src/constants.rs     `AUTH_TOKEN_GRACE_WINDOW`
//!  * plugins/session.rs         `SessionConsistency::modify_inner`: the `cred_ids` chain (which
//!                               getter on which attribute, in order), the order of the three
//!                               sweeps and which attribute each `remove_avas` hits, every match
//!                               arm's pattern/guard/result, the parent test leaf by leaf, the grace
//!                               comparison; `pre_modify`/`pre_batch_modify` call it
//!  * plugins/mod.rs             `run_pre_modify` / `run_pre_batch_modify` run the plugin, after
//!                               `CredImport`
//!  * valueset/session.rs        `ValueSetSession::{insert_checked, remove}`,
//!                               `ValueSetOauth2Session::{insert_checked, remove}`
//!  * idm/server.rs              `check_oauth2_account_uuid_valid`: the three lookups, the grace
//!                               comparison, the `session_state_live` closure arm by arm and its two uses, every leaf
use super::vars;
use crate::util::*;
use quote::ToTokens;
use syn::visit::Visit;

pub fn run(item: &str, repo: &str, out: &str) -> Option<Result<String, String>> {
    match item {
        "session-plugin-ops" => Some(session_plugin_ops(repo, out)),
        _ => None,
    }
}

fn toks<T: ToTokens>(t: &T) -> String {
    t.to_token_stream().to_string()
}
fn nsp<T: ToTokens>(t: &T) -> String {
    toks(t).chars().filter(|c| !c.is_whitespace()).collect()
}
fn lb(b: bool) -> &'static str {
    if b { "true" } else { "false" }
}

const LOG_MACROS: &[&str] = &[
    "error", "warn", "info", "debug", "trace", "admin_error", "admin_warn", "admin_info", "admin_debug", "security_info",
    "security_error", "security_debug", "request_error",
];

fn is_log(s: &syn::Stmt) -> bool {
    match s {
        syn::Stmt::Macro(m) => m.mac.path.segments.last().map(|x| LOG_MACROS.contains(&x.ident.to_string().as_str())).unwrap_or(false),
        _ => false,
    }
}

/// `{ <logging>* <tail> }` → the tail expression.
fn block_tail_expr(b: &syn::Block) -> Result<&syn::Expr, String> {
    let n = b.stmts.len();
    if n == 0 {
        return Err("empty block".into());
    }
    for s in &b.stmts[..n - 1] {
        if !is_log(s) {
            return Err(format!("unexpected statement `{}` before the block's result", toks(s)));
        }
    }
    match &b.stmts[n - 1] {
        syn::Stmt::Expr(e, None) => Ok(e),
        o => Err(format!("block result `{}` is not an expression", toks(o))),
    }
}

fn expr_block_tail(e: &syn::Expr) -> Result<&syn::Expr, String> {
    match e {
        syn::Expr::Block(b) if b.label.is_none() => block_tail_expr(&b.block),
        o => Ok(o),
    }
}

/// `Some(PartialValue::Refer(*<id>))` ↦ true (selected for removal), `None` ↦ false.
fn selected(e: &syn::Expr) -> Result<bool, String> {
    let e = expr_block_tail(e)?;
    let s = nsp(e);
    if s == "None" {
        Ok(false)
    } else if s.starts_with("Some(PartialValue::Refer(*") && s.ends_with("session_id))") {
        Ok(true)
    } else {
        Err(format!("`{}` is neither `None` nor `Some(PartialValue::Refer(*<session id>))`", toks(e)))
    }
}

fn expr_bool(e: &syn::Expr) -> Result<bool, String> {
    match expr_block_tail(e)? {
        syn::Expr::Lit(l) => match &l.lit {
            syn::Lit::Bool(b) => Ok(b.value),
            _ => Err(format!("`{}` is not a boolean literal", toks(e))),
        },
        o => Err(format!("`{}` is not a boolean literal", toks(o))),
    }
}

fn is_cmp(e: &syn::Expr) -> bool {
    use syn::BinOp::*;
    matches!(e, syn::Expr::Binary(b) if matches!(b.op, Lt(_) | Le(_) | Gt(_) | Ge(_) | Eq(_) | Ne(_)))
}

fn ifs(block: &syn::Block) -> Vec<syn::ExprIf> {
    struct V(Vec<syn::ExprIf>);
    impl<'ast> Visit<'ast> for V {
        fn visit_expr_if(&mut self, i: &'ast syn::ExprIf) {
            self.0.push(i.clone());
            syn::visit::visit_expr_if(self, i);
        }
    }
    let mut v = V(vec![]);
    v.visit_block(block);
    v.0
}

fn matches_on(e: &syn::Expr, scrutinee: &str) -> Vec<syn::ExprMatch> {
    struct V<'a>(&'a str, Vec<syn::ExprMatch>);
    impl<'ast, 'a> Visit<'ast> for V<'a> {
        fn visit_expr_match(&mut self, m: &'ast syn::ExprMatch) {
            if nsp(&*m.expr) == self.0 {
                self.1.push(m.clone());
            }
            syn::visit::visit_expr_match(self, m);
        }
    }
    let mut v = V(scrutinee, vec![]);
    v.visit_expr(e);
    v.1
}

fn find_local(block: &syn::Block, name: &str) -> Result<syn::Expr, String> {
    struct V<'n>(&'n str, Vec<syn::Expr>);
    impl<'ast, 'n> Visit<'ast> for V<'n> {
        fn visit_local(&mut self, l: &'ast syn::Local) {
            if let syn::Pat::Ident(i) = &l.pat {
                if i.ident == self.0 {
                    if let Some(init) = &l.init {
                        self.1.push((*init.expr).clone());
                    }
                }
            }
            syn::visit::visit_local(self, l);
        }
    }
    let mut v = V(name, vec![]);
    v.visit_block(block);
    match v.1.len() {
        1 => Ok(v.1.remove(0)),
        0 => Err(format!("no `let {name} = ..`")),
        n => Err(format!("`let {name} = ..` occurs {n} times")),
    }
}

/// `!matches!(<x>.state, SessionState::RevokedAt(_))` ↦ "(!v)", without the `!` ↦ "v".
fn not_revoked(e: &syn::Expr, subject: &str, v: &str) -> Result<String, String> {
    let want = format!("matches!({subject}.state,SessionState::RevokedAt(_))");
    let s = nsp(e);
    if s == format!("!{want}") {
        Ok(format!("(!{v})"))
    } else if s == want {
        Ok(v.to_string())
    } else {
        Err(format!("`{}` is not `[!]matches!({subject}.state, SessionState::RevokedAt(_))`", toks(e)))
    }
}

fn local_name(s: &syn::Stmt) -> Option<String> {
    match s {
        syn::Stmt::Local(l) => match &l.pat {
            syn::Pat::Ident(i) => Some(i.ident.to_string()),
            syn::Pat::Type(t) => match &*t.pat {
                syn::Pat::Ident(i) => Some(i.ident.to_string()),
                _ => None,
            },
            _ => None,
        },
        _ => None,
    }
}

fn local_init(s: &syn::Stmt) -> Option<syn::Expr> {
    match s {
        syn::Stmt::Local(l) => l.init.as_ref().map(|i| (*i.expr).clone()),
        _ => None,
    }
}

struct PluginOps {
    sources: Vec<&'static str>,
    passes: Vec<&'static str>,
    cred_revoked_arm: bool,
    cred_live_src: String,
    cred_live: String,
    uat_guard_src: String,
    uat_guard: String,
    uat_expired_arm: bool,
    uat_other_arm: bool,
    o2_guard_src: String,
    o2_guard: String,
    o2_expired_arm: bool,
    o2_revoked_arm: bool,
    parent_found_src: String,
    parent_found: String,
    parent_not_found: bool,
    parent_no_id: bool,
    parent_no_map: bool,
    parent_valid_arm: bool,
    orphan_src: String,
    orphan: String,
}

fn plugin(repo: &str) -> Result<PluginOps, String> {
    let rel = "server/lib/src/plugins/session.rs";
    let ast = parse_file(repo, rel)?;
    for name in ["pre_modify", "pre_batch_modify"] {
        let f = find_fn(&ast, &format!("Plugin@SessionConsistency::{name}"))?;
        if nsp(&f.block) != "{Self::modify_inner(qs,cand)}" {
            return Err(format!("SessionConsistency::{name} is `{}`, expected `Self::modify_inner(qs, cand)`", toks(&f.block)));
        }
    }
    let f = find_fn(&ast, "SessionConsistency::modify_inner")?;
    let curtime = find_local(&f.block, "curtime")?;
    if nsp(&curtime) != "qs.get_curtime()" {
        return Err(format!("modify_inner: `curtime` is `{}`", toks(&curtime)));
    }
    let codt = find_local(&f.block, "curtime_odt")?;
    if nsp(&codt) != "OffsetDateTime::UNIX_EPOCH+curtime" {
        return Err(format!("modify_inner: `curtime_odt` is `{}`", toks(&codt)));
    }
    // the per-entry closure of `cand.iter_mut().try_for_each(|entry| { .. })`
    struct C(Vec<syn::ExprClosure>);
    impl<'ast> Visit<'ast> for C {
        fn visit_expr_method_call(&mut self, m: &'ast syn::ExprMethodCall) {
            if m.method == "try_for_each" && nsp(&*m.receiver) == "cand.iter_mut()" {
                if let Some(syn::Expr::Closure(c)) = m.args.first() {
                    self.0.push(c.clone());
                }
            }
            syn::visit::visit_expr_method_call(self, m);
        }
    }
    let mut c = C(vec![]);
    c.visit_block(&f.block);
    if c.0.len() != 1 {
        return Err(format!("modify_inner: expected one `cand.iter_mut().try_for_each(|entry| ..)`, found {}", c.0.len()));
    }
    let cl = &c.0[0];
    if cl.inputs.len() != 1 || nsp(&cl.inputs[0]) != "entry" {
        return Err("modify_inner: the per-entry closure must take `entry`".into());
    }
    let syn::Expr::Block(body) = &*cl.body else { return Err("modify_inner: closure body is not a block".into()) };
    let stmts: Vec<&syn::Stmt> = body.block.stmts.iter().filter(|s| !is_log(s)).collect();
    // statement shape: let cred_ids; (let <set>; if let Some(<set>) = <set>.as_ref() { entry.remove_avas(<attr>, <set>); })*; Ok(())
    if stmts.len() < 2 || local_name(stmts[0]).as_deref() != Some("cred_ids") {
        return Err("modify_inner: the closure must start with `let cred_ids`".into());
    }
    if nsp(stmts[stmts.len() - 1]) != "Ok(())" {
        return Err(format!("modify_inner: the closure must end with `Ok(())`, found `{}`", toks(stmts[stmts.len() - 1])));
    }
    let mid = &stmts[1..stmts.len() - 1];
    if mid.len() % 2 != 0 {
        return Err(format!("modify_inner: expected (let <set>; if let .. remove_avas ..) pairs, found {} statements", mid.len()));
    }
    let known: &[(&str, &str, &'static str)] = &[
        ("invalidate", "UserAuthTokenSession", "credGone"),
        ("expired", "UserAuthTokenSession", "uatExpired"),
        ("oauth2_remove", "OAuth2Session", "oauth2"),
    ];
    let mut passes = vec![];
    let mut inits: std::collections::BTreeMap<&'static str, syn::Expr> = Default::default();
    for pair in mid.chunks(2) {
        let name = local_name(pair[0]).ok_or_else(|| format!("modify_inner: `{}` is not a `let <set>`", toks(pair[0])))?;
        let (_, attr, pass) = known.iter().find(|k| k.0 == name).ok_or_else(|| format!("modify_inner: unknown sweep `let {name}`"))?;
        let want = format!("ifletSome({name})={name}.as_ref(){{entry.remove_avas(Attribute::{attr},{name});}}");
        if nsp(pair[1]) != want {
            return Err(format!("modify_inner: after `let {name}` expected `if let Some({name}) = {name}.as_ref() {{ entry.remove_avas(Attribute::{attr}, {name}); }}`, found `{}`", toks(pair[1])));
        }
        if passes.contains(pass) {
            return Err(format!("modify_inner: sweep `{name}` occurs twice"));
        }
        passes.push(*pass);
        inits.insert(*pass, local_init(pair[0]).ok_or("sweep without initialiser")?);
    }
    for (_, _, pass) in known {
        if !passes.contains(pass) {
            return Err(format!("modify_inner: sweep `{pass}` is missing"));
        }
    }

    // ---- cred_ids chain ---------------------------------------------------------------------------
    let cred_init = local_init(stmts[0]).ok_or("cred_ids without initialiser")?;
    struct G(Vec<(String, String)>);
    impl<'ast> Visit<'ast> for G {
        fn visit_expr_method_call(&mut self, m: &'ast syn::ExprMethodCall) {
            // receiver first: source order
            syn::visit::visit_expr_method_call(self, m);
            if nsp(&*m.receiver) == "entry" && m.method.to_string().starts_with("get_ava") {
                self.0.push((m.method.to_string(), m.args.iter().map(nsp).collect::<Vec<_>>().join(",")));
            }
        }
    }
    let mut g = G(vec![]);
    g.visit_expr(&cred_init);
    let table: &[(&str, &str, &'static str)] = &[
        ("get_ava_single_credential", "Attribute::PrimaryCredential", "primary"),
        ("get_ava_passkeys", "Attribute::PassKeys", "passkeys"),
        ("get_ava_attestedpasskeys", "Attribute::AttestedPasskeys", "attestedPasskeys"),
        ("get_ava_single_uuid", "Attribute::OAuth2AccountCredentialUuid", "oauth2AccountCredential"),
    ];
    let mut sources = vec![];
    for (m, a) in &g.0 {
        let hit = table.iter().find(|t| t.0 == m && t.1 == a).ok_or_else(|| format!("cred_ids: unknown credential source `entry.{m}({a})`"))?;
        if sources.contains(&hit.2) {
            return Err(format!("cred_ids: source `{}` occurs twice", hit.2));
        }
        sources.push(hit.2);
    }
    let ct = nsp(&cred_init);
    if sources.contains(&"primary") && !ct.contains(".map(|c|c.uuid)") {
        return Err("cred_ids: the primary credential must contribute `c.uuid`".into());
    }
    let keys = ct.matches(".flat_map(|pks|pks.keys().copied())").count();
    let want_keys = sources.iter().filter(|s| **s == "passkeys" || **s == "attestedPasskeys").count();
    if keys != want_keys {
        return Err(format!("cred_ids: expected {want_keys} `.flat_map(|pks| pks.keys().copied())`, found {keys}"));
    }
    if !ct.ends_with(".collect()") {
        return Err("cred_ids: the chain must end in `.collect()`".into());
    }

    // ---- sweep credGone ---------------------------------------------------------------------------
    let inv = &inits["credGone"];
    if !nsp(inv).starts_with("entry.get_ava_as_session_map(Attribute::UserAuthTokenSession).map(|sessions|{sessions.iter().filter_map(|(session_id,session)|") {
        return Err("sweep `invalidate` must iterate `entry.get_ava_as_session_map(Attribute::UserAuthTokenSession)`".into());
    }
    let ms = matches_on(inv, "&session.state");
    if ms.len() != 1 || ms[0].arms.len() != 2 {
        return Err("sweep `invalidate`: expected one `match &session.state` with 2 arms".into());
    }
    let (a0, a1) = (&ms[0].arms[0], &ms[0].arms[1]);
    if nsp(&a0.pat) != "SessionState::RevokedAt(_)" || a0.guard.is_some() {
        return Err(format!("sweep `invalidate`: first arm is `{}`", toks(&a0.pat)));
    }
    let cred_revoked_arm = selected(&a0.body).map_err(|e| format!("sweep `invalidate`, RevokedAt arm: {e}"))?;
    if nsp(&a1.pat) != "SessionState::ExpiresAt(_)|SessionState::NeverExpires" || a1.guard.is_some() {
        return Err(format!("sweep `invalidate`: second arm is `{}`", toks(&a1.pat)));
    }
    let syn::Expr::If(ci) = expr_block_tail(&a1.body)? else { return Err("sweep `invalidate`: live arm is not an `if`".into()) };
    let contains = "cred_ids.contains(&session.cred_id)";
    let cond = match nsp(&*ci.cond) {
        s if s == format!("!{contains}") => "(!contains)".to_string(),
        s if s == contains => "contains".to_string(),
        _ => return Err(format!("sweep `invalidate`: condition `{}` is not `[!]cred_ids.contains(&session.cred_id)`", toks(&*ci.cond))),
    };
    let t = selected(&syn::Expr::Block(syn::ExprBlock { attrs: vec![], label: None, block: ci.then_branch.clone() }))?;
    let e = match &ci.else_branch {
        Some((_, e)) => selected(e)?,
        None => return Err("sweep `invalidate`: credential test has no else".into()),
    };
    let cred_live = format!("if {cond} then {} else {}", lb(t), lb(e));
    let cred_live_src = format!("if {}", toks(&*ci.cond));

    // ---- sweep uatExpired -------------------------------------------------------------------------
    let ex = &inits["uatExpired"];
    if !nsp(ex).starts_with("entry.get_ava_as_session_map(Attribute::UserAuthTokenSession).map(|sessions|{sessions.iter().filter_map(|(session_id,session)|") {
        return Err("sweep `expired` must iterate `entry.get_ava_as_session_map(Attribute::UserAuthTokenSession)`".into());
    }
    let ms = matches_on(ex, "&session.state");
    if ms.len() != 1 || ms[0].arms.len() != 2 {
        return Err("sweep `expired`: expected one `match &session.state` with 2 arms".into());
    }
    let (a0, a1) = (&ms[0].arms[0], &ms[0].arms[1]);
    let (Some((_, g0)), "SessionState::ExpiresAt(exp)") = (&a0.guard, nsp(&a0.pat).as_str()) else {
        return Err(format!("sweep `expired`: first arm is `{}`, expected `SessionState::ExpiresAt(exp) if ..`", toks(&a0.pat)));
    };
    if !is_cmp(g0) {
        return Err("sweep `expired`: guard is not a comparison".into());
    }
    let gv = vars(&[("exp", "exp"), ("curtime_odt", "curtime")]);
    let uat_guard = lean_expr(g0, &gv)?;
    let uat_guard_src = format!("{} if {}", toks(&a0.pat), toks(&**g0));
    let uat_expired_arm = selected(&a0.body)?;
    if nsp(&a1.pat) != "_" || a1.guard.is_some() {
        return Err(format!("sweep `expired`: second arm is `{}`, expected `_`", toks(&a1.pat)));
    }
    let uat_other_arm = selected(&a1.body)?;

    // ---- sweep oauth2 -----------------------------------------------------------------------------
    let o2 = &inits["oauth2"];
    if !nsp(o2).starts_with("entry.get_ava_as_oauth2session_map(Attribute::OAuth2Session).map(|oauth2_sessions|{letsessions=entry.get_ava_as_session_map(Attribute::UserAuthTokenSession);oauth2_sessions.iter().filter_map(|(o2_session_id,session)|") {
        return Err("sweep `oauth2_remove` must iterate `entry.get_ava_as_oauth2session_map(Attribute::OAuth2Session)` with `let sessions = entry.get_ava_as_session_map(Attribute::UserAuthTokenSession)`".into());
    }
    let ms = matches_on(o2, "&session.state");
    if ms.len() != 1 || ms[0].arms.len() != 3 {
        return Err("sweep `oauth2_remove`: expected one `match &session.state` with 3 arms".into());
    }
    let (a0, a1, a2) = (&ms[0].arms[0], &ms[0].arms[1], &ms[0].arms[2]);
    let (Some((_, g0)), "SessionState::ExpiresAt(exp)") = (&a0.guard, nsp(&a0.pat).as_str()) else {
        return Err(format!("sweep `oauth2_remove`: first arm is `{}`, expected `SessionState::ExpiresAt(exp) if ..`", toks(&a0.pat)));
    };
    if !is_cmp(g0) {
        return Err("sweep `oauth2_remove`: guard is not a comparison".into());
    }
    let o2_guard = lean_expr(g0, &gv)?;
    let o2_guard_src = format!("{} if {}", toks(&a0.pat), toks(&**g0));
    let o2_expired_arm = selected(&a0.body)?;
    if nsp(&a1.pat) != "SessionState::RevokedAt(_)" || a1.guard.is_some() {
        return Err(format!("sweep `oauth2_remove`: second arm is `{}`", toks(&a1.pat)));
    }
    let o2_revoked_arm = selected(&a1.body)?;
    if nsp(&a2.pat) != "_" || a2.guard.is_some() {
        return Err(format!("sweep `oauth2_remove`: third arm is `{}`", toks(&a2.pat)));
    }
    let syn::Expr::If(pi) = expr_block_tail(&a2.body)? else { return Err("sweep `oauth2_remove`: `_` arm is not an `if`".into()) };
    // condition: sessions.map(|session_map| { .. }).unwrap_or(<bool>)
    let syn::Expr::MethodCall(uo) = &*pi.cond else { return Err("parent test is not `sessions.map(..).unwrap_or(..)`".into()) };
    if uo.method != "unwrap_or" || uo.args.len() != 1 {
        return Err("parent test is not `sessions.map(..).unwrap_or(..)`".into());
    }
    let parent_no_map = expr_bool(&uo.args[0])?;
    let syn::Expr::MethodCall(mp) = &*uo.receiver else { return Err("parent test: receiver of unwrap_or is not `sessions.map(..)`".into()) };
    if mp.method != "map" || nsp(&*mp.receiver) != "sessions" {
        return Err("parent test: receiver of unwrap_or is not `sessions.map(..)`".into());
    }
    let Some(syn::Expr::Closure(pc)) = mp.args.first() else { return Err("parent test: `map` without closure".into()) };
    if nsp(&pc.inputs[0]) != "session_map" {
        return Err("parent test: closure must take `session_map`".into());
    }
    let syn::Expr::If(i1) = expr_block_tail(&pc.body)? else { return Err("parent test: closure body is not an `if let`".into()) };
    if nsp(&*i1.cond) != "letSome(parent_session_id)=session.parent.as_ref()" {
        return Err(format!("parent test: outer condition is `{}`", toks(&*i1.cond)));
    }
    let parent_no_id = match &i1.else_branch {
        Some((_, e)) => expr_bool(e)?,
        None => return Err("parent test: no else for a session without parent".into()),
    };
    let syn::Expr::If(i2) = block_tail_expr(&i1.then_branch)? else { return Err("parent test: inner lookup is not an `if let`".into()) };
    if nsp(&*i2.cond) != "letSome(parent_session)=session_map.get(parent_session_id)" {
        return Err(format!("parent test: lookup is `{}`", toks(&*i2.cond)));
    }
    let found = block_tail_expr(&i2.then_branch)?;
    let parent_found = not_revoked(found, "parent_session", "parentRevoked")?;
    let parent_found_src = toks(found);
    let parent_not_found = match &i2.else_branch {
        Some((_, e)) => expr_bool(e)?,
        None => return Err("parent test: no else for a parent that is not found".into()),
    };
    // `if <valid> { None } else { if <grace> { Some } else { None } }`
    let parent_valid_arm = selected(&syn::Expr::Block(syn::ExprBlock { attrs: vec![], label: None, block: pi.then_branch.clone() }))?;
    let Some((_, pe)) = &pi.else_branch else { return Err("parent test has no else".into()) };
    let syn::Expr::If(gi) = expr_block_tail(pe)? else { return Err("orphan branch is not an `if`".into()) };
    if !is_cmp(&gi.cond) {
        return Err("orphan grace test is not a comparison".into());
    }
    let gc = lean_expr(&gi.cond, &vars(&[("session.issued_at", "issued_at"), ("AUTH_TOKEN_GRACE_WINDOW", "window"), ("curtime_odt", "curtime")]))?;
    let gt = selected(&syn::Expr::Block(syn::ExprBlock { attrs: vec![], label: None, block: gi.then_branch.clone() }))?;
    let ge = match &gi.else_branch {
        Some((_, e)) => selected(e)?,
        None => return Err("orphan grace test has no else".into()),
    };
    let orphan = format!("if {gc} then {} else {}", lb(gt), lb(ge));
    let orphan_src = format!("if {}", toks(&*gi.cond));

    Ok(PluginOps {
        sources,
        passes,
        cred_revoked_arm,
        cred_live_src,
        cred_live,
        uat_guard_src,
        uat_guard,
        uat_expired_arm,
        uat_other_arm,
        o2_guard_src,
        o2_guard,
        o2_expired_arm,
        o2_revoked_arm,
        parent_found_src,
        parent_found,
        parent_not_found,
        parent_no_id,
        parent_no_map,
        parent_valid_arm,
        orphan_src,
        orphan,
    })
}

fn plugin_is_run(repo: &str) -> Result<(), String> {
    let ast = parse_file(repo, "server/lib/src/plugins/mod.rs")?;
    for (fname, call) in [("run_pre_modify", "pre_modify"), ("run_pre_batch_modify", "pre_batch_modify")] {
        let f = find_fn(&ast, &format!("Plugins::{fname}"))?;
        let lines: Vec<String> = f.block.stmts.iter().map(nsp).collect();
        let sess = format!("session::SessionConsistency::{call}(qs,pre_cand,cand,me)?;");
        let imp = format!("cred_import::CredImport::{call}(qs,pre_cand,cand,me)?;");
        let si = lines.iter().position(|l| *l == sess).ok_or_else(|| format!("Plugins::{fname} does not run `session::SessionConsistency::{call}(qs, pre_cand, cand, me)?`"))?;
        if let Some(ii) = lines.iter().position(|l| *l == imp) {
            if ii > si {
                return Err(format!("Plugins::{fname}: CredImport (which writes the primary credential) runs after SessionConsistency"));
            }
        }
    }
    Ok(())
}

fn valueset(repo: &str) -> Result<(String, String), String> {
    let ast = parse_file(repo, "server/lib/src/valueset/session.rs")?;
    for ty in ["ValueSetSession", "ValueSetOauth2Session"] {
        let f = find_fn(&ast, &format!("ValueSetT@{ty}::remove"))?;
        let t = nsp(&f.block);
        let want = "ifletSome(session)=self.map.get_mut(u){if!matches!(session.state,SessionState::RevokedAt(_)){session.state=SessionState::RevokedAt(cid.clone());true}else{false}}";
        if !t.contains(want) {
            return Err(format!("{ty}::remove: the found-session branch is not `if !matches!(session.state, RevokedAt(_)) {{ session.state = RevokedAt(cid.clone()); true }} else {{ false }}`"));
        }
    }
    let f = find_fn(&ast, "ValueSetT@ValueSetSession::insert_checked")?;
    if !nsp(&f.block).contains("Value::Session(u,m)=>{ifletBTreeEntry::Vacant(e)=self.map.entry(u){e.insert(m);Ok(true)}else{Ok(false)}}") {
        return Err("ValueSetSession::insert_checked: expected insertion into a vacant slot only".into());
    }
    let f = find_fn(&ast, "ValueSetT@ValueSetOauth2Session::insert_checked")?;
    let all = ifs(&f.block);
    let hit: Vec<&syn::ExprIf> = all.iter().filter(|i| nsp(&*i.cond).contains("m.state") && nsp(&*i.cond).contains("e_v.state")).collect();
    if hit.len() != 1 {
        return Err(format!("ValueSetOauth2Session::insert_checked: expected one comparison of `m.state` with `e_v.state`, found {}", hit.len()));
    }
    let syn::Expr::Binary(b) = &*hit[0].cond else { return Err("ValueSetOauth2Session::insert_checked: replace test is not a comparison".into()) };
    if nsp(&*b.left) != "m.state" || nsp(&*b.right) != "e_v.state" {
        return Err(format!("ValueSetOauth2Session::insert_checked: replace test is `{}`", toks(&*hit[0].cond)));
    }
    let lean = match b.op {
        syn::BinOp::Gt(_) => "(c == .gt)",
        syn::BinOp::Ge(_) => "(c != .lt)",
        syn::BinOp::Lt(_) => "(c == .lt)",
        syn::BinOp::Le(_) => "(c != .gt)",
        syn::BinOp::Eq(_) => "(c == .eq)",
        syn::BinOp::Ne(_) => "(c != .eq)",
        _ => return Err("ValueSetOauth2Session::insert_checked: replace test is not a comparison".into()),
    };
    if !nsp(&hit[0].then_branch).starts_with("{*e_v=m;Ok(true)}") {
        return Err("ValueSetOauth2Session::insert_checked: the replace branch must be `*e_v = m; Ok(true)`".into());
    }
    Ok((toks(&*hit[0].cond), lean.to_string()))
}

fn returns_none(b: &syn::Block) -> bool {
    b.stmts.iter().any(|s| nsp(s) == "returnOk(None);")
}
fn else_block(i: &syn::ExprIf) -> Result<syn::Block, String> {
    match &i.else_branch {
        Some((_, e)) => match &**e {
            syn::Expr::Block(b) => Ok(b.block.clone()),
            o => Err(format!("else branch `{}` is not a block", toks(o))),
        },
        None => Err("missing else branch".into()),
    }
}

struct CheckOps {
    grace_src: String,
    grace: String,
    o2_valid_src: String,
    o2_valid: String,
    parent_valid_src: String,
    parent_valid: String,
    leaves: Vec<(&'static str, bool)>,
    live_revoked: bool,
    live_expires: (String, String),
    live_never: bool,
}

fn check_fn(repo: &str) -> Result<CheckOps, String> {
    let ast = parse_file(repo, "server/lib/src/idm/server.rs")?;
    let f = find_fn(&ast, "IdmServerTransaction::check_oauth2_account_uuid_valid")?;
    let n = "check_oauth2_account_uuid_valid";
    let w = find_local(&f.block, "within_valid_window")?;
    if nsp(&w) != "Account::check_within_valid_time(ct,entry.get_ava_single_datetime(Attribute::AccountValidFrom).as_ref(),entry.get_ava_single_datetime(Attribute::AccountExpire).as_ref(),)" {
        return Err(format!("{n}: `within_valid_window` is `{}`", toks(&w)));
    }
    for (name, want) in [
        ("oauth2_session", "entry.get_ava_as_oauth2session_map(Attribute::OAuth2Session).and_then(|sessions|sessions.get(&session_id))"),
        ("uat_session", "entry.get_ava_as_session_map(Attribute::UserAuthTokenSession).and_then(|sessions|sessions.get(&parent_session_id))"),
        ("api_session", "entry.get_ava_as_apitoken_map(Attribute::ApiTokenSession).and_then(|sessions|sessions.get(&parent_session_id))"),
    ] {
        let l = find_local(&f.block, name)?;
        if nsp(&l) != want {
            return Err(format!("{n}: `{name}` is `{}`", toks(&l)));
        }
    }
    let g = find_local(&f.block, "grace_valid")?;
    let syn::Expr::Binary(gb) = &g else { return Err(format!("{n}: `grace_valid` is not a comparison")) };
    if nsp(&*gb.left) != "ct" || nsp(&*gb.right) != "(Duration::from_secs(iatasu64)+AUTH_TOKEN_GRACE_WINDOW)" {
        return Err(format!("{n}: `grace_valid` is `{}`, expected `ct <cmp> (Duration::from_secs(iat as u64) + AUTH_TOKEN_GRACE_WINDOW)`", toks(&g)));
    }
    let rhs = "((iat * 1000000000) + window)";
    let grace = match gb.op {
        syn::BinOp::Lt(_) => format!("decide (ct < {rhs})"),
        syn::BinOp::Le(_) => format!("decide (ct ≤ {rhs})"),
        syn::BinOp::Gt(_) => format!("decide (ct > {rhs})"),
        syn::BinOp::Ge(_) => format!("decide (ct ≥ {rhs})"),
        _ => return Err(format!("{n}: `grace_valid` is not an order comparison")),
    };
    // `let ct_odt = EPOCH + ct; let session_state_live = |state: &SessionState| match state { .. };`
    let codt = find_local(&f.block, "ct_odt")?;
    if nsp(&codt) != "time::OffsetDateTime::UNIX_EPOCH+ct" {
        return Err(format!("{n}: `ct_odt` is `{}`", toks(&codt)));
    }
    let live = find_local(&f.block, "session_state_live")?;
    let syn::Expr::Closure(lc) = &live else { return Err(format!("{n}: `session_state_live` is not a closure")) };
    if lc.inputs.len() != 1 || nsp(&lc.inputs[0]) != "state:&SessionState" {
        return Err(format!("{n}: `session_state_live` must take `state: &SessionState`"));
    }
    let syn::Expr::Match(lm) = &*lc.body else { return Err(format!("{n}: `session_state_live` is not a `match`")) };
    if nsp(&*lm.expr) != "state" || lm.arms.len() != 3 {
        return Err(format!("{n}: `session_state_live` must be `match state` with 3 arms"));
    }
    let (mut live_revoked, mut live_expires, mut live_never) = (None, None, None);
    for a in &lm.arms {
        if a.guard.is_some() {
            return Err(format!("{n}: `session_state_live`: guarded arm `{}`", toks(&a.pat)));
        }
        match nsp(&a.pat).as_str() {
            "SessionState::RevokedAt(_)" => live_revoked = Some(expr_bool(&a.body)?),
            "SessionState::NeverExpires" => live_never = Some(expr_bool(&a.body)?),
            "SessionState::ExpiresAt(exp)" => {
                let body = expr_block_tail(&a.body)?;
                live_expires = Some(match body {
                    b if is_cmp(b) => (toks(b), lean_expr(b, &vars(&[("exp", "exp"), ("ct_odt", "ct")]))?),
                    b => (toks(b), lb(expr_bool(b)?).to_string()),
                });
            }
            o => return Err(format!("{n}: `session_state_live`: unknown arm `{o}`")),
        }
    }
    let (Some(live_revoked), Some(live_expires), Some(live_never)) = (live_revoked, live_expires, live_never) else {
        return Err(format!("{n}: `session_state_live` must have one arm each for RevokedAt(_), ExpiresAt(exp), NeverExpires"));
    };
    let call = |e: &syn::Expr, subject: &str| -> Result<String, String> {
        let want = format!("session_state_live(&{subject}.state)");
        let s = nsp(e);
        if s == want {
            Ok("live".to_string())
        } else if s == format!("!{want}") {
            Ok("(!live)".to_string())
        } else {
            Err(format!("{n}: `{}` is not `[!]session_state_live(&{subject}.state)`", toks(e)))
        }
    };
    let ov = find_local(&f.block, "oauth2_session_valid")?;
    let o2_valid = call(&ov, "oauth2_session")?;
    let pv = find_local(&f.block, "parent_session_valid")?;
    let parent_valid = call(&pv, "uat_session")?;
    let all = ifs(&f.block);
    let conds: Vec<String> = all.iter().map(|i| nsp(&*i.cond)).collect();
    let want = [
        "!within_valid_window",
        "letSome(oauth2_session)=oauth2_session",
        "!oauth2_session_valid",
        "letSome(parent_session_id)=parent_session_id",
        "letSome(uat_session)=uat_session",
        "parent_session_valid",
        "api_session.is_some()",
        "grace_valid",
        "grace_valid",
    ];
    if conds != want {
        return Err(format!("{n}: the `if` structure is {conds:?}, expected {want:?}"));
    }
    if all[3].else_branch.is_some() {
        return Err(format!("{n}: `if let Some(parent_session_id)` must have no else (a token without parent is not bound by one)"));
    }
    match f.block.stmts.last() {
        Some(syn::Stmt::Expr(e, None)) if nsp(e) == "Ok(Some(entry))" => {}
        _ => return Err(format!("{n}: must end in `Ok(Some(entry))`")),
    }
    let leaves = vec![
        ("chkOutsideWindow", !returns_none(&all[0].then_branch)),
        ("chkO2Invalid", !returns_none(&all[2].then_branch)),
        ("chkParentLive", !returns_none(&all[5].then_branch)),
        ("chkParentInvalid", !returns_none(&else_block(&all[5])?)),
        ("chkParentMissingApi", !returns_none(&all[6].then_branch)),
        ("chkParentMissingGrace", !returns_none(&all[7].then_branch)),
        ("chkParentMissingNoGrace", !returns_none(&else_block(&all[7])?)),
        ("chkO2MissingGrace", !returns_none(&all[8].then_branch)),
        ("chkO2MissingNoGrace", !returns_none(&else_block(&all[8])?)),
    ];
    Ok(CheckOps { grace_src: toks(&g), grace, o2_valid_src: toks(&ov), o2_valid, parent_valid_src: toks(&pv), parent_valid, leaves, live_revoked, live_expires, live_never })
}

/// credential/mod.rs: do the mutators a credential update can commit give the credential a new uuid?
fn cred_update_rotates(repo: &str) -> Result<bool, String> {
    let ast = parse_file(repo, "server/lib/src/credential/mod.rs")?;
    let mut rot = vec![];
    for name in ["update_password", "append_totp", "remove_totp", "update_backup_code", "remove_backup_code"] {
        let f = find_fn(&ast, &format!("Credential::{name}"))?;
        let t = nsp(&f.block);
        let (fresh, keep) = (t.matches("uuid:Uuid::new_v4()").count(), t.matches("uuid:self.uuid").count());
        match (fresh, keep) {
            (1, 0) => rot.push(true),
            (0, 1) => rot.push(false),
            _ => return Err(format!("Credential::{name}: expected exactly one `uuid: Uuid::new_v4()` (or `uuid: self.uuid`) in the credential it builds, found {fresh} / {keep}")),
        }
    }
    let f = find_fn(&ast, "Credential::set_password")?;
    if !nsp(&f.block).contains(".map(|pw|self.update_password(pw,timestamp))") {
        return Err("Credential::set_password no longer goes through `self.update_password(pw, timestamp)`".into());
    }
    let cu = parse_file(repo, "server/lib/src/idm/credupdatesession.rs")?;
    let f = find_fn(&cu, "IdmServerCredUpdateTransaction::credential_primary_set_password")?;
    let t = nsp(&f.block);
    if !t.contains("primary.set_password(self.crypto_policy,pw,timestamp)?") || !t.contains("Credential::new_password_only(self.crypto_policy,pw,timestamp)?") {
        return Err("credential_primary_set_password: expected `primary.set_password(..)` / `Credential::new_password_only(..)`".into());
    }
    if rot.iter().all(|r| *r) {
        Ok(true)
    } else if rot.iter().all(|r| !*r) {
        Ok(false)
    } else {
        Err("credential mutators disagree on rotating the credential uuid".into())
    }
}

/// The trim every local modify starts with: constants/mod.rs `#[cfg(not(test))] CHANGELOG_MAX_AGE`,
/// `QueryServer::write`: `trim_cid = cid.sub_secs(CHANGELOG_MAX_AGE)?`, modify / batch_modify:
/// `.invalidate(self.cid.clone(), &self.trim_cid)`, `Entry::invalidate` trims every value set first.
fn write_trim(repo: &str) -> Result<i128, String> {
    let consts = parse_file(repo, "server/lib/src/constants/mod.rs")?;
    let mut age = None;
    for it in &consts.items {
        if let syn::Item::Const(c) = it {
            if c.ident == "CHANGELOG_MAX_AGE" && c.attrs.iter().any(|a| nsp(a) == "#[cfg(not(test))]") {
                age = Some(eval_int(&c.expr, &|_| None)?);
            }
        }
    }
    let age = age.ok_or("no `#[cfg(not(test))] const CHANGELOG_MAX_AGE` in constants/mod.rs")?;
    let srv = parse_file(repo, "server/lib/src/server/mod.rs")?;
    let w = find_fn(&srv, "QueryServer::write")?;
    if nsp(&w.block).matches("lettrim_cid=cid.sub_secs(CHANGELOG_MAX_AGE)?;").count() != 1 {
        return Err("QueryServer::write: `let trim_cid = cid.sub_secs(CHANGELOG_MAX_AGE)?;` not found".into());
    }
    for (file, f) in [("server/lib/src/server/modify.rs", "QueryServerWriteTransaction::modify_pre_apply"), ("server/lib/src/server/batch_modify.rs", "QueryServerWriteTransaction::batch_modify")] {
        let ast = parse_file(repo, file)?;
        let g = find_fn(&ast, f)?;
        if nsp(&g.block).matches(".invalidate(self.cid.clone(),&self.trim_cid)").count() != 1 {
            return Err(format!("{f}: candidates are no longer built with `.invalidate(self.cid.clone(), &self.trim_cid)`"));
        }
    }
    let ent = parse_file(repo, "server/lib/src/entry.rs")?;
    let inv = find_fn(&ent, "Entry::invalidate")?;
    if !nsp(&inv.block).starts_with("{forvsinself.attrs.values_mut(){vs.trim(trim_cid);}") {
        return Err("Entry::invalidate no longer starts with `for vs in self.attrs.values_mut() { vs.trim(trim_cid); }`".into());
    }
    Ok(age)
}

fn session_plugin_ops(repo: &str, out: &str) -> Result<String, String> {
    let cfile = parse_file(repo, "proto/src/constants.rs")?;
    let gexpr = find_const(&cfile, "AUTH_TOKEN_GRACE_WINDOW").ok_or("AUTH_TOKEN_GRACE_WINDOW not found in proto/src/constants.rs")?;
    if !nsp(&gexpr).starts_with("Duration::from_secs(") {
        return Err(format!("AUTH_TOKEN_GRACE_WINDOW is `{}`, expected Duration::from_secs(..)", toks(&gexpr)));
    }
    let grace = eval_int(&gexpr, &|_| None)?;
    let p = plugin(repo)?;
    plugin_is_run(repo)?;
    let (ins_src, ins) = valueset(repo)?;
    let c = check_fn(repo)?;
    let rot = cred_update_rotates(repo)?;
    let max_age = write_trim(repo)?;

    let q = |s: &str| s.replace('`', "'");
    let mut b = String::from("namespace Kanidm.Gen.SessionPlugin\nopen Kanidm.SessionPlugin\n");
    b += &format!("/-- `AUTH_TOKEN_GRACE_WINDOW = {}` (seconds) -/\ndef graceWindowSecs : Nat := {grace}\n", toks(&gexpr));
    b += &format!(
        "/-- plugin: the chain that builds `cred_ids`, in source order -/\ndef credSources : List CredSrc := [{}]\n",
        p.sources.iter().map(|s| format!(".{s}")).collect::<Vec<_>>().join(", ")
    );
    b += &format!(
        "/-- plugin: the sweeps in statement order (`let <set> = ..; if let Some(..) {{ entry.remove_avas(<attr>, ..) }}`) -/\ndef passOrder : List Pass := [{}]\n",
        p.passes.iter().map(|s| format!(".{s}")).collect::<Vec<_>>().join(", ")
    );
    b += &format!("/-- pass credGone, arm `SessionState :: RevokedAt (_)`: selected for removal? -/\ndef credPassRevokedArm : Bool := {}\n", lb(p.cred_revoked_arm));
    b += &format!(
        "/-- pass credGone, arm `SessionState :: ExpiresAt (_) | SessionState :: NeverExpires`: `{}` -/\ndef credPassLiveArm (contains : Bool) : Bool := {}\n",
        q(&p.cred_live_src),
        p.cred_live
    );
    b += &format!("/-- pass uatExpired: `{}` -/\ndef uatExpiredGuard (exp curtime : Nat) : Bool := {}\n", q(&p.uat_guard_src), p.uat_guard);
    b += &format!("def uatExpiredArm : Bool := {}\ndef uatOtherArm : Bool := {}\n", lb(p.uat_expired_arm), lb(p.uat_other_arm));
    b += &format!("/-- pass oauth2, first arm: `{}` -/\ndef o2ExpiredGuard (exp curtime : Nat) : Bool := {}\n", q(&p.o2_guard_src), p.o2_guard);
    b += &format!("def o2ExpiredArm : Bool := {}\n", lb(p.o2_expired_arm));
    b += &format!("/-- pass oauth2, arm `SessionState :: RevokedAt (_)` -/\ndef o2RevokedArm : Bool := {}\n", lb(p.o2_revoked_arm));
    b += &format!("/-- pass oauth2, parent lookup: found ⇒ `{}` -/\ndef parentFound (parentRevoked : Bool) : Bool := {}\n", q(&p.parent_found_src), p.parent_found);
    b += &format!("def parentNotFound : Bool := {}\ndef parentNoId : Bool := {}\n", lb(p.parent_not_found), lb(p.parent_no_id));
    b += &format!("/-- `.unwrap_or({})`: the entry has no UserAuthTokenSession attribute -/\ndef parentNoSessionMap : Bool := {}\n", lb(p.parent_no_map), lb(p.parent_no_map));
    b += &format!("/-- `if <parent valid> {{ None }} else {{ .. }}` -/\ndef parentValidArm : Bool := {}\n", lb(p.parent_valid_arm));
    b += &format!(
        "/-- `{} {{ Some }} else {{ None }}` -/\ndef orphanArm (issued_at window curtime : Nat) : Bool := {}\n",
        q(&p.orphan_src),
        p.orphan
    );
    b += &format!(
        "/-- `ValueSetOauth2Session::insert_checked`, occupied slot: `if {}` ⇒ replace (argument = `m.state.cmp(&e_v.state)`) -/\ndef o2InsertReplaces (c : Ordering) : Bool := {ins}\n",
        q(&ins_src)
    );
    b += &format!(
        "/-- `check_oauth2_account_uuid_valid`: `let grace_valid = {}` (ct, window: ns; iat: s) -/\ndef chkGraceValid (ct iat window : Nat) : Bool := {}\n",
        q(&c.grace_src),
        c.grace
    );
    b += &format!("/-- `session_state_live`, arm `SessionState :: RevokedAt (_)` -/\ndef chkLiveRevoked : Bool := {}\n", lb(c.live_revoked));
    b += &format!("/-- `session_state_live`, arm `SessionState :: ExpiresAt (exp)`: `{}` (`ct_odt = EPOCH + ct`) -/\ndef chkLiveExpires (exp ct : Nat) : Bool := {}\n", q(&c.live_expires.0), c.live_expires.1);
    b += &format!("/-- `session_state_live`, arm `SessionState :: NeverExpires` -/\ndef chkLiveNever : Bool := {}\n", lb(c.live_never));
    b += &format!("/-- `let oauth2_session_valid = {}` -/\ndef chkO2SessionValid (live : Bool) : Bool := {}\n", q(&c.o2_valid_src), c.o2_valid);
    b += &format!("/-- `let parent_session_valid = {}` -/\ndef chkParentValid (live : Bool) : Bool := {}\n", q(&c.parent_valid_src), c.parent_valid);
    b += "/-- leaves of `check_oauth2_account_uuid_valid`: `true` = falls through to `Ok(Some(entry))`, `false` = `return Ok(None)` -/\n";
    for (name, v) in &c.leaves {
        b += &format!("def {name} : Bool := {}\n", lb(*v));
    }
    b += &format!("/-- credential/mod.rs: every mutator a credential update can commit (`update_password`, `append_totp`, `remove_totp`, `update_backup_code`, `remove_backup_code`) builds the credential with `uuid: Uuid::new_v4()`; `set_password` goes through `update_password` -/\ndef credUpdateRotatesId : Bool := {}\n", lb(rot));
    b += &format!("/-- constants/mod.rs `#[cfg(not(test))] CHANGELOG_MAX_AGE = 7 * 86400` (seconds); `QueryServer::write`: `let trim_cid = cid.sub_secs(CHANGELOG_MAX_AGE)?`; modify/batch_modify: `.invalidate(self.cid.clone(), &self.trim_cid)`; `Entry::invalidate` trims every value set first -/\ndef changelogMaxAgeSecs : Nat := {max_age}\n");
    b += "end Kanidm.Gen.SessionPlugin\n";
    let path = format!("{out}/SessionPluginOps.lean");
    let text = format!(
        "-- GENERATED by vtranslate from proto/src/constants.rs, server/lib/src/plugins/session.rs, server/lib/src/plugins/mod.rs, server/lib/src/valueset/session.rs, server/lib/src/idm/server.rs, server/lib/src/credential/mod.rs, server/lib/src/idm/credupdatesession.rs, server/lib/src/constants/mod.rs, server/lib/src/server/mod.rs, server/lib/src/server/modify.rs, server/lib/src/server/batch_modify.rs, server/lib/src/entry.rs. Do not edit: rewritten on every check run.\nimport KanidmModel.SessionPluginTypes\nset_option linter.unusedVariables false\n{b}"
    );
    if !std::fs::read_to_string(&path).map(|old| old == text).unwrap_or(false) {
        std::fs::write(&path, text).map_err(|e| format!("{path}: {e}"))?;
    }
    Ok(format!(
        "SessionPluginOps: grace {grace}s, {} credential sources, sweeps {:?}, insert `{}`, grace_valid `{}`",
        p.sources.len(),
        p.passes,
        ins_src,
        c.grace_src
    ))
}
