//! C28 translator item `softlock-table`: thresholds, delays, window constant and comparison
//! operators of `server/lib/src/credential/softlock.rs`, regenerated as Lean data.
//!
//! What is read from the source (anything else in these functions must have exactly the shape
//! checked below, otherwise the item fails — it never guesses):
//!  * `const ONEDAY`
//!  * `failure_next_state`: per policy arm the `reset_at` computation shape (window constant),
//!    the `if count < N {..}` chain with the `unlock_at` delay of every row and of the final `else`
//!  * `apply_time_step`: the five comparisons, in source order
//!  * `record_failure`: the count passed to `failure_next_state` in each of the three arms
//!  * `is_valid`: must be `!matches!(self.state, LockState::Locked { .. })`
use super::vars;
use crate::util::*;
use quote::ToTokens;

pub fn run(item: &str, repo: &str, out: &str) -> Option<Result<String, String>> {
    match item {
        "softlock-table" => Some(softlock_table(repo, out)),
        "softlock-policy" => Some(softlock_policy(repo, out)),
        _ => None,
    }
}

fn toks<T: ToTokens>(t: &T) -> String {
    t.to_token_stream().to_string()
}

/// `unlock_at` of a `LockState::Locked { count, reset_at, unlock_at: E }` literal.
enum Unlock {
    /// `ct + Duration::from_secs(n)`
    Delay(i128),
    /// `reset_at`
    AtReset,
}

/// `ct + Duration::from_secs(n)` ↦ n
fn ct_plus_secs(e: &syn::Expr) -> Result<i128, String> {
    if let syn::Expr::Binary(b) = e {
        if matches!(b.op, syn::BinOp::Add(_)) && path_string(&b.left).as_deref() == Some("ct") {
            if let syn::Expr::Call(c) = &*b.right {
                if path_string(&c.func).as_deref() == Some("Duration::from_secs") && c.args.len() == 1 {
                    return eval_int(&c.args[0], &|_| None);
                }
            }
        }
    }
    Err(format!("expected `ct + Duration::from_secs(N)`, found `{}`", toks(e)))
}

/// Parse `LockState::Locked { count, reset_at[: R], unlock_at: U }`; returns (R if explicit, U).
fn locked_literal(e: &syn::Expr) -> Result<(Option<syn::Expr>, syn::Expr), String> {
    let s = match e {
        syn::Expr::Struct(s) => s,
        _ => return Err(format!("expected a `LockState::Locked {{..}}` literal, found `{}`", toks(e))),
    };
    let p: Vec<String> = s.path.segments.iter().map(|x| x.ident.to_string()).collect();
    if p != ["LockState", "Locked"] || s.rest.is_some() || s.fields.len() != 3 {
        return Err(format!("unexpected struct literal `{}`", toks(e)));
    }
    let mut reset = None;
    let mut unlock = None;
    let mut count_ok = false;
    for f in &s.fields {
        let name = match &f.member {
            syn::Member::Named(i) => i.to_string(),
            _ => return Err("tuple field in Locked".into()),
        };
        match name.as_str() {
            "count" => {
                if path_string(&f.expr).as_deref() != Some("count") {
                    return Err(format!("Locked.count is not the `count` argument: `{}`", toks(&f.expr)));
                }
                count_ok = true;
            }
            "reset_at" => {
                if path_string(&f.expr).as_deref() != Some("reset_at") {
                    reset = Some(f.expr.clone());
                }
            }
            "unlock_at" => unlock = Some(f.expr.clone()),
            o => return Err(format!("unknown field {o} in Locked")),
        }
    }
    if !count_ok {
        return Err("Locked literal without count".into());
    }
    Ok((reset, unlock.ok_or("Locked literal without unlock_at")?))
}

fn unlock_of(e: &syn::Expr) -> Result<Unlock, String> {
    if path_string(e).as_deref() == Some("reset_at") {
        Ok(Unlock::AtReset)
    } else {
        ct_plus_secs(e).map(Unlock::Delay)
    }
}

/// The single tail expression of a block that has no other statements.
fn only_expr(b: &syn::Block) -> Result<&syn::Expr, String> {
    match b.stmts.as_slice() {
        [syn::Stmt::Expr(e, None)] => Ok(e),
        _ => Err(format!("expected a block with one tail expression, found `{}`", toks(b))),
    }
}

/// `count <op> LIT` ↦ (op, LIT)
fn count_cmp(e: &syn::Expr) -> Result<(&'static str, i128), String> {
    if let syn::Expr::Binary(b) = e {
        if path_string(&b.left).as_deref() == Some("count") {
            let n = eval_int(&b.right, &|_| None)?;
            let op = match b.op {
                syn::BinOp::Lt(_) => "<",
                syn::BinOp::Le(_) => "<=",
                syn::BinOp::Gt(_) => ">",
                syn::BinOp::Ge(_) => ">=",
                _ => return Err(format!("unsupported comparison `{}`", toks(e))),
            };
            return Ok((op, n));
        }
    }
    Err(format!("expected `count <op> N`, found `{}`", toks(e)))
}

/// The three `let`s computing `reset_at` from a window `w`: exact token shapes.
fn check_window_lets(stmts: &[syn::Stmt], end_name: &str, w: &str) -> Result<(), String> {
    let want = [
        format!("let {end_name} = ct . as_secs () + {w} ;"),
        format!("let rem = {end_name} % {w} ;"),
        format!("let reset_at = Duration :: from_secs ({end_name} - rem) ;"),
    ];
    if stmts.len() != 3 {
        return Err(format!("expected 3 let statements before the if-chain, found {}", stmts.len()));
    }
    for (s, w) in stmts.iter().zip(want.iter()) {
        let got = toks(s);
        if &got != w {
            return Err(format!("reset_at computation changed: expected `{w}`, found `{got}`"));
        }
    }
    Ok(())
}

fn arm_block(a: &syn::Arm) -> Result<&syn::Block, String> {
    match &*a.body {
        syn::Expr::Block(b) => Ok(&b.block),
        o => Err(format!("expected a block arm body, found `{}`", toks(o))),
    }
}

fn softlock_table(repo: &str, out: &str) -> Result<String, String> {
    let rel = "server/lib/src/credential/softlock.rs";
    let ast = parse_file(repo, rel)?;

    // ---- ONEDAY
    let oneday = eval_int(&find_const(&ast, "ONEDAY").ok_or("const ONEDAY not found")?, &|_| None)?;

    // ---- failure_next_state: either the table itself (no wrapper), or a wrapper around
    // `failure_next_state_inner` that post-processes `Locked` states with a guard on
    // (reset_at, unlock_at); the guard is regenerated as `clampResets`.
    let outer = find_fn(&ast, "CredSoftLockPolicy::failure_next_state")?;
    let args: Vec<String> = outer.sig.inputs.iter().map(|a| toks(a)).collect();
    if args != ["& self", "count : usize", "ct : Duration"] {
        return Err(format!("failure_next_state signature changed: {args:?}"));
    }
    let (f, clamp_src, clamp_lean) = match find_fn(&ast, "CredSoftLockPolicy::failure_next_state_inner") {
        Err(_) => (outer, "(no wrapper around the table)".to_string(), "false".to_string()),
        Ok(inner) => {
            let args: Vec<String> = inner.sig.inputs.iter().map(|a| toks(a)).collect();
            if args != ["& self", "count : usize", "ct : Duration"] {
                return Err(format!("failure_next_state_inner signature changed: {args:?}"));
            }
            let m = match only_expr(&outer.block)? {
                syn::Expr::Match(m) if toks(&m.expr) == "self . failure_next_state_inner (count , ct)" => m,
                o => return Err(format!("failure_next_state wrapper is not `match self.failure_next_state_inner(count, ct) {{..}}`: `{}`", toks(o))),
            };
            if m.arms.len() != 2 {
                return Err(format!("failure_next_state wrapper: expected 2 arms, found {}", m.arms.len()));
            }
            let a0 = &m.arms[0];
            let pat = toks(&a0.pat);
            if pat != "LockState :: Locked { count , reset_at , unlock_at , }" && pat != "LockState :: Locked { count , reset_at , unlock_at }" {
                return Err(format!("failure_next_state wrapper: unexpected first pattern `{pat}`"));
            }
            let guard = a0.guard.as_ref().map(|g| &*g.1).ok_or("failure_next_state wrapper: first arm has no guard")?;
            let gv = vars(&[("reset_at", "resetAt"), ("unlock_at", "unlockAt")]);
            let lean = lean_expr(guard, &gv)?;
            if !matches!(guard, syn::Expr::Binary(_)) || !lean.contains("resetAt") || !lean.contains("unlockAt") {
                return Err(format!("failure_next_state wrapper: guard `{}` is not a comparison of reset_at and unlock_at", toks(guard)));
            }
            // body: Locked { count, reset_at: unlock_at, unlock_at }
            let (reset, unlock) = locked_literal(match &*a0.body {
                syn::Expr::Block(b) => only_expr(&b.block)?,
                o => o,
            })?;
            let reset = reset.ok_or("failure_next_state wrapper: first arm does not override reset_at")?;
            if path_string(&reset).as_deref() != Some("unlock_at") || path_string(&unlock).as_deref() != Some("unlock_at") {
                return Err(format!("failure_next_state wrapper: expected `reset_at: unlock_at, unlock_at`, found reset_at: `{}`, unlock_at: `{}`", toks(&reset), toks(&unlock)));
            }
            let a1 = &m.arms[1];
            if a1.guard.is_some() || toks(&a1.pat) != toks(&a1.body) || !matches!(&a1.pat, syn::Pat::Ident(_)) {
                return Err(format!("failure_next_state wrapper: second arm is not `x => x`: `{} => {}`", toks(&a1.pat), toks(&a1.body)));
            }
            (inner, toks(guard), lean)
        }
    };
    let m = match only_expr(&f.block)? {
        syn::Expr::Match(m) if toks(&m.expr) == "self" => m,
        o => return Err(format!("failure_next_state is not `match self {{..}}`: `{}`", toks(o))),
    };
    let mut rows: Option<Vec<(i128, i128)>> = None;
    let mut totp: Option<(i128, i128)> = None;
    let mut wan: Option<(i128, i128)> = None;
    let mut unrestricted = false;
    for arm in &m.arms {
        if arm.guard.is_some() {
            return Err("guarded arm in failure_next_state".into());
        }
        let pat = toks(&arm.pat);
        match pat.as_str() {
            "CredSoftLockPolicy :: Password" => {
                let b = arm_block(arm)?;
                let n = b.stmts.len();
                if n != 4 {
                    return Err(format!("Password arm: expected 3 lets + if-chain, found {n} statements"));
                }
                check_window_lets(&b.stmts[..3], "next_day_end", "ONEDAY")?;
                let mut e = match &b.stmts[3] {
                    syn::Stmt::Expr(e, None) => e,
                    o => return Err(format!("Password arm tail: `{}`", toks(o))),
                };
                let mut r = vec![];
                loop {
                    match e {
                        syn::Expr::If(i) => {
                            let (op, n) = count_cmp(&i.cond)?;
                            let thr = match op {
                                "<" => n,
                                "<=" => n + 1,
                                o => return Err(format!("Password row uses `count {o} {n}`")),
                            };
                            let (reset, unlock) = locked_literal(only_expr(&i.then_branch)?)?;
                            if reset.is_some() {
                                return Err("Password row overrides reset_at".into());
                            }
                            match unlock_of(&unlock)? {
                                Unlock::Delay(d) => r.push((thr, d)),
                                Unlock::AtReset => {
                                    return Err(format!("Password row `count {op} {n}` unlocks at reset_at; only the final else may"))
                                }
                            }
                            match &i.else_branch {
                                Some((_, eb)) => e = eb,
                                None => return Err("Password if-chain without final else".into()),
                            }
                        }
                        syn::Expr::Block(bb) => {
                            let (reset, unlock) = locked_literal(only_expr(&bb.block)?)?;
                            if reset.is_some() {
                                return Err("Password else overrides reset_at".into());
                            }
                            match unlock_of(&unlock)? {
                                Unlock::AtReset => break,
                                Unlock::Delay(d) => {
                                    return Err(format!("Password final else is a delay of {d}s, expected `unlock_at: reset_at`"))
                                }
                            }
                        }
                        o => return Err(format!("Password if-chain: unexpected `{}`", toks(o))),
                    }
                }
                rows = Some(r);
            }
            "CredSoftLockPolicy :: Totp (step)" => {
                let b = arm_block(arm)?;
                if b.stmts.len() != 4 {
                    return Err(format!("Totp arm: expected 3 lets + if, found {} statements", b.stmts.len()));
                }
                check_window_lets(&b.stmts[..3], "next_window_end", "step")?;
                let i = match &b.stmts[3] {
                    syn::Stmt::Expr(syn::Expr::If(i), None) => i,
                    o => return Err(format!("Totp arm tail: `{}`", toks(o))),
                };
                let (op, n) = count_cmp(&i.cond)?;
                let cap = match op {
                    ">=" => n,
                    ">" => n + 1,
                    o => return Err(format!("Totp condition uses `count {o} {n}`")),
                };
                let (r1, u1) = locked_literal(only_expr(&i.then_branch)?)?;
                let eb = match &i.else_branch {
                    Some((_, eb)) => match &**eb {
                        syn::Expr::Block(bb) => &bb.block,
                        o => return Err(format!("Totp else: `{}`", toks(o))),
                    },
                    None => return Err("Totp if without else".into()),
                };
                let (r2, u2) = locked_literal(only_expr(eb)?)?;
                if r1.is_some() || r2.is_some() {
                    return Err("Totp arm overrides reset_at".into());
                }
                match (unlock_of(&u1)?, unlock_of(&u2)?) {
                    (Unlock::AtReset, Unlock::Delay(d)) => totp = Some((cap, d)),
                    _ => return Err("Totp arm: expected then → reset_at, else → ct + delay".into()),
                }
            }
            "CredSoftLockPolicy :: Webauthn" => {
                let b = arm_block(arm)?;
                let (reset, unlock) = locked_literal(only_expr(b)?)?;
                let reset = reset.ok_or("Webauthn arm: reset_at not given explicitly")?;
                wan = Some((ct_plus_secs(&reset)?, ct_plus_secs(&unlock)?));
            }
            "CredSoftLockPolicy :: Unrestricted" => {
                let b = arm_block(arm)?;
                if toks(only_expr(b)?) != "LockState :: Init" {
                    return Err(format!("Unrestricted arm is not `LockState::Init`: `{}`", toks(b)));
                }
                unrestricted = true;
            }
            o => return Err(format!("unknown policy arm `{o}`")),
        }
    }
    let rows = rows.ok_or("no Password arm")?;
    let (totp_cap, totp_delay) = totp.ok_or("no Totp arm")?;
    let (wan_reset, wan_unlock) = wan.ok_or("no Webauthn arm")?;
    if !unrestricted {
        return Err("no Unrestricted arm".into());
    }
    if rows.is_empty() {
        return Err("Password arm has no rows".into());
    }

    // ---- apply_time_step comparisons
    let f = find_fn(&ast, "CredSoftLock::apply_time_step")?;
    let conds = if_conditions(&f.block);
    let cs: Vec<String> = conds.iter().map(toks).collect();
    if conds.len() != 6 || cs[0] != "let Some (expiry) = expire_at" {
        return Err(format!("apply_time_step: expected `if let Some(expiry) = expire_at` + 5 comparisons, found {cs:?}"));
    }
    let v = vars(&[
        ("self.last_expire_at", "last"),
        ("expiry", "expiry"),
        ("reset_at", "resetAt"),
        ("unlock_at", "unlockAt"),
        ("ct", "ct"),
    ]);
    let names = [
        ("expiryChanged", "(last expiry : Nat)", vec!["last", "expiry"]),
        ("resetBeyondExpiry", "(resetAt expiry : Nat)", vec!["resetAt", "expiry"]),
        ("lockedResets", "(ct resetAt : Nat)", vec!["ct", "resetAt"]),
        ("lockedUnlocks", "(ct unlockAt : Nat)", vec!["ct", "unlockAt"]),
        ("unlockedResets", "(ct resetAt : Nat)", vec!["ct", "resetAt"]),
    ];
    let mut cmp_defs = String::new();
    for (c, (name, binders, operands)) in conds[1..].iter().zip(names.iter()) {
        let lean = lean_expr(c, &v)?;
        // every comparison must be between exactly the two operands the model passes
        for o in operands {
            if !lean.contains(o) {
                return Err(format!("apply_time_step: comparison `{}` (slot {name}) does not mention {o}", toks(c)));
            }
        }
        if !matches!(c, syn::Expr::Binary(_)) {
            return Err(format!("apply_time_step: `{}` is not a comparison", toks(c)));
        }
        cmp_defs += &format!("/-- `{}` -/\ndef {name} {binders} : Bool := {lean}\n", toks(c));
    }

    // ---- record_failure: count handed to failure_next_state per arm
    let f = find_fn(&ast, "CredSoftLock::record_failure")?;
    let m = f
        .block
        .stmts
        .iter()
        .find_map(|s| match s {
            syn::Stmt::Local(l) => match l.init.as_ref().map(|i| &*i.expr) {
                Some(syn::Expr::Match(m)) if toks(&m.expr) == "self . state" => Some(m),
                _ => None,
            },
            _ => None,
        })
        .ok_or("record_failure: `let mut next_state = match self.state {..}` not found")?;
    if f.block.stmts.len() != 2
        || toks(&f.block.stmts[1]) != "std :: mem :: swap (& mut self . state , & mut next_state) ;"
    {
        return Err("record_failure: expected `let next_state = match ..; swap(..)`".into());
    }
    let cv = vars(&[("count", "count")]);
    let mut fail_counts: Vec<(String, String)> = vec![];
    for arm in &m.arms {
        let pat = toks(&arm.pat);
        let kind = if pat == "LockState :: Init" {
            "Init"
        } else if pat.starts_with("LockState :: Locked {") {
            if !pat.contains("count ,") {
                return Err(format!("record_failure Locked pattern does not bind count: `{pat}`"));
            }
            "Locked"
        } else if pat.starts_with("LockState :: Unlocked (count ,") {
            "Unlocked"
        } else {
            return Err(format!("record_failure: unknown arm `{pat}`"));
        };
        let body = match &*arm.body {
            syn::Expr::Block(b) => only_expr(&b.block)?,
            o => o,
        };
        let call = match body {
            syn::Expr::MethodCall(c)
                if c.method == "failure_next_state"
                    && toks(&c.receiver) == "self . policy"
                    && c.args.len() == 2
                    && toks(&c.args[1]) == "ct" =>
            {
                c
            }
            o => return Err(format!("record_failure {kind} arm: `{}`", toks(o))),
        };
        fail_counts.push((kind.to_string(), lean_expr(&call.args[0], &cv)?));
    }
    let kinds: Vec<&str> = fail_counts.iter().map(|x| x.0.as_str()).collect();
    if kinds != ["Init", "Locked", "Unlocked"] {
        return Err(format!("record_failure arms: {kinds:?}"));
    }

    // ---- is_valid
    let f = find_fn(&ast, "CredSoftLock::is_valid")?;
    let iv = toks(&f.block);
    if iv != "{ ! matches ! (self . state , LockState :: Locked { .. }) }" {
        return Err(format!("is_valid changed: `{iv}`"));
    }

    let rows_s = rows.iter().map(|(t, d)| format!("({t}, {d})")).collect::<Vec<_>>().join(", ");
    let mut body = String::from("namespace Kanidm.Gen.SoftLock\n");
    body += &format!("/-- `const ONEDAY: u64` (seconds): the Password reset window. -/\ndef oneDay : Nat := {oneday}\n");
    body += &format!(
        "/-- Password arm, in source order: `count < T` ↦ `unlock_at: ct + from_secs(D)` as `(T, D)`;\nthe final `else` is `unlock_at: reset_at`. -/\ndef passwordRows : List (Nat × Nat) := [{rows_s}]\n"
    );
    body += &format!("/-- Totp arm: `count >= totpCap` ↦ `unlock_at: reset_at`, else `ct + from_secs(totpDelay)`. -/\ndef totpCap : Nat := {totp_cap}\ndef totpDelay : Nat := {totp_delay}\n");
    body += &format!("/-- Webauthn arm: `reset_at: ct + from_secs(_)`, `unlock_at: ct + from_secs(_)`. -/\ndef webauthnReset : Nat := {wan_reset}\ndef webauthnUnlock : Nat := {wan_unlock}\n");
    body += &format!("/-- `failure_next_state` post-processing of a `Locked` state: when this holds, `reset_at := unlock_at`.\nSource guard: `{clamp_src}` -/\ndef clampResets (resetAt unlockAt : Nat) : Bool := {clamp_lean}\n");
    body += "/-! `apply_time_step` comparisons, in source order. -/\n";
    body += &cmp_defs;
    body += "/-! `record_failure`: the count handed to `failure_next_state` by each arm. -/\n";
    body += &format!("def failCountInit : Nat := {}\n", fail_counts[0].1);
    body += &format!("def failCountLocked (count : Nat) : Nat := {}\n", fail_counts[1].1);
    body += &format!("def failCountUnlocked (count : Nat) : Nat := {}\n", fail_counts[2].1);
    body += "end Kanidm.Gen.SoftLock\n";
    write_generated(out, "SoftLockTable", &format!("{rel} (ONEDAY, failure_next_state, apply_time_step, record_failure, is_valid)"), &body)?;
    Ok(format!(
        "SoftLockTable: ONEDAY={oneday} password rows={rows_s} totp=({totp_cap},{totp_delay}) webauthn=({wan_reset},{wan_unlock})"
    ))
}

// ---------------------------------------------------------------------------------------------
// `softlock-policy`: `Credential::softlock_policy` (credential/mod.rs) as a decision tree per
// `CredentialType` variant, plus the source of the TOTP step (`.min()`/`.max()` over `t.step`,
// `unwrap_or(TOTP_DEFAULT_STEP)`).

/// Decision tree of one match arm.
enum PTree {
    Leaf(&'static str),
    If(&'static str, Box<PTree>, Box<PTree>),
}

impl PTree {
    fn lean(&self) -> String {
        match self {
            PTree::Leaf(k) => format!("(.leaf .{k})"),
            PTree::If(c, t, e) => format!("(.ite .{c} {} {})", t.lean(), e.lean()),
        }
    }
    fn uses_totp_leaf(&self) -> bool {
        match self {
            PTree::Leaf(k) => *k == "totpStep",
            PTree::If(_, t, e) => t.uses_totp_leaf() || e.uses_totp_leaf(),
        }
    }
    fn has_cond(&self) -> bool {
        matches!(self, PTree::If(..))
    }
}

fn lower_first(s: &str) -> String {
    let mut c = s.chars();
    match c.next() {
        Some(f) => f.to_lowercase().collect::<String>() + c.as_str(),
        None => String::new(),
    }
}

/// `pick`: Some(true) = `.min()`, Some(false) = `.max()` once a `let min_step = …` was seen.
fn policy_tree(e: &syn::Expr, mfa: bool, pick: &mut Option<bool>) -> Result<PTree, String> {
    match e {
        syn::Expr::Block(b) => policy_block(&b.block, mfa, pick),
        syn::Expr::If(i) => {
            if !mfa {
                return Err(format!("condition in an arm that binds neither totp nor wan: `{}`", toks(&i.cond)));
            }
            let c = match toks(&i.cond).as_str() {
                "! totp . is_empty ()" => "totpNonEmpty",
                "! wan . is_empty ()" => "wanNonEmpty",
                "totp . is_empty ()" => "totpEmpty",
                "wan . is_empty ()" => "wanEmpty",
                o => return Err(format!("softlock_policy: unknown condition `{o}`")),
            };
            let t = policy_block(&i.then_branch, mfa, pick)?;
            let e = match &i.else_branch {
                Some((_, eb)) => policy_tree(eb, mfa, pick)?,
                None => return Err("softlock_policy: if without else".into()),
            };
            Ok(PTree::If(c, Box::new(t), Box::new(e)))
        }
        syn::Expr::Path(_) => match path_string(e).as_deref() {
            Some("CredSoftLockPolicy::Password") => Ok(PTree::Leaf("password")),
            Some("CredSoftLockPolicy::Webauthn") => Ok(PTree::Leaf("webauthn")),
            Some("CredSoftLockPolicy::Unrestricted") => Ok(PTree::Leaf("unrestricted")),
            o => Err(format!("softlock_policy: unknown policy `{o:?}`")),
        },
        syn::Expr::Call(c) if path_string(&c.func).as_deref() == Some("CredSoftLockPolicy::Totp") => {
            if c.args.len() != 1 || path_string(&c.args[0]).as_deref() != Some("min_step") || pick.is_none() {
                return Err(format!("softlock_policy: Totp step is not the `min_step` computed from the tokens: `{}`", toks(e)));
            }
            Ok(PTree::Leaf("totpStep"))
        }
        o => Err(format!("softlock_policy: unexpected expression `{}`", toks(o))),
    }
}

fn policy_block(b: &syn::Block, mfa: bool, pick: &mut Option<bool>) -> Result<PTree, String> {
    match b.stmts.as_slice() {
        [syn::Stmt::Expr(e, None)] => policy_tree(e, mfa, pick),
        [l @ syn::Stmt::Local(_), syn::Stmt::Expr(e, None)] if mfa => {
            let got = toks(l);
            let shape = |m: &str| {
                format!("let min_step = totp . iter () . map (| (_ , t) | t . step) . {m} () . unwrap_or (TOTP_DEFAULT_STEP) ;")
            };
            let p = if got == shape("min") {
                true
            } else if got == shape("max") {
                false
            } else {
                return Err(format!("softlock_policy: step computation changed: `{got}`"));
            };
            if pick.is_some() && *pick != Some(p) {
                return Err("softlock_policy: two different step computations".into());
            }
            *pick = Some(p);
            match policy_tree(e, mfa, pick)? {
                t @ PTree::Leaf("totpStep") => Ok(t),
                _ => Err("softlock_policy: `min_step` computed but the block does not end in `Totp(min_step)`".into()),
            }
        }
        _ => Err(format!("softlock_policy: unexpected block `{}`", toks(b))),
    }
}

fn softlock_policy(repo: &str, out: &str) -> Result<String, String> {
    let rel = "server/lib/src/credential/mod.rs";
    let ast = parse_file(repo, rel)?;
    // ---- enum CredentialType: variants in declaration order, PasswordMfa field types
    let en = ast
        .items
        .iter()
        .find_map(|i| match i {
            syn::Item::Enum(e) if e.ident == "CredentialType" => Some(e),
            _ => None,
        })
        .ok_or("enum CredentialType not found")?;
    let variants: Vec<String> = en.variants.iter().map(|v| v.ident.to_string()).collect();
    let mfa_fields: Vec<String> = en
        .variants
        .iter()
        .find(|v| v.ident == "PasswordMfa")
        .ok_or("CredentialType::PasswordMfa not found")?
        .fields
        .iter()
        .map(|f| toks(&f.ty))
        .collect();
    if mfa_fields.len() != 4 || mfa_fields[1] != "HashMap < String , Totp >" || !mfa_fields[2].starts_with("HashMap < String ,") {
        return Err(format!("CredentialType::PasswordMfa fields changed: {mfa_fields:?}"));
    }
    // ---- TOTP_DEFAULT_STEP and `step` field of Totp
    let tast = parse_file(repo, "server/lib/src/credential/totp.rs")?;
    let default_step = eval_int(&find_const(&tast, "TOTP_DEFAULT_STEP").ok_or("const TOTP_DEFAULT_STEP not found")?, &|_| None)?;

    // ---- softlock_policy
    let f = find_fn(&ast, "Credential::softlock_policy")?;
    let args: Vec<String> = f.sig.inputs.iter().map(|a| toks(a)).collect();
    if args != ["& self"] || toks(&f.sig.output) != "-> CredSoftLockPolicy" {
        return Err(format!("softlock_policy signature changed: {args:?} {}", toks(&f.sig.output)));
    }
    let m = match only_expr(&f.block)? {
        syn::Expr::Match(m) if toks(&m.expr) == "& self . type_" => m,
        o => return Err(format!("softlock_policy is not `match &self.type_ {{..}}`: `{}`", toks(o))),
    };
    let mut trees: Vec<(String, PTree)> = vec![];
    let mut pick: Option<bool> = None;
    for arm in &m.arms {
        if arm.guard.is_some() {
            return Err("softlock_policy: guarded arm".into());
        }
        let pats: Vec<&syn::Pat> = match &arm.pat {
            syn::Pat::Or(o) => o.cases.iter().collect(),
            p => vec![p],
        };
        let mut names = vec![];
        let mut mfa = false;
        for p in pats {
            let ts = match p {
                syn::Pat::TupleStruct(ts) => ts,
                o => return Err(format!("softlock_policy: arm pattern `{}` is not a CredentialType variant", toks(o))),
            };
            let segs: Vec<String> = ts.path.segments.iter().map(|s| s.ident.to_string()).collect();
            if segs.len() != 2 || segs[0] != "CredentialType" {
                return Err(format!("softlock_policy: arm pattern `{}`", toks(p)));
            }
            if segs[1] == "PasswordMfa" {
                let binds: Vec<String> = ts.elems.iter().map(|e| toks(e)).collect();
                if binds.len() != 4 || binds[1] != "totp" || binds[2] != "wan" {
                    return Err(format!("softlock_policy: PasswordMfa pattern binds {binds:?}, expected (_, totp, wan, _)"));
                }
                mfa = true;
            }
            names.push(segs[1].clone());
        }
        if mfa && names.len() != 1 {
            return Err("softlock_policy: PasswordMfa shares an arm".into());
        }
        for n in names {
            let t = policy_tree(&arm.body, mfa, &mut pick)?;
            if !mfa && (t.has_cond() || t.uses_totp_leaf()) {
                return Err(format!("softlock_policy: arm {n} uses token data it does not bind"));
            }
            trees.push((n, t));
        }
    }
    let mut got: Vec<&str> = trees.iter().map(|x| x.0.as_str()).collect();
    let mut want: Vec<&str> = variants.iter().map(|s| s.as_str()).collect();
    got.sort();
    want.sort();
    if got != want {
        return Err(format!("softlock_policy arms {got:?} do not cover the variants of CredentialType {want:?} exactly once"));
    }
    let mut body = String::from("namespace Kanidm.Gen.SoftLockPolicy\n");
    body += "/-- Result of `softlock_policy` before the Totp step is filled in. -/\ninductive PolKind | password | totpStep | webauthn | unrestricted\n  deriving DecidableEq, Repr\n";
    body += "/-- Conditions on the `PasswordMfa(_, totp, wan, _)` maps. -/\ninductive Cond | totpNonEmpty | wanNonEmpty | totpEmpty | wanEmpty\n  deriving DecidableEq, Repr\n";
    body += "inductive Tree | leaf (k : PolKind) | ite (c : Cond) (t e : Tree)\n  deriving DecidableEq, Repr\n";
    body += "/-- `enum CredentialType`, variants in declaration order. -/\ninductive CredKind\n";
    for v in &variants {
        body += &format!("  | {}\n", lower_first(v));
    }
    body += "  deriving DecidableEq, Repr\n";
    body += "/-- `Credential::softlock_policy`: the body of the arm matching each variant. -/\ndef policyTree : CredKind → Tree\n";
    for v in &variants {
        let t = &trees.iter().find(|x| &x.0 == v).ok_or("internal")?.1;
        body += &format!("  | .{} => {}\n", lower_first(v), t.lean());
    }
    let pick = pick.ok_or("softlock_policy: no Totp step computation found")?;
    body += &format!("/-- `totp.iter().map(|(_, t)| t.step).{}()` : `true` = min, `false` = max. -/\ndef totpStepIsMin : Bool := {pick}\n", if pick { "min" } else { "max" });
    body += &format!("/-- `.unwrap_or(TOTP_DEFAULT_STEP)` -/\ndef totpDefaultStep : Nat := {default_step}\n");
    body += "end Kanidm.Gen.SoftLockPolicy\n";
    write_generated(out, "SoftLockPolicy", &format!("{rel} (enum CredentialType, Credential::softlock_policy) and credential/totp.rs (TOTP_DEFAULT_STEP)"), &body)?;
    Ok(format!(
        "SoftLockPolicy: {} step={} default={default_step}",
        trees.iter().map(|(n, t)| format!("{n}→{}", t.lean())).collect::<Vec<_>>().join(" "),
        if pick { "min" } else { "max" }
    ))
}
