//! C45 translator item `hostauthz-ops`: the decision-carrying tokens of the host-login
//! authorisation path of the unix resolver are re-read from the source and emitted as Lean defs
//! (`lean/KanidmModel/Generated/HostAuthzOps.lean`):
//!
//! * `KanidmProvider::unix_user_authorise` (idprovider/kanidm.rs): the empty-list guard and its
//!   answer, the keys a group contributes to the user set, the two sets that are intersected,
//!   the final boolean expression;
//! * `SystemProvider::authorise` (idprovider/system.rs): the membership test and both answers;
//! * `Resolver::pam_account_allowed` (resolver.rs): system short-circuit first, token lookup,
//!   provider lookup by `token.provider`, delegation to `unix_user_authorise(&token)`, the
//!   answer when there is no token;
//! * `Resolver::get_usertoken` / `refresh_usertoken` (resolver.rs): when a refresh happens and
//!   which record each `UserTokenState` selects;
//! * `KanidmProvider::unix_user_get` (idprovider/kanidm.rs): the offline early return, and per
//!   reply class of the directory the resulting `UserTokenState` and `CacheState` assignment,
//!   incl. the (status, OperationError) shapes that mean "record is gone".
//!
//! Any shape not recognised is an `Err` (never a guess).
use super::vars;
use crate::util::*;
use quote::ToTokens;
use syn::{Expr, Pat, Stmt};

pub fn run(item: &str, repo: &str, out: &str) -> Option<Result<String, String>> {
    match item {
        "hostauthz-ops" => Some(hostauthz_ops(repo, out)),
        _ => None,
    }
}

fn ts<T: ToTokens>(t: &T) -> String {
    t.to_token_stream().to_string()
}
fn norm<T: ToTokens>(t: &T) -> String {
    ts(t).chars().filter(|c| !c.is_whitespace()).collect()
}
fn lower_camel(s: &str) -> String {
    let mut c = s.chars();
    match c.next() {
        Some(f) => f.to_lowercase().collect::<String>() + c.as_str(),
        None => String::new(),
    }
}
fn strip(e: &Expr) -> &Expr {
    match e {
        Expr::Paren(p) => strip(&p.expr),
        Expr::Group(g) => strip(&g.expr),
        Expr::Reference(r) => strip(&r.expr),
        _ => e,
    }
}

const LOG_MACROS: [&str; 5] = ["trace", "debug", "info", "warn", "error"];

fn is_log_macro(m: &syn::Macro) -> bool {
    m.path.segments.last().map(|s| LOG_MACROS.contains(&s.ident.to_string().as_str())).unwrap_or(false)
}

/// A statement that only logs: `warn!(..);` or `if <cond> { <only logging> }` without else.
fn only_logs(st: &Stmt) -> bool {
    match st {
        Stmt::Macro(m) => is_log_macro(&m.mac),
        Stmt::Expr(Expr::Macro(m), _) => is_log_macro(&m.mac),
        Stmt::Expr(Expr::If(i), _) => i.else_branch.is_none() && i.then_branch.stmts.iter().all(only_logs),
        _ => false,
    }
}

/// The value expression of a block: its last statement must be an expression without `;`,
/// everything before it must be logging or one of the `let`s handed to `on_local`.
fn block_tail<'a>(
    what: &str,
    b: &'a syn::Block,
    on_local: &mut dyn FnMut(&'a syn::Local) -> Result<(), String>,
) -> Result<&'a Expr, String> {
    let n = b.stmts.len();
    let mut tail = None;
    for (i, st) in b.stmts.iter().enumerate() {
        match st {
            Stmt::Local(l) => on_local(l)?,
            Stmt::Expr(e, None) if i + 1 == n => tail = Some(e),
            st if only_logs(st) => {}
            other => return Err(format!("{what}: unrecognised statement `{}`", ts(other))),
        }
    }
    tail.ok_or_else(|| format!("{what}: block has no value expression"))
}

/// `Some(true)` / `Some(false)` / `None` ↦ Lean `Option Bool` literal.
fn opt_bool(what: &str, e: &Expr) -> Result<String, String> {
    match norm(strip(e)).as_str() {
        "Some(true)" => Ok("some true".into()),
        "Some(false)" => Ok("some false".into()),
        "None" => Ok("none".into()),
        o => Err(format!("{what}: expected Some(true)/Some(false)/None, found `{o}`")),
    }
}

/// `Ok(<inner>)` ↦ inner
fn ok_inner<'a>(what: &str, e: &'a Expr) -> Result<&'a Expr, String> {
    if let Expr::Call(c) = strip(e) {
        if path_string(&c.func).as_deref() == Some("Ok") && c.args.len() == 1 {
            return Ok(&c.args[0]);
        }
    }
    Err(format!("{what}: expected `Ok(..)`, found `{}`", ts(e)))
}
/// `Some(<inner>)` ↦ inner
fn some_inner<'a>(what: &str, e: &'a Expr) -> Result<&'a Expr, String> {
    if let Expr::Call(c) = strip(e) {
        if path_string(&c.func).as_deref() == Some("Some") && c.args.len() == 1 {
            return Ok(&c.args[0]);
        }
    }
    Err(format!("{what}: expected `Some(..)`, found `{}`", ts(e)))
}

fn status_code(name: &str) -> Result<u32, String> {
    Ok(match name {
        "OK" => 200,
        "BAD_REQUEST" => 400,
        "UNAUTHORIZED" => 401,
        "FORBIDDEN" => 403,
        "NOT_FOUND" => 404,
        "CONFLICT" => 409,
        "GONE" => 410,
        "INTERNAL_SERVER_ERROR" => 500,
        "SERVICE_UNAVAILABLE" => 503,
        o => return Err(format!("unknown StatusCode::{o}")),
    })
}

/// What an arm of `unix_user_get` does: the `inner.state = ..` assignment (0 = none, 1 = offline
/// until a later time, 2 = check again now) and the `UserTokenState` (or `err`) it yields.
fn arm_effect(what: &str, body: &Expr, states: &[String]) -> Result<(u32, String), String> {
    let block = match body {
        Expr::Block(b) => b.block.clone(),
        e => syn::Block { brace_token: Default::default(), stmts: vec![Stmt::Expr(e.clone(), None)] },
    };
    let mut net = 0u32;
    let n = block.stmts.len();
    let mut tail = None;
    for (i, st) in block.stmts.iter().enumerate() {
        match st {
            Stmt::Expr(Expr::Assign(a), Some(_)) => {
                if norm(&a.left) != "inner.state" {
                    return Err(format!("{what}: assignment to `{}`", ts(&a.left)));
                }
                net = match norm(&a.right).as_str() {
                    "CacheState::OfflineNextCheck(next_offline_check(now))" | "CacheState::Offline" => 1,
                    "CacheState::OfflineNextCheck(now)" => 2,
                    o => return Err(format!("{what}: unrecognised state assignment `{o}`")),
                };
            }
            // `match reason { .. => warn!(..), .. };` — logging only
            Stmt::Expr(Expr::Match(m), Some(_)) => {
                for a in &m.arms {
                    match &*a.body {
                        Expr::Macro(mm) if is_log_macro(&mm.mac) => {}
                        o => return Err(format!("{what}: non-logging match arm `{}`", ts(o))),
                    }
                }
            }
            Stmt::Expr(e, None) if i + 1 == n => tail = Some(e.clone()),
            st if only_logs(st) => {}
            other => return Err(format!("{what}: unrecognised statement `{}`", ts(other))),
        }
    }
    let tail = tail.ok_or_else(|| format!("{what}: arm has no value"))?;
    let t = norm(&tail);
    let state = if let Some(rest) = t.strip_prefix("Ok(UserTokenState::") {
        let name = rest.trim_end_matches(')');
        let name = name.split('(').next().unwrap_or("");
        if !states.iter().any(|s| s == name) {
            return Err(format!("{what}: UserTokenState::{name} is not a variant"));
        }
        lower_camel(name)
    } else if t.starts_with("Err(IdpError::") {
        "err".to_string()
    } else {
        return Err(format!("{what}: arm value `{t}`"));
    };
    Ok((net, state))
}

fn hostauthz_ops(repo: &str, out: &str) -> Result<String, String> {
    let rel_k = "unix_integration/resolver_common/src/idprovider/kanidm.rs";
    let rel_s = "unix_integration/resolver_common/src/idprovider/system.rs";
    let rel_r = "unix_integration/resolver_common/src/resolver.rs";
    let rel_i = "unix_integration/resolver_common/src/idprovider/interface.rs";
    let ast_k = parse_file(repo, rel_k)?;
    let ast_s = parse_file(repo, rel_s)?;
    let ast_r = parse_file(repo, rel_r)?;
    let ast_i = parse_file(repo, rel_i)?;

    // ---- enum UserTokenState ----------------------------------------------------------------
    let mut states: Vec<String> = vec![];
    for it in &ast_i.items {
        if let syn::Item::Enum(e) = it {
            if e.ident == "UserTokenState" {
                states = e.variants.iter().map(|v| v.ident.to_string()).collect();
            }
        }
    }
    if states.is_empty() {
        return Err("enum UserTokenState not found".into());
    }

    // ---- KanidmProvider::unix_user_authorise -------------------------------------------------
    let f = find_fn(&ast_k, "KanidmProvider::unix_user_authorise")?;
    let what = "unix_user_authorise";
    let mut saw_lock = false;
    let tail = block_tail(what, &f.block, &mut |l| {
        if norm(&l.pat) == "inner" && l.init.as_ref().map(|i| norm(&i.expr)).as_deref() == Some("self.inner.lock().await") {
            saw_lock = true;
            Ok(())
        } else {
            Err(format!("{what}: unexpected binding `{}`", ts(l)))
        }
    })?;
    if !saw_lock {
        return Err(format!("{what}: `let inner = self.inner.lock().await` not found"));
    }
    let iff = match tail {
        Expr::If(i) => i,
        o => return Err(format!("{what}: body value is not an if/else: `{}`", ts(o))),
    };
    let guard_src = ts(&*iff.cond);
    let guard = lean_expr(&iff.cond, &vars(&[("inner.pam_allow_groups.is_empty()", "allowEmpty")]))
        .map_err(|e| format!("{what}: guard: {e}"))?;
    let then_tail = block_tail(what, &iff.then_branch, &mut |l| Err(format!("{what}: binding in the empty-list branch `{}`", ts(l))))?;
    let empty_answer = opt_bool(what, ok_inner(what, then_tail)?)?;
    let else_block = match iff.else_branch.as_ref().map(|(_, e)| &**e) {
        Some(Expr::Block(b)) => &b.block,
        _ => return Err(format!("{what}: no plain else block")),
    };
    let mut keys: Option<(Vec<String>, String)> = None;
    let mut inter_ok = false;
    let else_tail = block_tail(what, else_block, &mut |l| {
        let init = l.init.as_ref().ok_or_else(|| format!("{what}: let without initialiser"))?;
        let (pat, ty) = match &l.pat {
            Pat::Type(t) => (norm(&t.pat), norm(&t.ty)),
            p => (norm(p), String::new()),
        };
        match pat.as_str() {
            "user_set" => {
                if !ty.starts_with("BTreeSet<") {
                    return Err(format!("{what}: user_set is collected into `{ty}`, expected a BTreeSet"));
                }
                // token.groups.iter().flat_map(|g| [..]).collect()
                let coll = match strip(&init.expr) {
                    Expr::MethodCall(m) if m.method == "collect" && m.args.is_empty() => m,
                    o => return Err(format!("{what}: user_set built by `{}`", ts(o))),
                };
                let fm = match strip(&coll.receiver) {
                    Expr::MethodCall(m) if m.method == "flat_map" && m.args.len() == 1 => m,
                    o => return Err(format!("{what}: user_set built by `{}`", ts(o))),
                };
                if norm(&fm.receiver) != "token.groups.iter()" {
                    return Err(format!("{what}: user_set iterates `{}`", ts(&fm.receiver)));
                }
                let cl = match &fm.args[0] {
                    Expr::Closure(c) => c,
                    o => return Err(format!("{what}: flat_map argument `{}`", ts(o))),
                };
                let arg = match cl.inputs.iter().collect::<Vec<_>>().as_slice() {
                    [Pat::Ident(p)] => p.ident.to_string(),
                    _ => return Err(format!("{what}: closure must take one plain argument")),
                };
                let arr = match strip(&cl.body) {
                    Expr::Array(a) => a,
                    o => return Err(format!("{what}: closure body is not an array: `{}`", ts(o))),
                };
                let mut ks = vec![];
                for el in &arr.elems {
                    let p = norm(el);
                    let k = if p == format!("{arg}.name.clone()") || p == format!("{arg}.name.to_string()") {
                        "name"
                    } else if p == format!("{arg}.uuid.hyphenated().to_string()") || p == format!("{arg}.uuid.as_hyphenated().to_string()") {
                        "uuid"
                    } else {
                        return Err(format!("{what}: unrecognised group key `{}`", ts(el)));
                    };
                    ks.push(k.to_string());
                }
                keys = Some((ks, ts(&*cl.body)));
                Ok(())
            }
            "intersection_count" => {
                let n = norm(&init.expr);
                inter_ok = n == "user_set.intersection(&inner.pam_allow_groups).count()"
                    || n == "inner.pam_allow_groups.intersection(&user_set).count()";
                if inter_ok {
                    Ok(())
                } else {
                    Err(format!("{what}: intersection_count is `{}`", ts(&init.expr)))
                }
            }
            p => Err(format!("{what}: unexpected binding `{p}`")),
        }
    })?;
    let (keys, keys_src) = keys.ok_or_else(|| format!("{what}: user_set not found"))?;
    if !inter_ok {
        return Err(format!("{what}: intersection_count not found"));
    }
    let decision_e = some_inner(what, ok_inner(what, else_tail)?)?;
    let decision_src = ts(decision_e);
    let decision = lean_expr(decision_e, &vars(&[("intersection_count", "count"), ("token.valid", "valid")]))
        .map_err(|e| format!("{what}: decision: {e}"))?;

    // the allow set is the configured list, nothing else
    let f = find_fn(&ast_k, "KanidmProvider::new")?;
    let allow_from_cfg = f.block.stmts.iter().any(|s| norm(s) == "letpam_allow_groups=config.pam_allowed_login_groups.iter().cloned().collect();");
    if !allow_from_cfg {
        return Err("KanidmProvider::new: `let pam_allow_groups = config.pam_allowed_login_groups.iter().cloned().collect();` not found".into());
    }

    // ---- SystemProvider::authorise -----------------------------------------------------------
    let f = find_fn(&ast_s, "SystemProvider::authorise")?;
    let what = "SystemProvider::authorise";
    let tail = block_tail(what, &f.block, &mut |l| {
        if norm(&l.pat) == "inner" { Ok(()) } else { Err(format!("{what}: unexpected binding `{}`", ts(l))) }
    })?;
    let (sys_known, sys_unknown) = match tail {
        Expr::If(i) => {
            if norm(&*i.cond) != "inner.users.contains_key(account_id)" {
                return Err(format!("{what}: condition `{}`", ts(&*i.cond)));
            }
            let t = block_tail(what, &i.then_branch, &mut |_| Err("binding".into()))?;
            let e = match i.else_branch.as_ref().map(|(_, e)| &**e) {
                Some(Expr::Block(b)) => block_tail(what, &b.block, &mut |_| Err("binding".into()))?,
                _ => return Err(format!("{what}: no else block")),
            };
            (opt_bool(what, t)?, opt_bool(what, e)?)
        }
        o => return Err(format!("{what}: body `{}`", ts(o))),
    };

    // ---- Resolver::pam_account_allowed --------------------------------------------------------
    let f = find_fn(&ast_r, "Resolver::pam_account_allowed")?;
    let what = "pam_account_allowed";
    let st: Vec<String> = f.block.stmts.iter().map(norm).collect();
    let expect = [
        "letcurrent_time=SystemTime::now();",
        "letid=Id::Name(account_id.to_string());",
        "ifletSome(answer)=self.system_provider.authorise(&id).await{returnOk(Some(answer));};",
        "lettoken=self.get_usertoken(&id,current_time).await?;",
    ];
    if st.len() != 5 {
        return Err(format!("{what}: expected 5 statements, found {}", st.len()));
    }
    for (i, e) in expect.iter().enumerate() {
        if st[i] != *e {
            return Err(format!("{what}: statement {i} is `{}`, expected `{e}`", st[i]));
        }
    }
    let m = match f.block.stmts.last() {
        Some(Stmt::Expr(Expr::Match(m), None)) if norm(&*m.expr) == "token" => m,
        _ => return Err(format!("{what}: tail is not `match token`")),
    };
    let mut no_token = None;
    let mut some_ok = false;
    for arm in &m.arms {
        if arm.guard.is_some() {
            return Err(format!("{what}: guarded arm"));
        }
        match norm(&arm.pat).as_str() {
            "None" => no_token = Some(opt_bool(what, ok_inner(what, &arm.body)?)?),
            "Some(token)" => {
                let b = match &*arm.body {
                    Expr::Block(b) => &b.block,
                    o => return Err(format!("{what}: Some arm `{}`", ts(o))),
                };
                let mut client_ok = false;
                let tail = block_tail(what, b, &mut |l| {
                    let init = l.init.as_ref().map(|i| norm(&i.expr)).unwrap_or_default();
                    if norm(&l.pat) == "client"
                        && init.starts_with("self.client_ids.get(&token.provider).cloned().ok_or_else(")
                        && init.ends_with(")?")
                    {
                        client_ok = true;
                        Ok(())
                    } else {
                        Err(format!("{what}: unexpected binding `{}`", ts(l)))
                    }
                })?;
                let t = norm(tail);
                some_ok = client_ok && t.starts_with("client.unix_user_authorise(&token).await.map_err(");
                if !some_ok {
                    return Err(format!("{what}: Some arm does not delegate to client.unix_user_authorise(&token): `{t}`"));
                }
            }
            p => return Err(format!("{what}: unexpected arm `{p}`")),
        }
    }
    let no_token = no_token.ok_or_else(|| format!("{what}: no None arm"))?;
    if !some_ok {
        return Err(format!("{what}: no Some(token) arm"));
    }

    // ---- Resolver::get_usertoken ---------------------------------------------------------------
    let f = find_fn(&ast_r, "Resolver::get_usertoken")?;
    let what = "get_usertoken";
    let tail = match f.block.stmts.last() {
        Some(Stmt::Expr(e, None)) => e,
        _ => return Err(format!("{what}: no tail expression")),
    };
    // `if expiry_state == ExpiryState::Expired { refresh } else { .. Ok(item) }.map(..)`
    let iff = match strip(tail) {
        Expr::MethodCall(m) if m.method == "map" => match strip(&m.receiver) {
            Expr::If(i) => i.clone(),
            o => return Err(format!("{what}: `{}`", ts(o))),
        },
        Expr::If(i) => i.clone(),
        o => return Err(format!("{what}: `{}`", ts(o))),
    };
    if norm(&*iff.cond) != "expiry_state==ExpiryState::Expired" {
        return Err(format!("{what}: refresh condition `{}`", ts(&*iff.cond)));
    }
    if norm(&iff.then_branch) != "{self.refresh_usertoken(account_id,current_time).await}" {
        return Err(format!("{what}: refresh branch `{}`", ts(&iff.then_branch)));
    }
    match iff.else_branch.as_ref().map(|(_, e)| &**e) {
        Some(Expr::Block(b)) if matches!(b.block.stmts.last(), Some(Stmt::Expr(e, None)) if norm(e) == "Ok(item)") => {}
        _ => return Err(format!("{what}: cached branch does not end in Ok(item)")),
    }

    // ---- Resolver::refresh_usertoken -----------------------------------------------------------
    let f = find_fn(&ast_r, "Resolver::refresh_usertoken")?;
    let what = "refresh_usertoken";
    let m = match f.block.stmts.last() {
        Some(Stmt::Expr(Expr::Match(m), None)) if norm(&*m.expr) == "user_get_result" => m,
        _ => return Err(format!("{what}: tail is not `match user_get_result`")),
    };
    let mut actions: Vec<(String, String)> = vec![];
    for arm in &m.arms {
        if arm.guard.is_some() {
            return Err(format!("{what}: guarded arm"));
        }
        let p = norm(&arm.pat);
        let (state, binding) = if p == "Err(err)" || p == "Err(_)" || p == "Err(e)" {
            ("err".to_string(), None)
        } else if let Some(rest) = p.strip_prefix("Ok(UserTokenState::") {
            let rest = rest.strip_suffix(')').unwrap_or(rest);
            let (name, bind) = match rest.split_once('(') {
                Some((n, b)) => (n, Some(b.trim_end_matches(')').trim_start_matches("mut").to_string())),
                None => (rest, None),
            };
            if !states.iter().any(|s| s == name) {
                return Err(format!("{what}: UserTokenState::{name} is not a variant"));
            }
            (lower_camel(name), bind)
        } else {
            return Err(format!("{what}: unexpected arm `{p}`"));
        };
        let body = norm(&arm.body);
        let tailv = match &*arm.body {
            Expr::Block(b) => match b.block.stmts.last() {
                Some(Stmt::Expr(e, None)) => norm(e),
                _ => return Err(format!("{what}: arm `{p}` has no value")),
            },
            e => norm(e),
        };
        let action = match (tailv.as_str(), binding) {
            ("Ok(token)", _) => "useCached",
            ("Ok(None)", _) => {
                if !(body.contains("self.delete_cache_usertoken(tok.uuid).await?") && body.contains("self.set_nxcache(account_id).await")) {
                    return Err(format!("{what}: the `Ok(None)` arm does not purge the row and set the nxcache"));
                }
                "purge"
            }
            (t, Some(b)) if t == format!("Ok(Some({b}))") => {
                if !body.contains(&format!("self.set_cache_usertoken(&mut{b},hsm_lock.deref_mut()).await?")) {
                    return Err(format!("{what}: the fresh token is not written to the cache"));
                }
                "useFresh"
            }
            (t, _) => return Err(format!("{what}: arm `{p}` yields `{t}`")),
        };
        actions.push((state, action.to_string()));
    }
    for s in states.iter().map(|s| lower_camel(s)).chain(["err".to_string()]) {
        if actions.iter().filter(|(a, _)| *a == s).count() != 1 {
            return Err(format!("{what}: state `{s}` is not handled by exactly one arm"));
        }
    }
    // a cached token whose provider is gone is treated as NotFound without asking anyone
    let body = norm(&f.block);
    if !body.contains("matchself.client_ids.get(&tok.provider){Some(client)=>{client.unix_user_get(account_id,token.as_ref(),hsm_lock.deref_mut(),current_time,).await}None=>{") {
        return Err(format!("{what}: provider lookup by `tok.provider` not in the expected shape"));
    }

    // ---- KanidmProvider::unix_user_get ---------------------------------------------------------
    let f = find_fn(&ast_k, "KanidmProvider::unix_user_get")?;
    let what = "unix_user_get";
    let mut offline_state = None;
    let mut the_match = None;
    for st in &f.block.stmts {
        match st {
            Stmt::Local(l) if norm(&l.pat) == "mutinner" => {}
            Stmt::Expr(Expr::If(i), _) if norm(&*i.cond) == "!inner.check_online(tpm,now).await" && i.else_branch.is_none() => {
                let b = norm(&i.then_branch);
                let name = b
                    .strip_prefix("{returnOk(UserTokenState::")
                    .and_then(|s| s.strip_suffix(");}"))
                    .ok_or_else(|| format!("{what}: offline branch `{b}`"))?;
                if !states.iter().any(|s| s == name) {
                    return Err(format!("{what}: UserTokenState::{name} is not a variant"));
                }
                offline_state = Some(lower_camel(name));
            }
            Stmt::Expr(Expr::Match(m), None) => the_match = Some(m.clone()),
            other => return Err(format!("{what}: unrecognised statement `{}`", ts(other))),
        }
    }
    let offline_state = offline_state.ok_or_else(|| format!("{what}: offline early return not found"))?;
    let m = the_match.ok_or_else(|| format!("{what}: no tail match"))?;
    if norm(&*m.expr) != "inner.client.idm_account_unix_token_get(id.to_string().as_str()).await" {
        return Err(format!("{what}: match scrutinee `{}`", ts(&*m.expr)));
    }
    if m.arms.len() != 5 {
        return Err(format!("{what}: expected 5 arms (Ok, Transport, UNAUTHORIZED, gone, catch-all), found {}", m.arms.len()));
    }
    // arm 0: Ok(tok) => Update(UserToken::from(tok))
    {
        let a = &m.arms[0];
        let b = norm(&a.body);
        if !(norm(&a.pat) == "Ok(tok)" && b.contains("letmutut=UserToken::from(tok);") && b.ends_with("Ok(UserTokenState::Update(ut))}")) {
            return Err(format!("{what}: first arm is not `Ok(tok) => .. Ok(UserTokenState::Update(ut))`"));
        }
    }
    let pats = [
        ("transport", "Err(ClientError::Transport(err))"),
        ("unauthorized", "Err(ClientError::Http(StatusCode::UNAUTHORIZED,reason,opid))"),
    ];
    let mut table: Vec<(String, u32, String)> = vec![];
    for (i, (name, pat)) in pats.iter().enumerate() {
        let a = &m.arms[i + 1];
        if norm(&a.pat) != *pat || a.guard.is_some() {
            return Err(format!("{what}: arm {} is `{}`, expected `{pat}`", i + 1, ts(&a.pat)));
        }
        let (net, state) = arm_effect(&format!("{what}/{name}"), &a.body, &states)?;
        table.push((name.to_string(), net, state));
    }
    // arm 3: or-pattern of Err(ClientError::Http(StatusCode::S, Some(OperationError::V[(_)]), opid))
    let mut shapes: Vec<(u32, String)> = vec![];
    {
        let a = &m.arms[3];
        if a.guard.is_some() {
            return Err(format!("{what}: guarded `gone` arm"));
        }
        let cases: Vec<&Pat> = match &a.pat {
            Pat::Or(o) => o.cases.iter().collect(),
            p => vec![p],
        };
        for c in cases {
            let p = norm(c).replace(",)", ")");
            let rest = p
                .strip_prefix("Err(ClientError::Http(StatusCode::")
                .and_then(|s| s.strip_suffix(",opid))"))
                .ok_or_else(|| format!("{what}: unrecognised `gone` pattern `{p}`"))?;
            let (status, oe) = rest.split_once(",Some(OperationError::").ok_or_else(|| format!("{what}: unrecognised `gone` pattern `{p}`"))?;
            let oe = oe.strip_suffix(')').ok_or_else(|| format!("{what}: unrecognised `gone` pattern `{p}`"))?;
            let variant = oe.strip_suffix("(_)").unwrap_or(oe);
            if !variant.chars().all(|c| c.is_ascii_alphanumeric()) {
                return Err(format!("{what}: unrecognised OperationError pattern `{oe}`"));
            }
            shapes.push((status_code(status)?, variant.to_lowercase()));
        }
        let (net, state) = arm_effect(&format!("{what}/gone"), &a.body, &states)?;
        table.push(("gone".into(), net, state));
    }
    {
        let a = &m.arms[4];
        if norm(&a.pat) != "Err(err)" || a.guard.is_some() {
            return Err(format!("{what}: last arm is `{}`, expected `Err(err)`", ts(&a.pat)));
        }
        let (net, state) = arm_effect(&format!("{what}/otherErr"), &a.body, &states)?;
        table.push(("otherErr".into(), net, state));
    }

    // ---- emit -----------------------------------------------------------------------------------
    let mut b = String::from("namespace Kanidm.Gen.HostAuthz\n");
    b += &format!("/-- unix_user_authorise: `if {guard_src}` (allowEmpty = `inner.pam_allow_groups.is_empty()`) -/\ndef emptyGuard (allowEmpty : Bool) : Bool := {guard}\n");
    b += &format!("/-- unix_user_authorise: the answer of the empty-list branch -/\ndef emptyAnswer : Option Bool := {empty_answer}\n");
    b += &format!(
        "/-- unix_user_authorise: what a group contributes to `user_set`: `{keys_src}` -/\ndef groupKeys (name uuid : Nat) : List Nat := [{}]\n",
        keys.join(", ")
    );
    b += &format!("/-- unix_user_authorise: `Ok(Some({decision_src}))` (count = `user_set ∩ pam_allow_groups`) -/\ndef decision (count : Nat) (valid : Bool) : Bool := {decision}\n");
    b += &format!("/-- SystemProvider::authorise: `if inner.users.contains_key(account_id)` then / else -/\ndef sysKnown : Option Bool := {sys_known}\ndef sysUnknown : Option Bool := {sys_unknown}\n");
    b += &format!("/-- pam_account_allowed: `None => Ok(..)` -/\ndef noTokenAnswer : Option Bool := {no_token}\n");
    b += "/-- `enum UserTokenState` (variants in source order) plus `err` for `Err(IdpError)`. -/\ninductive TokState where\n";
    for s in &states {
        b += &format!("  | {}\n", lower_camel(s));
    }
    b += "  | err\nderiving DecidableEq, Repr\n";
    b += "inductive RefreshAction where\n  | useFresh\n  | purge\n  | useCached\nderiving DecidableEq, Repr\n";
    b += "/-- refresh_usertoken: `match user_get_result`, arm by arm -/\ndef refreshAction : TokState → RefreshAction\n";
    for (s, a) in &actions {
        b += &format!("  | .{s} => .{a}\n");
    }
    b += &format!("/-- unix_user_get: `if !inner.check_online(..) {{ return Ok(..) }}` -/\ndef offlineState : TokState := .{offline_state}\n");
    b += "/-- unix_user_get: the non-token arms of the reply match, in source order -/\ninductive DirReply where\n";
    for (n, _, _) in &table {
        b += &format!("  | {n}\n");
    }
    b += "deriving DecidableEq, Repr\n";
    b += "def replyState : DirReply → TokState\n";
    for (n, _, s) in &table {
        b += &format!("  | .{n} => .{s}\n");
    }
    b += "/-- 0 = `inner.state` untouched, 1 = offline until a later time, 2 = `OfflineNextCheck(now)` -/\ndef replyNet : DirReply → Nat\n";
    for (n, net, _) in &table {
        b += &format!("  | .{n} => {net}\n");
    }
    b += &format!(
        "/-- unix_user_get: the (status, OperationError) shapes of the \"record is gone\" arm -/\ndef goneShapes : List (Nat × String) := [{}]\n",
        shapes.iter().map(|(s, v)| format!("({s}, \"{v}\")")).collect::<Vec<_>>().join(", ")
    );
    b += "/-- classification of an HTTP error reply (status, lower-cased OperationError variant or \"\") by the arm order above -/\n";
    b += "def classifyHttp (status : Nat) (oe : String) : DirReply :=\n  if status = 401 then .unauthorized else if goneShapes.contains (status, oe) then .gone else .otherErr\n";
    b += "end Kanidm.Gen.HostAuthz\n";
    write_generated(
        out,
        "HostAuthzOps",
        &format!("{rel_k} (unix_user_authorise, unix_user_get, new), {rel_s} (authorise), {rel_r} (pam_account_allowed, get_usertoken, refresh_usertoken), {rel_i} (UserTokenState)"),
        &b,
    )?;
    Ok(format!(
        "HostAuthzOps: guard `{guard}`, empty {empty_answer}, keys {keys:?}, decision `{decision}`, sys {sys_known}/{sys_unknown}, no-token {no_token}, {} refresh arms, {} gone shapes",
        actions.len(),
        shapes.len()
    ))
}
