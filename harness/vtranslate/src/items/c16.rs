//! C16 translator item `refint-ops`: the syntax rule of `schema.rs` that decides which attributes
//! are reference types, and the operators / filters / call shapes of `plugins/refint.rs`,
//! `valueset/session.rs`, `server/delete.rs` and `plugins/mod.rs` that the Lean model
//! `KanidmModel/Refint.lean` is parameterised by.  An unrecognised shape is an error.
use crate::util::*;
use quote::ToTokens;

pub fn run(item: &str, repo: &str, out: &str) -> Option<Result<String, String>> {
    match item {
        "refint-ops" => Some(refint_ops(repo, out)),
        _ => None,
    }
}

/// Token text without any whitespace (comments are not tokens).
fn squash<T: ToTokens>(t: &T) -> String {
    t.to_token_stream().to_string().chars().filter(|c| !c.is_whitespace()).collect()
}

fn count(hay: &str, needle: &str) -> usize {
    hay.matches(needle).count()
}

/// Exactly one of two alternative shapes must occur (once); returns true for the first.
fn either(ctx: &str, hay: &str, yes: &str, no: &str) -> Result<bool, String> {
    match (count(hay, yes), count(hay, no)) {
        (1, 0) => Ok(true),
        (0, 1) => Ok(false),
        (a, b) => Err(format!("{ctx}: expected exactly one of `{yes}` / `{no}`, found {a} / {b}")),
    }
}

fn need(ctx: &str, hay: &str, needle: &str) -> Result<(), String> {
    if count(hay, needle) == 1 { Ok(()) } else { Err(format!("{ctx}: expected exactly one `{needle}`, found {}", count(hay, needle))) }
}

fn lean_bool(b: bool) -> &'static str {
    if b { "true" } else { "false" }
}

const SYNTAXES: &[(&str, &str)] = &[
    ("ReferenceUuid", "referenceUuid"),
    ("OauthScopeMap", "oauthScopeMap"),
    ("OauthClaimMap", "oauthClaimMap"),
    ("Oauth2Session", "oauth2Session"),
    ("ApplicationPassword", "applicationPassword"),
];

fn refint_ops(repo: &str, out: &str) -> Result<String, String> {
    // ---- schema.rs: which syntaxes go into the ref_cache
    let schema = parse_file(repo, "server/lib/src/schema.rs")?;
    let upd = find_fn(&schema, "SchemaWriteTransaction::update_attributes")?;
    let mut in_cache: Option<Vec<String>> = None;
    for c in if_conditions(&upd.block) {
        let s = squash(&c);
        if s.contains("a.syntax==SyntaxType::") {
            if in_cache.is_some() {
                return Err("update_attributes: more than one syntax test".into());
            }
            let mut names = vec![];
            for d in s.split("||") {
                match d.strip_prefix("a.syntax==SyntaxType::") {
                    Some(n) if n.chars().all(|c| c.is_alphanumeric()) => names.push(n.to_string()),
                    _ => return Err(format!("update_attributes: unrecognised disjunct `{d}` in the ref_cache test")),
                }
            }
            in_cache = Some(names);
        }
    }
    let in_cache = in_cache.ok_or("update_attributes: no `a.syntax == SyntaxType::..` test found")?;
    need("update_attributes", &squash(&upd.block), "self.ref_cache.insert(a.name.clone(),a.clone());")?;
    for n in &in_cache {
        if !SYNTAXES.iter().any(|(r, _)| r == n) {
            return Err(format!("update_attributes: syntax `{n}` is a reference type now, but the model has no valueset for it"));
        }
    }
    // ---- valueset/session.rs: do revoked oauth2 sessions still count as references?
    let sess = parse_file(repo, "server/lib/src/valueset/session.rs")?;
    let it = squash(&find_fn(&sess, "ValueSetOauth2Session::as_ref_uuid_iter")?.block);
    let skip_revoked = if it == "{Some(Box::new(self.map.values().filter(|m|!matches!(m.state,SessionState::RevokedAt(_))).map(|m|&m.rs_uuid).copied(),))}" {
        true
    } else if it == "{Some(Box::new(self.map.values().map(|m|&m.rs_uuid).copied()))}" {
        false
    } else {
        return Err(format!("ValueSetOauth2Session::as_ref_uuid_iter: unrecognised body `{it}`"));
    };
    // ---- plugins/refint.rs
    let rel = "server/lib/src/plugins/refint.rs";
    let refint = parse_file(repo, rel)?;
    let urs = squash(&find_fn(&refint, "update_reference_set")?.block);
    let skip_mo = either("update_reference_set", &urs, "letskip_mo=rtype.name==Attribute::MemberOf;", "letskip_mo=false;")?;
    let skip_mb = either("update_reference_set", &urs, "letskip_mb=dyn_group&&rtype.name==Attribute::DynMember;", "letskip_mb=false;")?;
    need("update_reference_set", &urs, "ifskip_mb||skip_mo{None}else{cand.get_ava_set(&rtype.name)}")?;
    need("update_reference_set", &urs, "ifletSome(uuid_iter)=vs.as_ref_uuid_iter(){reference_set.extend(uuid_iter);Ok(())}")?;
    let crf = squash(&find_fn(&refint, "ReferentialIntegrity::cand_references_to_uuid_filter")?.block);
    let diff = either("cand_references_to_uuid_filter", &crf, "Ok(reference_set.difference(&previous_reference_set).copied().collect())", "Ok(reference_set.into_iter().collect())")?;
    let fast = squash(&find_fn(&refint, "ReferentialIntegrity::check_uuids_exist_fast")?.block);
    let fast_hidden = either("check_uuids_exist_fast", &fast, "letfilt_in=filter!(f_inc(inner));", "letfilt_in=filter_all!(f_inc(inner));")?;
    need("check_uuids_exist_fast", &fast, "letfound=qs.internal_search(filt_in)")?;
    need("check_uuids_exist_fast", &fast, "distinct.sort_unstable();distinct.dedup();")?;
    let mut cmp = None;
    for (op, lean) in [("==", "=="), (">=", "≥"), ("<=", "≤"), ("!=", "!="), (">", ">"), ("<", "<")] {
        if count(&fast, &format!("Ok(found.len(){op}distinct.len())")) == 1 {
            cmp = Some(lean);
            break;
        }
    }
    let cmp = cmp.ok_or("check_uuids_exist_fast: the final `Ok(found.len() <op> distinct.len())` was not found")?;
    let cmp_body = match cmp {
        "==" => "found == distinct".to_string(),
        "!=" => "found != distinct".to_string(),
        o => format!("decide (found {o} distinct)"),
    };
    let slow = squash(&find_fn(&refint, "ReferentialIntegrity::check_uuids_exist_slow")?.block);
    let slow_hidden = either("check_uuids_exist_slow", &slow, "letfilt_in=filter!(f_eq(Attribute::Uuid,PartialValue::Uuid(*u)));", "letfilt_in=filter_all!(f_eq(Attribute::Uuid,PartialValue::Uuid(*u)));")?;
    let slow_neg = either("check_uuids_exist_slow", &slow, "if!b{missing.push(*u)}", "ifb{missing.push(*u)}")?;
    let pmi = squash(&find_fn(&refint, "ReferentialIntegrity::post_modify_inner")?.block);
    need("post_modify_inner", &pmi, "letuuids=Self::cand_references_to_uuid_filter(qs,pre_cand,post_cand)?;letall_exist_fast=Self::check_uuids_exist_fast(qs,uuids.as_slice())?;")?;
    let refuse_neg = either("post_modify_inner", &pmi, "if!all_exist_fast{", "ifall_exist_fast{")?;
    need("post_modify_inner", &pmi, "returnErr(OperationError::Plugin(PluginError::ReferentialIntegrity(")?;
    for hook in ["post_create", "post_modify", "post_batch_modify", "post_repl_refresh"] {
        let b = squash(&find_fn(&refint, &format!("ReferentialIntegrity::{hook}"))?.block);
        if !b.starts_with("{Self::post_modify_inner(qs,") {
            return Err(format!("{hook}: no longer a plain call of post_modify_inner: `{b}`"));
        }
    }
    let rr = squash(&find_fn(&refint, "ReferentialIntegrity::remove_references")?.block);
    let rm_all = either("remove_references", &rr, "letfilt=filter_all!(f_or(", "letfilt=filter!(f_or(")?;
    need("remove_references", &rr, "flat_map(|u|ref_types.values().map(move|r_type|{f_eq(r_type.name.clone(),PartialValue::Refer(u))}))")?;
    let sweeps = count(&rr, "forschema_attributeinref_types.values(){post.remove_avas(&schema_attribute.name,&removed_ids);}") == 1;
    need("remove_references", &rr, "qs.internal_apply_writable(work_set)")?;
    let pd = squash(&find_fn(&refint, "ReferentialIntegrity::post_delete")?.block);
    let pd_ok = pd == "{letuuids:Vec<Uuid>=cand.iter().map(|e|e.get_uuid()).collect();Self::remove_references(qs,uuids)}";
    let pri = squash(&find_fn(&refint, "ReferentialIntegrity::post_repl_incremental")?.block);
    need("post_repl_incremental", &pri, "letpre_live=pre.mask_recycled_ts().is_some();letpost_live=post.mask_recycled_ts().is_some();")?;
    let inactive = if count(&pri, "if!post_live&&(pre_live!=post_live){") == 1 {
        "!postLive && (preLive != postLive)"
    } else if count(&pri, "if!post_live&&pre_live{") == 1 {
        "!postLive && preLive"
    } else {
        return Err("post_repl_incremental: the live -> masked test was not recognised".into());
    };
    let r_missing = count(&pri, "letmutmissing_uuids=if!all_exist_fast{") == 1 && count(&pri, "Self::check_uuids_exist_slow(qs,uuids.as_slice())?") == 1;
    let r_conf = count(&pri, "missing_uuids.extend(conflict_uuids.iter().copied());") == 1;
    let r_inact = count(&pri, "missing_uuids.extend_from_slice(&inactive_entries);") == 1;
    need("post_repl_incremental", &pri, "Self::remove_references(qs,missing_uuids)")?;
    need("post_repl_incremental", &pri, "letuuids=Self::cand_references_to_uuid_filter(qs,Some(pre_cand),cand)?;")?;
    let pric = squash(&find_fn(&refint, "ReferentialIntegrity::post_repl_incremental_conflict")?.block);
    need("post_repl_incremental_conflict", &pric, "f_eq(Attribute::Refers,PartialValue::Refer(conflict_uuid))")?;
    need("post_repl_incremental_conflict", &pric, "conflict_uuids.insert(uuid);entry.to_conflict([uuid]);")?;
    // ---- server/delete.rs: cascade
    let del = parse_file(repo, "server/lib/src/server/delete.rs")?;
    let db = squash(&find_fn(&del, "QueryServerWriteTransaction::delete")?.block);
    let cascade = count(&db, "f_eq(Attribute::Refers,PartialValue::Refer(entry.get_uuid()))") == 1
        && count(&db, "self.internal_search(references_filt)") == 1
        && count(&db, "candidates.append(&mutcascade_delete_candidates);") == 1
        && count(&db, "entry.add_ava(Attribute::CascadeDeleted,Value::Uuid(refer_uuid));") == 1;
    // ---- plugins/mod.rs: the hooks are wired
    let pm = parse_file(repo, "server/lib/src/plugins/mod.rs")?;
    let mut hooks = true;
    for (f, h) in [
        ("Plugins::run_post_create", "post_create"),
        ("Plugins::run_post_modify", "post_modify"),
        ("Plugins::run_post_batch_modify", "post_batch_modify"),
        ("Plugins::run_post_delete", "post_delete"),
        ("Plugins::run_post_repl_incremental", "post_repl_incremental"),
        ("Plugins::run_post_repl_incremental_conflict", "post_repl_incremental_conflict"),
        ("Plugins::run_post_repl_refresh", "post_repl_refresh"),
    ] {
        let b = squash(&find_fn(&pm, f)?.block);
        if count(&b, &format!("refint::ReferentialIntegrity::{h}(")) != 1 {
            hooks = false;
        }
    }
    // ---- render
    let mut body = String::from("namespace Kanidm.Gen.Refint\n");
    body += "/-- The value syntaxes the refint model distinguishes (`other` = every other `SyntaxType`). -/\ninductive Syn where\n  | referenceUuid | oauthScopeMap | oauthClaimMap | oauth2Session | applicationPassword | other\nderiving DecidableEq, Repr\n";
    body += "/-- schema.rs `SchemaWriteTransaction::update_attributes`: `a.syntax == SyntaxType::X || ..` guarding `self.ref_cache.insert(..)` -/\ndef inRefCache : Syn → Bool\n";
    for (r, l) in SYNTAXES {
        body += &format!("  | .{l} => {}\n", lean_bool(in_cache.iter().any(|n| n == r)));
    }
    body += "  | .other => false\n";
    body += &format!("/-- valueset/session.rs `ValueSetOauth2Session::as_ref_uuid_iter`: `.filter(|m| !matches!(m.state, SessionState::RevokedAt(_)))` -/\ndef sessionRefsSkipRevoked : Bool := {}\n", lean_bool(skip_revoked));
    body += &format!("/-- refint.rs `update_reference_set`: `let skip_mo = rtype.name == Attribute::MemberOf` -/\ndef skipMemberOf : Bool := {}\n", lean_bool(skip_mo));
    body += &format!("/-- refint.rs `update_reference_set`: `let skip_mb = dyn_group && rtype.name == Attribute::DynMember` -/\ndef skipDynMemberOnDynGroup : Bool := {}\n", lean_bool(skip_mb));
    body += &format!("/-- refint.rs `cand_references_to_uuid_filter`: `reference_set.difference(&previous_reference_set)` -/\ndef newRefsAreDifference : Bool := {}\n", lean_bool(diff));
    body += &format!("/-- refint.rs `check_uuids_exist_fast`: the search uses `filter!` (recycled and tombstoned entries hidden), not `filter_all!` -/\ndef existsFastHidesMasked : Bool := {}\n", lean_bool(fast_hidden));
    body += &format!("/-- refint.rs `check_uuids_exist_slow`: the per-uuid test uses `filter!` -/\ndef existsSlowHidesMasked : Bool := {}\n", lean_bool(slow_hidden));
    body += &format!("/-- refint.rs `check_uuids_exist_fast`: `Ok(found.len() {} distinct.len())` -/\ndef fastAllFound (found distinct : Nat) : Bool := {cmp_body}\n", if cmp == "≥" { ">=" } else if cmp == "≤" { "<=" } else { cmp });
    body += &format!("/-- refint.rs `check_uuids_exist_slow`: `if {}b {{ missing.push(*u) }}` -/\ndef slowMissingWhen (existsLive : Bool) : Bool := {}existsLive\n", if slow_neg { "!" } else { "" }, if slow_neg { "!" } else { "" });
    body += &format!("/-- refint.rs `post_modify_inner`: `if {}all_exist_fast {{ .. return Err(..ReferentialIntegrity..) }}` -/\ndef refuseWhen (allExistFast : Bool) : Bool := {}allExistFast\n", if refuse_neg { "!" } else { "" }, if refuse_neg { "!" } else { "" });
    body += &format!("/-- refint.rs `remove_references`: the work set is searched with `filter_all!` (recycled entries included) -/\ndef removeSearchesAllStates : Bool := {}\n", lean_bool(rm_all));
    body += &format!("/-- refint.rs `remove_references`: `for schema_attribute in ref_types.values() {{ post.remove_avas(&schema_attribute.name, &removed_ids) }}` -/\ndef removeSweepsEveryRefType : Bool := {}\n", lean_bool(sweeps));
    body += &format!("/-- refint.rs `post_delete`: every candidate's uuid is handed to `remove_references` -/\ndef postDeleteRemovesCandidates : Bool := {}\n", lean_bool(pd_ok));
    body += &format!("/-- refint.rs `post_repl_incremental`: the test for a candidate that moved from live to recycled/tombstoned -/\ndef becameInactive (preLive postLive : Bool) : Bool := {inactive}\n");
    body += &format!("/-- refint.rs `post_repl_incremental`: missing, conflict and inactive uuids all go to `remove_references` -/\ndef replRemovesMissing : Bool := {}\ndef replRemovesConflicts : Bool := {}\ndef replRemovesInactive : Bool := {}\n", lean_bool(r_missing), lean_bool(r_conf), lean_bool(r_inact));
    body += &format!("/-- delete.rs `delete`: the cascade search for `refers` uses `filter!`; cascade candidates are recycled with the others -/\ndef cascadeDeletesReferrers : Bool := {}\n", lean_bool(cascade));
    body += &format!("/-- plugins/mod.rs: every `run_post_*` hook (create, modify, batch modify, delete, repl incremental + conflict, repl refresh) calls refint -/\ndef pluginHooksCalled : Bool := {}\n", lean_bool(hooks));
    body += "end Kanidm.Gen.Refint\n";
    write_generated(
        out,
        "RefintOps",
        "server/lib/src/schema.rs + server/lib/src/plugins/refint.rs + server/lib/src/valueset/session.rs + server/lib/src/server/delete.rs + server/lib/src/plugins/mod.rs",
        &body,
    )?;
    Ok(format!("RefintOps: ref_cache syntaxes {in_cache:?}, fast compare `{cmp}`, sessionRefsSkipRevoked {skip_revoked}"))
}
