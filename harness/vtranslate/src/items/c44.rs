//! C44 translator item `offlinecache-ops`: the decision-carrying tokens of the offline password
//! cache of the unix resolver are re-read from the source and emitted as Lean defs
//! (`lean/KanidmModel/Generated/OfflineCacheOps.lean`):
//!
//! * `UserToken::kanidm_update_cached_password` / `kanidm_has_offline_credentials` /
//!   `kanidm_check_cached_password` (idprovider/kanidm.rs): which KDF constructor seals the
//!   credential, what every exit does to `extra_keys[KANIDM_PWV1_KEY]`, every early return of the
//!   check and its final expression (incl. the "hsm bound variants only" guard);
//! * `Password::new_argon2id_hsm` / `Password::verify_ctx` (libs/crypto): the stored key is the
//!   HMAC under `hmac_key`; per `Kdf` variant whether the verify arm uses the hsm context;
//! * `KanidmProvider::unix_user_get` (extra keys carried over), `unix_user_online_auth_step` (reply
//!   class -> result, arm by arm; success copies the extra keys and re-seals the offered password),
//!   `unix_user_can_offline_auth`, `unix_user_offline_auth_init`, `unix_user_offline_auth_step`
//!   (which token is checked, which token is written);
//! * `Resolver::pam_account_authenticate_init` (when the online path is taken) and
//!   `pam_account_authenticate_step` (provider result -> cache write / PAM answer).
//!
//! Any shape not recognised is an `Err` (never a guess).
use crate::util::*;
use quote::ToTokens;
use syn::visit::Visit;
use syn::{Expr, Pat, Stmt};

pub fn run(item: &str, repo: &str, out: &str) -> Option<Result<String, String>> {
    match item {
        "offlinecache-ops" => Some(offlinecache_ops(repo, out)),
        _ => None,
    }
}

fn ts<T: ToTokens>(t: &T) -> String {
    t.to_token_stream().to_string()
}
fn norm<T: ToTokens>(t: &T) -> String {
    ts(t).chars().filter(|c| !c.is_whitespace()).collect()
}
fn strip(e: &Expr) -> &Expr {
    match e {
        Expr::Paren(p) => strip(&p.expr),
        Expr::Group(g) => strip(&g.expr),
        _ => e,
    }
}

const LOG_MACROS: [&str; 5] = ["trace", "debug", "info", "warn", "error"];
fn is_log_macro(m: &syn::Macro) -> bool {
    m.path.segments.last().map(|s| LOG_MACROS.contains(&s.ident.to_string().as_str())).unwrap_or(false)
}
/// A statement that only logs: `warn!(..);`, or a `match x { .. => warn!(..), .. };` whose arms all log.
fn only_logs(st: &Stmt) -> bool {
    match st {
        Stmt::Macro(m) => is_log_macro(&m.mac),
        Stmt::Expr(Expr::Macro(m), _) => is_log_macro(&m.mac),
        Stmt::Expr(Expr::Match(m), Some(_)) => m.arms.iter().all(|a| matches!(&*a.body, Expr::Macro(mm) if is_log_macro(&mm.mac))),
        _ => false,
    }
}
/// The statements of a block that are not logging, normalised.
fn stmts_nolog(b: &syn::Block) -> Vec<String> {
    b.stmts.iter().filter(|s| !only_logs(s)).map(norm).collect()
}
fn as_block(e: &Expr) -> syn::Block {
    match e {
        Expr::Block(b) => b.block.clone(),
        e => syn::Block { brace_token: Default::default(), stmts: vec![Stmt::Expr(e.clone(), None)] },
    }
}
fn expect_eq(what: &str, got: &[String], want: &[&str]) -> Result<(), String> {
    if got.len() == want.len() && got.iter().zip(want.iter()).all(|(g, w)| g == w) {
        Ok(())
    } else {
        Err(format!("{what}: expected statements {want:?}, found {got:?}"))
    }
}

/// `let <name> = match <scrutinee> { <okpat> => <okval>, <errpat> => { .. } };`
struct LetMatch {
    name: String,
    scrutinee: String,
    arms: Vec<(String, syn::Block)>,
}
fn let_match(what: &str, st: &Stmt) -> Result<LetMatch, String> {
    if let Stmt::Local(l) = st {
        let name = norm(&l.pat);
        if let Some(init) = &l.init {
            if init.diverge.is_none() {
                if let Expr::Match(m) = strip(&init.expr) {
                    return Ok(LetMatch {
                        name,
                        scrutinee: norm(&m.expr),
                        arms: m.arms.iter().map(|a| (norm(&a.pat), as_block(&a.body))).collect(),
                    });
                }
            }
        }
    }
    Err(format!("{what}: expected `let x = match .. {{ .. }};`, found `{}`", ts(st)))
}
fn bool_lit(what: &str, s: &str) -> Result<&'static str, String> {
    match s {
        "returnfalse;" => Ok("false"),
        "returntrue;" => Ok("true"),
        o => Err(format!("{what}: expected `return false;` / `return true;`, found `{o}`")),
    }
}

fn status_code(name: &str) -> Result<u32, String> {
    Ok(match name {
        "OK" => 200,
        "BAD_REQUEST" => 400,
        "UNAUTHORIZED" => 401,
        "FORBIDDEN" => 403,
        "NOT_FOUND" => 404,
        "CONFLICT" => 409,
        "GONE" => 410,
        "INTERNAL_SERVER_ERROR" => 500,
        "SERVICE_UNAVAILABLE" => 503,
        o => return Err(format!("unknown StatusCode::{o}")),
    })
}

/// all method calls named `name` inside `b`: (receiver, args) normalised
fn method_calls(b: &syn::Block, name: &str) -> Vec<(String, Vec<String>)> {
    struct V<'a>(&'a str, Vec<(String, Vec<String>)>);
    impl<'a, 'ast> Visit<'ast> for V<'a> {
        fn visit_expr_method_call(&mut self, m: &'ast syn::ExprMethodCall) {
            if m.method == self.0 {
                self.1.push((norm(&m.receiver), m.args.iter().map(norm).collect()));
            }
            syn::visit::visit_expr_method_call(self, m);
        }
    }
    let mut v = V(name, vec![]);
    v.visit_block(b);
    v.1
}
fn one_call(what: &str, b: &syn::Block, name: &str) -> Result<(String, Vec<String>), String> {
    let mut c = method_calls(b, name);
    match c.len() {
        1 => Ok(c.remove(0)),
        n => Err(format!("{what}: expected exactly one call of `{name}`, found {n}")),
    }
}

/// the body of the `(AuthCredHandler::Password, PamAuthRequest::Password { cred })` arm of a step function
fn password_arm(what: &str, f: &FoundFn) -> Result<syn::Block, String> {
    let tail = match f.block.stmts.last() {
        Some(Stmt::Expr(Expr::Match(m), None)) if f.block.stmts.len() == 1 => m,
        _ => return Err(format!("{what}: body is not a single match")),
    };
    if norm(&tail.expr) != "(cred_handler,pam_next_req)" {
        return Err(format!("{what}: matches on `{}`", ts(&tail.expr)));
    }
    let first = tail.arms.first().ok_or_else(|| format!("{what}: no arms"))?;
    if norm(&first.pat) != "(AuthCredHandler::Password,PamAuthRequest::Password{cred})" {
        return Err(format!("{what}: first arm is `{}`", ts(&first.pat)));
    }
    Ok(as_block(&first.body))
}

fn step_out(what: &str, tail: &str) -> Result<&'static str, String> {
    Ok(match tail {
        "Ok(AuthResult::SuccessUpdate{new_token})" => "successUpdate",
        "Ok(AuthResult::Denied)" => "denied",
        "Err(IdpError::Transport)" => "errTransport",
        "Err(IdpError::ProviderUnauthorised)" => "errProviderUnauthorised",
        "Err(IdpError::NotFound)" => "errNotFound",
        "Err(IdpError::BadRequest)" => "errBadRequest",
        o => return Err(format!("{what}: unrecognised result `{o}`")),
    })
}
fn block_tail_str(what: &str, b: &syn::Block) -> Result<String, String> {
    match b.stmts.last() {
        Some(Stmt::Expr(e, None)) => Ok(norm(e)),
        _ => Err(format!("{what}: block has no value expression")),
    }
}

fn offlinecache_ops(repo: &str, out: &str) -> Result<String, String> {
    let rel_k = "unix_integration/resolver_common/src/idprovider/kanidm.rs";
    let rel_r = "unix_integration/resolver_common/src/resolver.rs";
    let rel_c = "libs/crypto/src/lib.rs";
    let ast_k = parse_file(repo, rel_k)?;
    let ast_r = parse_file(repo, rel_r)?;
    let ast_c = parse_file(repo, rel_c)?;
    let mut o = String::new();
    o.push_str("namespace Kanidm.Gen.OfflineCache\nopen Kanidm.Gen.PwFormat (KdfTag)\n");

    // ---- enum Kdf, Password::verify_ctx -------------------------------------------------------
    let mut kdf: Vec<String> = vec![];
    for it in &ast_c.items {
        if let syn::Item::Enum(e) = it {
            if e.ident == "Kdf" {
                kdf = e.variants.iter().map(|v| v.ident.to_string()).collect();
            }
        }
    }
    if kdf.is_empty() {
        return Err("enum Kdf not found".into());
    }
    let f = find_fn(&ast_c, "Password::verify_ctx")?;
    let what = "verify_ctx";
    let m = match f.block.stmts.last() {
        Some(Stmt::Expr(Expr::Match(m), None)) => m,
        _ => return Err(format!("{what}: body does not end in a match")),
    };
    if norm(&m.expr) != "(&self.material,hsm)" {
        return Err(format!("{what}: matches on `{}`", ts(&m.expr)));
    }
    // (variant, second pattern kind, uses hmac)
    let mut arms: Vec<(String, char, bool)> = vec![];
    for a in &m.arms {
        let (first, second) = match &a.pat {
            Pat::Tuple(t) if t.elems.len() == 2 => (norm(&t.elems[0]), norm(&t.elems[1])),
            p => return Err(format!("{what}: arm pattern `{}`", ts(p))),
        };
        let variant = first
            .strip_prefix("Kdf::")
            .map(|r| r.split(|c| c == '{' || c == '(').next().unwrap_or("").to_string())
            .ok_or_else(|| format!("{what}: first component `{first}`"))?;
        if !kdf.contains(&variant) {
            return Err(format!("{what}: `{variant}` is not a Kdf variant"));
        }
        let kind = match second.as_str() {
            "_" => '_',
            "None" => 'N',
            "Some((hsm,hmac_key))" => 'S',
            s => return Err(format!("{what}: second component `{s}`")),
        };
        let body = as_block(&a.body);
        let hm = method_calls(&body, "hmac_s256");
        let uses = match hm.len() {
            0 => false,
            1 => {
                if hm[0] != ("hsm".to_string(), vec!["hmac_key".to_string(), "&check_key".to_string()]) {
                    return Err(format!("{what}: hmac call `{:?}`", hm[0]));
                }
                let n = norm(&body);
                if !n.contains("hmac_key.into_bytes().as_slice()==key") {
                    return Err(format!("{what}: the HMAC output is not compared with the stored key in the {variant} arm"));
                }
                if !n.contains("hash_password_into(cleartext.as_bytes(),salt.as_slice(),check_key.as_mut_slice(),)")
                    && !n.contains("hash_password_into(cleartext.as_bytes(),salt.as_slice(),check_key.as_mut_slice())")
                {
                    return Err(format!("{what}: the {variant} arm does not hash the cleartext into check_key"));
                }
                true
            }
            n => return Err(format!("{what}: {n} hmac calls in one arm")),
        };
        if kind != 'S' && uses {
            return Err(format!("{what}: hmac used in an arm without hsm context"));
        }
        arms.push((variant, kind, uses));
    }
    o.push_str("/-- what `Password::verify_ctx(cleartext, Some((hsm, hmac_key)))` does with the hsm context, per stored variant -/\ninductive CtxUse where\n  | hmac\n  | ignore\nderiving DecidableEq, Repr\n");
    o.push_str("/-- verify_ctx: first arm (source order) that matches `(Kdf::X, Some(_))`; `hmac` = `hsm.hmac_s256(hmac_key, &check_key)` compared with the stored key -/\ndef ctxTable : List (KdfTag × CtxUse) := [\n");
    let mut rows = vec![];
    for v in &kdf {
        let arm = arms.iter().find(|(var, kind, _)| var == v && *kind != 'N').ok_or_else(|| format!("{what}: no arm for Kdf::{v} with an hsm context"))?;
        let u = match (arm.1, arm.2) {
            ('S', true) => "hmac",
            ('_', false) => "ignore",
            ('S', false) => return Err(format!("{what}: the Kdf::{v} arm takes the hsm context but does not use it")),
            _ => unreachable!(),
        };
        rows.push(format!("  (.{v}, .{u})"));
    }
    o.push_str(&rows.join(",\n"));
    o.push_str("]\n");

    // ---- kanidm_update_cached_password ------------------------------------------------------
    let f = find_fn(&ast_k, "UserToken::kanidm_update_cached_password")?;
    let what = "kanidm_update_cached_password";
    let st: Vec<&Stmt> = f.block.stmts.iter().filter(|s| !only_logs(s)).collect();
    if st.len() != 4 {
        return Err(format!("{what}: expected 4 statements besides logging, found {}", st.len()));
    }
    if norm(st[0]) != "lettpm_ctx:&mutdynTpmHmacS256=&mut**tpm;" {
        return Err(format!("{what}: first statement `{}`", ts(st[0])));
    }
    let lm = let_match(what, st[1])?;
    let ctor = lm
        .scrutinee
        .strip_prefix("Password::")
        .and_then(|r| r.strip_suffix("(crypto_policy,cred,tpm_ctx,hmac_key)"))
        .ok_or_else(|| format!("{what}: KDF call `{}`", lm.scrutinee))?
        .to_string();
    let upd_tag = match ctor.as_str() {
        "new_argon2id_hsm" => "TPM_ARGON2ID",
        c => return Err(format!("{what}: unknown KDF constructor Password::{c}")),
    };
    let key_write = |what: &str, lm: &LetMatch, bind: &str| -> Result<&'static str, String> {
        if lm.arms.len() != 2 || lm.arms[0].0 != format!("Ok({bind})") || stmts_nolog(&lm.arms[0].1) != vec![bind.to_string()] {
            return Err(format!("{what}: Ok arm of `{}`", lm.scrutinee));
        }
        if !lm.arms[1].0.starts_with("Err(") {
            return Err(format!("{what}: second arm `{}`", lm.arms[1].0));
        }
        let s = stmts_nolog(&lm.arms[1].1);
        if s == vec!["self.extra_keys.remove(KANIDM_PWV1_KEY);".to_string(), "return;".to_string()] {
            Ok("remove")
        } else {
            Err(format!("{what}: error arm does `{s:?}`"))
        }
    };
    if lm.name != "pw" {
        return Err(format!("{what}: binds `{}`", lm.name));
    }
    let on_kdf_err = key_write(what, &lm, "pw")?;
    let lm2 = let_match(what, st[2])?;
    if lm2.name != "pw_value" || lm2.scrutinee != "serde_json::to_value(pw.to_dbpasswordv1())" {
        return Err(format!("{what}: serialisation `{}` bound to `{}`", lm2.scrutinee, lm2.name));
    }
    let on_ser_err = key_write(what, &lm2, "pw")?;
    if norm(st[3]) != "self.extra_keys.insert(KANIDM_PWV1_KEY.into(),pw_value);" {
        return Err(format!("{what}: final statement `{}`", ts(st[3])));
    }
    // new_argon2id_hsm seals with hmac_key
    let f = find_fn(&ast_c, &format!("Password::{ctor}"))?;
    let what2 = "new_argon2id_hsm";
    let hm = one_call(what2, &f.block, "hmac_s256")?;
    if hm != ("hsm".to_string(), vec!["hmac_key".to_string(), "&check_key".to_string()]) {
        return Err(format!("{what2}: hmac call `{hm:?}`"));
    }
    let n = norm(&f.block);
    if !n.contains(&format!("Kdf::{upd_tag}{{")) {
        return Err(format!("{what2}: does not build Kdf::{upd_tag}"));
    }
    if !n.contains(".map(|hmac_output|hmac_output.into_bytes().to_vec())") || !n.contains("salt,key,})") {
        return Err(format!("{what2}: the stored key is not the HMAC output"));
    }
    if !n.contains("hash_password_into(cleartext.as_bytes(),salt.as_slice(),check_key.as_mut_slice(),)") {
        return Err(format!("{what2}: does not hash the cleartext into check_key"));
    }
    o.push_str("/-- what an exit of kanidm_update_cached_password does to `extra_keys[KANIDM_PWV1_KEY]` -/\ninductive KeyWrite where\n  | remove\n  | insert\nderiving DecidableEq, Repr\n");
    o.push_str(&format!("/-- kanidm_update_cached_password: `Password::{ctor}(crypto_policy, cred, tpm_ctx, hmac_key)` -/\ndef updTag : KdfTag := .{upd_tag}\n"));
    o.push_str("/-- new_argon2id_hsm: the stored key is `hsm.hmac_s256(hmac_key, &check_key)` -/\ndef updSealsWithHmacKey : Bool := true\n");
    o.push_str(&format!("def updOnKdfErr : KeyWrite := .{on_kdf_err}\ndef updOnSerErr : KeyWrite := .{on_ser_err}\ndef updOnOk : KeyWrite := .insert\n"));

    // ---- kanidm_has_offline_credentials -------------------------------------------------------
    let f = find_fn(&ast_k, "UserToken::kanidm_has_offline_credentials")?;
    let body = stmts_nolog(&f.block);
    expect_eq("kanidm_has_offline_credentials", &body, &["self.extra_keys.contains_key(KANIDM_PWV1_KEY)"])?;
    o.push_str("/-- kanidm_has_offline_credentials: `self . extra_keys . contains_key (KANIDM_PWV1_KEY)` -/\ndef hasOffline (keyPresent : Bool) : Bool := keyPresent\n");

    // ---- kanidm_check_cached_password ---------------------------------------------------------
    let f = find_fn(&ast_k, "UserToken::kanidm_check_cached_password")?;
    let what = "kanidm_check_cached_password";
    let st: Vec<&Stmt> = f.block.stmts.iter().filter(|s| !only_logs(s)).collect();
    if st.len() != 6 {
        return Err(format!("{what}: expected 6 statements besides logging, found {}", st.len()));
    }
    let early = |what: &str, st: &Stmt, name: &str, scrut: &str, okpat: &str, errpat_prefix: &str| -> Result<&'static str, String> {
        let lm = let_match(what, st)?;
        if lm.name != name || lm.scrutinee != scrut {
            return Err(format!("{what}: `let {} = match {}`", lm.name, lm.scrutinee));
        }
        if lm.arms.len() != 2 || lm.arms[0].0 != okpat || stmts_nolog(&lm.arms[0].1) != vec![name.to_string()] {
            return Err(format!("{what}: first arm of `match {scrut}`"));
        }
        if !lm.arms[1].0.starts_with(errpat_prefix) {
            return Err(format!("{what}: second arm `{}`", lm.arms[1].0));
        }
        let s = stmts_nolog(&lm.arms[1].1);
        if s.len() != 1 {
            return Err(format!("{what}: error arm does `{s:?}`"));
        }
        bool_lit(what, &s[0])
    };
    let chk_missing = early(what, st[0], "pw_value", "self.extra_keys.get(KANIDM_PWV1_KEY)", "Some(pw_value)", "None")?;
    let chk_bad_json = early(what, st[1], "dbpw", "serde_json::from_value::<DbPasswordV1>(pw_value.clone())", "Ok(dbpw)", "Err(")?;
    // `if !matches!(dbpw, DbPasswordV1::X { .. } | ..) { return false; }`
    let (sealed_tags, chk_not_sealed) = match st[2] {
        Stmt::Expr(Expr::If(i), _) if i.else_branch.is_none() => {
            let inner = match strip(&i.cond) {
                Expr::Unary(u) if matches!(u.op, syn::UnOp::Not(_)) => strip(&u.expr),
                c => return Err(format!("{what}: guard `{}`", ts(c))),
            };
            let mac = match inner {
                Expr::Macro(m) if m.mac.path.is_ident("matches") => norm(&m.mac.tokens),
                c => return Err(format!("{what}: guard `{}`", ts(c))),
            };
            let rest = mac.strip_prefix("dbpw,").ok_or_else(|| format!("{what}: matches!({mac})"))?;
            let mut tags = vec![];
            for alt in rest.split('|') {
                let v = alt
                    .strip_prefix("DbPasswordV1::")
                    .and_then(|r| r.strip_suffix("{..}"))
                    .ok_or_else(|| format!("{what}: matches! alternative `{alt}`"))?;
                if !kdf.contains(&v.to_string()) {
                    return Err(format!("{what}: `{v}` is not a password variant"));
                }
                tags.push(format!(".{v}"));
            }
            let s = stmts_nolog(&i.then_branch);
            if s.len() != 1 {
                return Err(format!("{what}: guard body `{s:?}`"));
            }
            (tags, bool_lit(what, &s[0])?)
        }
        s => return Err(format!("{what}: expected the hsm-bound guard, found `{}`", ts(s))),
    };
    let chk_bad_kdf = early(what, st[3], "pw", "Password::try_from(dbpw)", "Ok(pw)", "Err(")?;
    if norm(st[4]) != "lettpm_ctx:&mutdynTpmHmacS256=&mut**tpm;" {
        return Err(format!("{what}: statement `{}`", ts(st[4])));
    }
    let fin = norm(st[5]);
    let chk_final = match fin.as_str() {
        "pw.verify_ctx(cred,Some((tpm_ctx,hmac_key))).unwrap_or_default()" | "pw.verify_ctx(cred,Some((tpm_ctx,hmac_key))).unwrap_or(false)" => "r.getD false",
        f => return Err(format!("{what}: final expression `{f}`")),
    };
    o.push_str("/-- kanidm_check_cached_password: the early returns and the final expression `pw.verify_ctx(cred, Some((tpm_ctx, hmac_key))).unwrap_or_default()` -/\n");
    o.push_str(&format!("def chkMissing : Bool := {chk_missing}\ndef chkBadJson : Bool := {chk_bad_json}\n"));
    o.push_str("/-- kanidm_check_cached_password: `if !matches!(dbpw, DbPasswordV1::TPM_ARGON2ID { .. }) { return false; }` (before `Password::try_from`) -/\n");
    o.push_str(&format!("def chkSealedTags : List KdfTag := [{}]\ndef chkNotSealed : Bool := {chk_not_sealed}\n", sealed_tags.join(", ")));
    o.push_str(&format!("def chkBadKdf : Bool := {chk_bad_kdf}\ndef chkFinal (r : Option Bool) : Bool := {chk_final}\n"));

    // ---- unix_user_get: extra keys carried over ---------------------------------------------
    let f = find_fn(&ast_k, "IdProvider@KanidmProvider::unix_user_get")?;
    let n = norm(&f.block);
    let carries = n.contains("Ok(tok)=>{letmutut=UserToken::from(tok);ifletSome(previous_token)=token{ut.extra_keys=previous_token.extra_keys.clone();}Ok(UserTokenState::Update(ut))}");
    o.push_str("/-- unix_user_get: `if let Some(previous_token) = token { ut.extra_keys = previous_token.extra_keys.clone(); }` -/\n");
    o.push_str(&format!("def getCarriesKeys : Bool := {carries}\n"));

    // ---- unix_user_online_auth_step -----------------------------------------------------------
    let f = find_fn(&ast_k, "IdProvider@KanidmProvider::unix_user_online_auth_step")?;
    let what = "unix_user_online_auth_step";
    let body = password_arm(what, &f)?;
    let st: Vec<&Stmt> = body.stmts.iter().filter(|s| !only_logs(s)).collect();
    if st.len() != 3
        || norm(st[0]) != "letinner=self.inner.lock().await;"
        || norm(st[1]) != "letauth_result=inner.client.idm_account_unix_cred_verify(account_id,&cred).await;"
    {
        return Err(format!("{what}: password arm statements `{:?}`", st.iter().map(|s| norm(*s)).collect::<Vec<_>>()));
    }
    let m = match st[2] {
        Stmt::Expr(Expr::Match(m), None) if norm(&m.expr) == "auth_result" => m,
        s => return Err(format!("{what}: expected `match auth_result`, found `{}`", ts(s))),
    };
    let classes = ["token", "null", "transport", "unauthorized", "gone", "otherErr"];
    if m.arms.len() != classes.len() {
        return Err(format!("{what}: {} arms, expected {}", m.arms.len(), classes.len()));
    }
    let mut outs = vec![];
    let mut gone_shapes: Vec<(u32, String)> = vec![];
    let (mut carries_auth, mut updates_pw) = (false, false);
    for (k, a) in m.arms.iter().enumerate() {
        let p = norm(&a.pat);
        let b = as_block(&a.body);
        let rest = stmts_nolog(&b);
        let tail = block_tail_str(what, &b)?;
        match classes[k] {
            "token" => {
                if p != "Ok(Some(n_tok))" {
                    return Err(format!("{what}: arm {k} pattern `{p}`"));
                }
                let want_full = [
                    "letmutnew_token=UserToken::from(n_tok);",
                    "ifletSome(previous_token)=current_token{new_token.extra_keys=previous_token.extra_keys.clone();}",
                    "new_token.kanidm_update_cached_password(&inner.crypto_policy,cred.as_str(),tpm,&inner.hmac_key,);",
                ];
                let inner_st: Vec<String> = rest[..rest.len() - 1].to_vec();
                if inner_st.first().map(|s| s.as_str()) != Some(want_full[0]) {
                    return Err(format!("{what}: success arm starts with `{:?}`", inner_st.first()));
                }
                for s in &inner_st[1..] {
                    if s == want_full[1] {
                        carries_auth = true;
                    } else if s == want_full[2] || s == &want_full[2].replace(",);", ");") {
                        if !carries_auth && inner_st.contains(&want_full[1].to_string()) {
                            return Err(format!("{what}: the password is sealed before the extra keys are copied"));
                        }
                        updates_pw = true;
                    } else {
                        return Err(format!("{what}: success arm statement `{s}`"));
                    }
                }
            }
            "null" => {
                if p != "Ok(None)" || rest.len() != 1 {
                    return Err(format!("{what}: arm {k} `{p}` does `{rest:?}`"));
                }
            }
            "transport" => {
                if p != "Err(ClientError::Transport(err))" || rest.len() != 1 {
                    return Err(format!("{what}: arm {k} `{p}` does `{rest:?}`"));
                }
            }
            "unauthorized" => {
                if p != "Err(ClientError::Http(StatusCode::UNAUTHORIZED,reason,opid))" || rest.len() != 1 {
                    return Err(format!("{what}: arm {k} `{p}` does `{rest:?}`"));
                }
            }
            "gone" => {
                if rest.len() != 1 {
                    return Err(format!("{what}: arm {k} does `{rest:?}`"));
                }
                for alt in p.split("|") {
                    let inner = alt
                        .strip_prefix("Err(ClientError::Http(StatusCode::")
                        .and_then(|r| r.strip_suffix(",opid,))").or_else(|| r.strip_suffix(",opid))")))
                        .ok_or_else(|| format!("{what}: gone alternative `{alt}`"))?;
                    let (code, oe) = inner.split_once(",Some(OperationError::").ok_or_else(|| format!("{what}: gone alternative `{alt}`"))?;
                    let oe = oe.trim_end_matches(')').trim_end_matches("(_").to_lowercase();
                    gone_shapes.push((status_code(code)?, oe));
                }
            }
            _ => {
                if p != "Err(err)" || rest.len() != 1 {
                    return Err(format!("{what}: arm {k} `{p}` does `{rest:?}`"));
                }
            }
        }
        outs.push(step_out(what, &tail)?);
    }
    o.push_str("/-- classes of the reply to `idm_account_unix_cred_verify`, arms of unix_user_online_auth_step in source order -/\ninductive AuthReply where\n");
    for c in classes {
        o.push_str(&format!("  | {c}\n"));
    }
    o.push_str("deriving DecidableEq, Repr\n/-- `Result<AuthResult, IdpError>` as far as the step functions produce it -/\ninductive StepOut where\n  | successUpdate\n  | denied\n  | errTransport\n  | errProviderUnauthorised\n  | errNotFound\n  | errBadRequest\nderiving DecidableEq, Repr\ndef onlineOut : AuthReply → StepOut\n");
    for (c, r) in classes.iter().zip(outs.iter()) {
        o.push_str(&format!("  | .{c} => .{r}\n"));
    }
    o.push_str("/-- unix_user_online_auth_step, `Ok(Some(n_tok))` arm: previous extra keys are copied, then `new_token.kanidm_update_cached_password(.., cred.as_str(), ..)` -/\n");
    o.push_str(&format!("def authCarriesKeys : Bool := {carries_auth}\ndef authUpdatesPw : Bool := {updates_pw}\n"));
    o.push_str("/-- unix_user_online_auth_step: the (status, OperationError) shapes of the \"unknown account\" arm -/\n");
    o.push_str(&format!(
        "def authGoneShapes : List (Nat × String) := [{}]\n",
        gone_shapes.iter().map(|(c, e)| format!("({c}, \"{e}\")")).collect::<Vec<_>>().join(", ")
    ));
    o.push_str("def classifyAuthHttp (status : Nat) (oe : String) : AuthReply :=\n  if status = 401 then .unauthorized else if authGoneShapes.contains (status, oe) then .gone else .otherErr\n");

    // ---- offline auth -------------------------------------------------------------------------
    let f = find_fn(&ast_k, "IdProvider@KanidmProvider::unix_user_can_offline_auth")?;
    expect_eq("unix_user_can_offline_auth", &stmts_nolog(&f.block), &["token.kanidm_has_offline_credentials()"])?;
    let f = find_fn(&ast_k, "IdProvider@KanidmProvider::unix_user_offline_auth_step")?;
    let what = "unix_user_offline_auth_step";
    let body = password_arm(what, &f)?;
    let st: Vec<&Stmt> = body.stmts.iter().filter(|s| !only_logs(s)).collect();
    if st.len() != 2 || norm(st[0]) != "letinner=self.inner.lock().await;" {
        return Err(format!("{what}: password arm statements `{:?}`", st.iter().map(|s| norm(*s)).collect::<Vec<_>>()));
    }
    let i = match st[1] {
        Stmt::Expr(Expr::If(i), None) => i,
        s => return Err(format!("{what}: expected if/else, found `{}`", ts(s))),
    };
    if norm(&i.cond) != "session_token.kanidm_check_cached_password(cred.as_str(),tpm,&inner.hmac_key)" {
        return Err(format!("{what}: condition `{}`", ts(&i.cond)));
    }
    let then_st = stmts_nolog(&i.then_branch);
    let writes_current = match then_st.as_slice() {
        [l, _] if l == "letnew_token=current_token.unwrap_or(session_token).clone();" => true,
        o => return Err(format!("{what}: accepted branch does `{o:?}`")),
    };
    let on_match = step_out(what, &block_tail_str(what, &i.then_branch)?)?;
    let else_b = match i.else_branch.as_ref().map(|(_, e)| &**e) {
        Some(Expr::Block(b)) => b.block.clone(),
        _ => return Err(format!("{what}: no plain else block")),
    };
    if stmts_nolog(&else_b).len() != 1 {
        return Err(format!("{what}: refused branch does `{:?}`", stmts_nolog(&else_b)));
    }
    let on_miss = step_out(what, &block_tail_str(what, &else_b)?)?;
    o.push_str("/-- unix_user_offline_auth_step: `if session_token.kanidm_check_cached_password(cred, tpm, &inner.hmac_key)` then / else; the token written is `current_token.unwrap_or(session_token).clone()` -/\n");
    o.push_str(&format!("def offlineOnMatch : StepOut := .{on_match}\ndef offlineOnMiss : StepOut := .{on_miss}\ndef offlineWritesCurrentElseSession : Bool := {writes_current}\n"));
    let f = find_fn(&ast_k, "IdProvider@KanidmProvider::unix_user_offline_auth_init")?;
    expect_eq(
        "unix_user_offline_auth_init",
        &stmts_nolog(&f.block),
        &["iftoken.kanidm_has_offline_credentials(){Ok((AuthRequest::Password,AuthCredHandler::Password))}else{Err(IdpError::NoOfflineCredentials)}"],
    )?;
    o.push_str("/-- unix_user_offline_auth_init: `if token.kanidm_has_offline_credentials()` Ok(Password) else Err(NoOfflineCredentials) -/\ndef offlineInitNeedsCreds : Bool := true\n");

    // ---- Resolver::pam_account_authenticate_step ----------------------------------------------
    let f = find_fn(&ast_r, "Resolver::pam_account_authenticate_step")?;
    let what = "pam_account_authenticate_step";
    let on = one_call(what, &f.block, "unix_user_online_auth_step")?;
    if on.1 != ["account_id", "current_token.as_ref()", "cred_handler", "pam_next_req", "hsm_lock.deref_mut()", "shutdown_rx"] {
        return Err(format!("{what}: online step called with `{:?}`", on.1));
    }
    let off = one_call(what, &f.block, "unix_user_offline_auth_step")?;
    if off.1 != ["current_token.as_ref()", "session_token", "cred_handler", "pam_next_req", "hsm_lock.deref_mut()"] {
        return Err(format!("{what}: offline step called with `{:?}`", off.1));
    }
    let cur = method_calls(&f.block, "get_cached_usertoken");
    if cur.len() != 2 || cur.iter().any(|c| c != &("self".to_string(), vec!["id".to_string(), "current_time".to_string()])) {
        return Err(format!("{what}: current token lookups `{cur:?}`"));
    }
    let m = match f.block.stmts.last() {
        Some(Stmt::Expr(Expr::Match(m), None)) if norm(&m.expr) == "maybe_err" => m,
        _ => return Err(format!("{what}: does not end in `match maybe_err`")),
    };
    // (pattern, writes cache, answer)
    let mut table: Vec<(String, bool, String)> = vec![];
    for a in &m.arms {
        let p = norm(&a.pat);
        let b = as_block(&a.body);
        let st = stmts_nolog(&b);
        let tail = block_tail_str(what, &b)?;
        let mut writes = false;
        for s in &st[..st.len() - 1] {
            match s.as_str() {
                "self.set_cache_usertoken(&mutnew_token,hsm_lock.deref_mut()).await?;" => writes = true,
                "*auth_session=AuthSession::Success;" | "*auth_session=AuthSession::Denied;" => {}
                o => return Err(format!("{what}: arm `{p}` does `{o}`")),
            }
        }
        let ans = match tail.as_str() {
            "Ok(PamAuthResponse::Success)" => "success",
            "Ok(PamAuthResponse::Denied)" => "denied",
            "Ok(PamAuthResponse::Unknown)" => "unknown",
            "Err(())" => "err",
            "Ok(req.into())" => "next",
            t => return Err(format!("{what}: arm `{p}` answers `{t}`")),
        };
        table.push((p, writes, ans.to_string()));
    }
    let lookup = |pats: &[&str]| -> Result<(bool, String), String> {
        for (p, w, a) in &table {
            if pats.contains(&p.as_str()) {
                return Ok((*w, a.clone()));
            }
        }
        Err(format!("{what}: no arm for {pats:?}"))
    };
    let (succ_writes, succ_ans) = lookup(&["Ok(AuthResult::SuccessUpdate{mutnew_token})"])?;
    let rows = [
        ("successUpdate", (succ_writes, succ_ans.clone())),
        ("denied", lookup(&["Ok(AuthResult::Denied)"])?),
        ("errNotFound", lookup(&["Err(IdpError::NotFound)", "Err(err)", "Err(_)"])?),
        ("errTransport", lookup(&["Err(IdpError::Transport)", "Err(err)", "Err(_)"])?),
        ("errProviderUnauthorised", lookup(&["Err(IdpError::ProviderUnauthorised)", "Err(err)", "Err(_)"])?),
        ("errBadRequest", lookup(&["Err(IdpError::BadRequest)", "Err(err)", "Err(_)"])?),
    ];
    o.push_str("/-- `PamAuthResponse` / `Err(())` of pam_account_authenticate_step -/\ninductive PamOut where\n  | success\n  | denied\n  | unknown\n  | err\nderiving DecidableEq, Repr\n/-- pam_account_authenticate_step: `match maybe_err`, arm by arm -/\ndef pamOf : StepOut → PamOut\n");
    for (name, (w, a)) in &rows {
        if *w && *name != "successUpdate" {
            return Err(format!("{what}: the {name} arm writes the cache"));
        }
        if a == "next" {
            return Err(format!("{what}: the {name} arm continues the conversation"));
        }
        o.push_str(&format!("  | .{name} => .{a}\n"));
    }
    o.push_str("/-- pam_account_authenticate_step: the `SuccessUpdate` arm calls `set_cache_usertoken(&mut new_token, ..)` -/\n");
    o.push_str(&format!("def successWrites : Bool := {succ_writes}\n"));

    // ---- Resolver::pam_account_authenticate_init ----------------------------------------------
    let f = find_fn(&ast_r, "Resolver::pam_account_authenticate_init")?;
    let what = "pam_account_authenticate_init";
    struct Finder {
        can: Option<String>,
        online_at_init: Option<syn::ExprIf>,
        branch: Option<syn::ExprIf>,
    }
    impl<'ast> Visit<'ast> for Finder {
        fn visit_local(&mut self, l: &'ast syn::Local) {
            let name = norm(&l.pat);
            if let Some(init) = &l.init {
                if name == "can_proceed_offline" {
                    self.can = Some(norm(&init.expr));
                }
                if name == "online_at_init" && self.online_at_init.is_none() {
                    if let Expr::If(i) = strip(&init.expr) {
                        self.online_at_init = Some(i.clone());
                    }
                }
            }
            syn::visit::visit_local(self, l);
        }
        fn visit_expr_if(&mut self, i: &'ast syn::ExprIf) {
            if norm(&i.cond) == "online_at_init" && self.branch.is_none() {
                self.branch = Some(i.clone());
            }
            syn::visit::visit_expr_if(self, i);
        }
    }
    let mut fd = Finder { can: None, online_at_init: None, branch: None };
    fd.visit_block(&f.block);
    if fd.can.as_deref() != Some("client.unix_user_can_offline_auth(&token).await") {
        return Err(format!("{what}: can_proceed_offline = `{:?}`", fd.can));
    }
    let oi = fd.online_at_init.ok_or_else(|| format!("{what}: `let online_at_init = if ..` not found"))?;
    if norm(&oi.cond) != "can_proceed_offline" {
        return Err(format!("{what}: online_at_init depends on `{}`", ts(&oi.cond)));
    }
    let probe = |b: &syn::Block| -> Result<&'static str, String> {
        let s = stmts_nolog(b);
        match s.as_slice() {
            [x] if x == "client.is_online().await" => Ok("isOnline"),
            [x] if x == "client.attempt_online(hsm_lock.deref_mut(),now).await" => Ok("attemptOnline"),
            o => Err(format!("{what}: online_at_init branch `{o:?}`")),
        }
    };
    let then_p = probe(&oi.then_branch)?;
    let else_p = match oi.else_branch.as_ref().map(|(_, e)| &**e) {
        Some(Expr::Block(b)) => probe(&b.block)?,
        _ => return Err(format!("{what}: online_at_init has no plain else")),
    };
    let br = fd.branch.ok_or_else(|| format!("{what}: `if online_at_init` not found"))?;
    let then_on = method_calls(&br.then_branch, "unix_user_online_auth_init").len() == 1 && method_calls(&br.then_branch, "unix_user_offline_auth_init").is_empty();
    let else_b = match br.else_branch.as_ref().map(|(_, e)| &**e) {
        Some(Expr::Block(b)) => b.block.clone(),
        _ => return Err(format!("{what}: `if online_at_init` has no plain else")),
    };
    let off_calls = method_calls(&else_b, "unix_user_offline_auth_init");
    let else_off = off_calls.len() == 1 && off_calls[0].1 == ["&token"] && method_calls(&else_b, "unix_user_online_auth_init").is_empty();
    if !(then_on && else_off) {
        return Err(format!("{what}: `if online_at_init` does not choose online init / offline init(&token)"));
    }
    if !norm(&else_b).contains("session_token:Box::new(token)") {
        return Err(format!("{what}: the offline session does not keep the token it was opened with"));
    }
    o.push_str("/-- pam_account_authenticate_init: `let online_at_init = if can_proceed_offline { client.is_online() } else { client.attempt_online(..) }` -/\ninductive InitProbe where\n  | isOnline\n  | attemptOnline\nderiving DecidableEq, Repr\n");
    o.push_str(&format!("def initProbe (canOffline : Bool) : InitProbe := if canOffline then .{then_p} else .{else_p}\n"));
    o.push_str("/-- pam_account_authenticate_init: `if online_at_init { online init } else { offline init }` -/\ndef initGoesOnline (onlineAtInit : Bool) : Bool := onlineAtInit\n");
    o.push_str("end Kanidm.Gen.OfflineCache\n");

    let path = format!("{out}/OfflineCacheOps.lean");
    let text = format!(
        "import KanidmModel.Generated.PwFormatTables\n-- GENERATED by vtranslate from {rel_k}, {rel_r}, {rel_c} (item offlinecache-ops). Do not edit: rewritten on every check run.\nset_option linter.unusedVariables false\n{o}"
    );
    if !std::fs::read_to_string(&path).map(|old| old == text).unwrap_or(false) {
        std::fs::write(&path, text).map_err(|e| format!("{path}: {e}"))?;
    }
    Ok(format!("offlinecache-ops: {} Kdf variants, {} auth reply classes, {} gone shapes, sealed tags {:?}", kdf.len(), classes.len(), gone_shapes.len(), sealed_tags))
}
