//! C47 translator item: statement order and select arms of the supervisor / actor tasks in
//! `libs/actors/src/lib.rs` (SupervisorTask::run, SupervisedActor::run, Supervisor::{stop, spawn,
//! subordinate, build}, Runtime::exec).  Every statement must be one of the recognised shapes;
//! anything else is an error (the model would no longer transcribe the code).
use crate::util::*;
use proc_macro2::{Delimiter, TokenStream, TokenTree};
use quote::ToTokens;
use syn::{Expr, Stmt};

pub fn run(item: &str, repo: &str, out: &str) -> Option<Result<String, String>> {
    match item {
        "actors-ops" => Some(actors_ops(repo, out)),
        _ => None,
    }
}

fn toks<T: ToTokens>(t: &T) -> String {
    t.to_token_stream().to_string()
}

/// One `pat = future => body` arm of a `tokio::select!`.
struct Arm {
    head: String,
    body: Expr,
}

fn select_arms(ts: TokenStream) -> Result<Vec<Arm>, String> {
    let tts: Vec<TokenTree> = ts.into_iter().collect();
    let mut arms = vec![];
    let mut i = 0;
    while i < tts.len() {
        // head: up to `=>`
        let mut head = TokenStream::new();
        let mut found = false;
        while i < tts.len() {
            if let TokenTree::Punct(p) = &tts[i] {
                if p.as_char() == '=' && p.spacing() == proc_macro2::Spacing::Joint {
                    if let Some(TokenTree::Punct(q)) = tts.get(i + 1) {
                        if q.as_char() == '>' {
                            i += 2;
                            found = true;
                            break;
                        }
                    }
                }
            }
            head.extend(std::iter::once(tts[i].clone()));
            i += 1;
        }
        if !found {
            if head.is_empty() {
                break;
            }
            return Err(format!("select! arm without `=>`: `{head}`"));
        }
        // body: a brace group, or tokens up to the next top-level comma
        let mut body = TokenStream::new();
        match tts.get(i) {
            Some(TokenTree::Group(g)) if g.delimiter() == Delimiter::Brace => {
                body.extend(std::iter::once(tts[i].clone()));
                i += 1;
            }
            _ => {
                while i < tts.len() {
                    if let TokenTree::Punct(p) = &tts[i] {
                        if p.as_char() == ',' {
                            break;
                        }
                    }
                    body.extend(std::iter::once(tts[i].clone()));
                    i += 1;
                }
            }
        }
        if let Some(TokenTree::Punct(p)) = tts.get(i) {
            if p.as_char() == ',' {
                i += 1;
            }
        }
        let body: Expr =
            syn::parse2(body.clone()).map_err(|e| format!("select! arm body `{body}` does not parse: {e}"))?;
        arms.push(Arm { head: head.to_string(), body });
    }
    Ok(arms)
}

/// `loop { tokio::select! { .. } }` → the arms; anything else in the loop body is an error.
fn loop_select(e: &Expr) -> Result<Vec<Arm>, String> {
    let l = match e {
        Expr::Loop(l) => l,
        _ => return Err(format!("expected `loop {{ select! }}`, found `{}`", toks(e))),
    };
    if l.body.stmts.len() != 1 {
        return Err(format!("loop body has {} statements, expected only the select!", l.body.stmts.len()));
    }
    let mac = match &l.body.stmts[0] {
        Stmt::Macro(m) => &m.mac,
        Stmt::Expr(Expr::Macro(m), _) => &m.mac,
        other => return Err(format!("loop body is not a select!: `{}`", toks(other))),
    };
    let name = mac.path.segments.iter().map(|s| s.ident.to_string()).collect::<Vec<_>>().join("::");
    if name != "tokio::select" && name != "select" {
        return Err(format!("loop body macro is `{name}!`, expected tokio::select!"));
    }
    select_arms(mac.tokens.clone())
}

/// Does control leave the enclosing loop whenever this arm body runs to its end?  `Ok(true)`: the
/// last statement is a bare `break` (earlier statements may only log); `Ok(false)`: no `break`
/// anywhere; anything in between is not a shape the model has.
fn body_breaks(e: &Expr) -> Result<bool, String> {
    let has_break = |s: &str| s.split_whitespace().any(|t| t == "break");
    match e {
        Expr::Break(b) if b.label.is_none() && b.expr.is_none() => Ok(true),
        Expr::Block(b) => {
            let stmts = &b.block.stmts;
            if stmts.is_empty() {
                return Ok(false);
            }
            let (last, init) = stmts.split_last().unwrap();
            for s in init {
                let t = toks(s);
                if has_break(&t) || t.contains("continue") || t.contains("return") {
                    return Err(format!("control flow before the end of a select arm: `{t}`"));
                }
            }
            match last {
                Stmt::Expr(x, _) => body_breaks(x),
                other => {
                    let t = toks(other);
                    if has_break(&t) {
                        Err(format!("conditional break in `{t}`"))
                    } else {
                        Ok(false)
                    }
                }
            }
        }
        other => {
            let t = toks(other);
            if has_break(&t) || t.contains("continue") || t.contains("return") {
                Err(format!("conditional break in `{t}`"))
            } else {
                Ok(false)
            }
        }
    }
}

/// `{ match x { P1 => b1, P2 => b2 } }` → [(pattern, body)]
fn match_arms(e: &Expr) -> Result<Vec<(String, Expr)>, String> {
    let m = match e {
        Expr::Match(m) => m,
        Expr::Block(b) if b.block.stmts.len() == 1 => match &b.block.stmts[0] {
            Stmt::Expr(Expr::Match(m), _) => m,
            o => return Err(format!("expected a single match, found `{}`", toks(o))),
        },
        o => return Err(format!("expected a single match, found `{}`", toks(o))),
    };
    Ok(m.arms
        .iter()
        .map(|a| {
            let guard = a.guard.as_ref().map(|(_, g)| format!(" if {}", toks(g))).unwrap_or_default();
            (format!("{}{}", toks(&a.pat), guard), (*a.body).clone())
        })
        .collect())
}

fn find_arm<'a>(arms: &'a [Arm], needle: &str, what: &str) -> Result<&'a Arm, String> {
    let hits: Vec<&Arm> = arms.iter().filter(|a| a.head.contains(needle)).collect();
    if hits.len() != 1 {
        return Err(format!("{what}: expected exactly one select arm on `{needle}`, found {} (arms: {:?})", hits.len(),
            arms.iter().map(|a| a.head.clone()).collect::<Vec<_>>()));
    }
    Ok(hits[0])
}

fn pat_body<'a>(ms: &'a [(String, Expr)], pat: &str, what: &str) -> Result<&'a Expr, String> {
    ms.iter().find(|(p, _)| p == pat).map(|(_, b)| b).ok_or_else(|| {
        format!("{what}: no match arm `{pat}` (arms: {:?})", ms.iter().map(|(p, _)| p.clone()).collect::<Vec<_>>())
    })
}

/// statements of a block that only log (`warn!`, `error!`, `trace!`, …, possibly under an `if`)
fn only_logs(s: &Stmt) -> bool {
    let t = toks(s);
    let macro_log = |t: &str| {
        ["warn !", "error !", "trace !", "debug !", "info !"].iter().any(|m| t.trim_start().starts_with(m))
    };
    match s {
        Stmt::Macro(_) => macro_log(&t),
        Stmt::Expr(Expr::If(i), _) => {
            i.else_branch.is_none() && i.then_branch.stmts.iter().all(only_logs) && !toks(&i.cond).contains("await")
        }
        Stmt::Expr(Expr::Macro(_), _) => macro_log(&t),
        _ => false,
    }
}

fn blist(v: &[bool]) -> String {
    format!("[{}]", v.iter().map(|b| b.to_string()).collect::<Vec<_>>().join(", "))
}

fn nlist(v: &[u32]) -> String {
    format!("[{}]", v.iter().map(|b| b.to_string()).collect::<Vec<_>>().join(", "))
}

fn actors_ops(repo: &str, out: &str) -> Result<String, String> {
    let rel = "libs/actors/src/lib.rs";
    let ast = parse_file(repo, rel)?;

    // ---- SupervisorTask::run ----------------------------------------------------------------
    let f = find_fn(&ast, "SupervisorTask::run")?;
    let mut sup_run = vec![];
    let mut sup_arms = None;
    for s in &f.block.stmts {
        let t = toks(s);
        match s {
            Stmt::Expr(e @ Expr::Loop(_), _) => {
                sup_arms = Some(loop_select(e)?);
                sup_run.push(0);
            }
            _ if t == "let _ = self . ctrl_tx . send (()) ;" || t == "self . ctrl_tx . send (()) ;" => sup_run.push(1),
            _ if t == "self . ctrl_tx . closed () . await ;" => sup_run.push(2),
            _ if only_logs(s) => {}
            _ => return Err(format!("SupervisorTask::run: unrecognised statement `{t}`")),
        }
    }
    let arms = sup_arms.ok_or("SupervisorTask::run: no select loop")?;
    if arms.len() != 2 {
        return Err(format!("SupervisorTask::run: expected 2 select arms, found {}", arms.len()));
    }
    let parent = find_arm(&arms, "self . parent_ctrl_rx . recv ()", "SupervisorTask::run")?;
    let sup_parent_breaks = body_breaks(&parent.body)?;
    let mbox = find_arm(&arms, "self . mbox_rx . recv ()", "SupervisorTask::run")?;
    let ms = match_arms(&mbox.body)?;
    if ms.len() != 2 {
        return Err(format!("SupervisorTask::run: mailbox match has {} arms, expected Stop and None", ms.len()));
    }
    let sup_stop_breaks = body_breaks(pat_body(&ms, "Some (SupervisorMessage :: Stop)", "SupervisorTask::run")?)?;
    let sup_none_breaks = body_breaks(pat_body(&ms, "None", "SupervisorTask::run")?)?;

    // ---- SupervisedActor::run ---------------------------------------------------------------
    let f = find_fn(&ast, "SupervisedActor::run")?;
    let mut act_run = vec![];
    let mut act_arms = None;
    for s in &f.block.stmts {
        let t = toks(s);
        match s {
            Stmt::Expr(e @ Expr::Loop(_), _) => {
                act_arms = Some(loop_select(e)?);
                act_run.push(1);
            }
            _ if t == "self . a . setup () . await ;" => act_run.push(0),
            _ if t == "self . a . cleanup () . await ;" => act_run.push(2),
            _ if only_logs(s) => {}
            _ => return Err(format!("SupervisedActor::run: unrecognised statement `{t}`")),
        }
    }
    let arms = act_arms.ok_or("SupervisedActor::run: no select loop")?;
    if arms.len() != 2 {
        return Err(format!("SupervisedActor::run: expected 2 select arms, found {}", arms.len()));
    }
    let parent = find_arm(&arms, "self . parent_ctrl_rx . recv ()", "SupervisedActor::run")?;
    let act_parent_breaks = body_breaks(&parent.body)?;
    let state = find_arm(&arms, "self . a . state ()", "SupervisedActor::run")?;
    let ms = match_arms(&state.body)?;
    if ms.len() != 2 {
        return Err(format!("SupervisedActor::run: state match has {} arms, expected Ready and Stop", ms.len()));
    }
    let act_stop_breaks = body_breaks(pat_body(&ms, "ActorState :: Stop", "SupervisedActor::run")?)?;
    let ready = pat_body(&ms, "ActorState :: Ready (msg)", "SupervisedActor::run")?;
    let ready_t = toks(ready);
    let act_ready_runs = if ready_t == "self . a . run (msg) . await" {
        true
    } else {
        return Err(format!("SupervisedActor::run: Ready arm is `{ready_t}`, expected `self.a.run(msg).await`"));
    };

    // ---- Supervisor::stop -------------------------------------------------------------------
    let f = find_fn(&ast, "Supervisor::stop")?;
    let mut stop_ops = vec![];
    for s in &f.block.stmts {
        let t = toks(s);
        if t.contains("self . mbox_tx . send (SupervisorMessage :: Stop) . await") && matches!(s, Stmt::Local(_)) {
            stop_ops.push(0);
        } else if t == "self . mbox_tx . closed () . await ;" {
            stop_ops.push(1);
        } else if only_logs(s) {
        } else {
            return Err(format!("Supervisor::stop: unrecognised statement `{t}`"));
        }
    }
    if toks(&f.sig.inputs) != "self" {
        return Err(format!("Supervisor::stop no longer consumes the handle: `{}`", toks(&f.sig.inputs)));
    }

    // ---- Supervisor::spawn / subordinate / build --------------------------------------------
    let order = |name: &str, first: &str, then: &str| -> Result<bool, String> {
        let f = find_fn(&ast, name)?;
        let ts: Vec<String> = f.block.stmts.iter().map(|s| toks(s)).collect();
        let a = ts.iter().position(|t| t.contains(first));
        let b = ts.iter().position(|t| t.contains(then));
        match (a, b) {
            (Some(a), Some(b)) => Ok(a < b),
            _ => Err(format!("{name}: `{first}` / `{then}` not found in {ts:?}")),
        }
    };
    let spawn_first = order("Supervisor::spawn", "let parent_ctrl_rx = self . ctrl_tx . subscribe ()", "tokio :: spawn (async move { supervised_actor . run () . await })")?
        && order("Supervisor::spawn", "let parent_ctrl_rx = self . ctrl_tx . subscribe ()", "SupervisedActor :: build (parent_ctrl_rx , actor)")?;
    let sub_first = order("Supervisor::subordinate", "let parent_ctrl_rx = self . ctrl_tx . subscribe ()", "Self :: build (parent_ctrl_rx)")?;
    let f = find_fn(&ast, "Supervisor::build")?;
    let t = toks(&f.block);
    let build_ok = t.contains("let (ctrl_tx , _ctrl_rx) = broadcast :: channel (1) ;")
        && t.contains("let ctrl_tx = ctrl_tx . clone () ;")
        && t.contains("SupervisorTask { parent_ctrl_rx , mbox_rx , ctrl_tx , }")
        && t.contains("supervisor_task . run () . await ;")
        && t.contains("(Self { ctrl_tx , mbox_tx } , exec_handle)");
    if !build_ok {
        return Err(format!("Supervisor::build: unrecognised shape `{t}`"));
    }
    let f = find_fn(&ast, "SupervisedActor::build")?;
    if toks(&f.block) != "{ Self { parent_ctrl_rx , a } }" {
        return Err(format!("SupervisedActor::build: unrecognised shape `{}`", toks(&f.block)));
    }

    // ---- Runtime::exec ----------------------------------------------------------------------
    let f = find_fn(&ast, "Runtime::exec")?;
    let mut exec_tail = vec![];
    let mut seen_loop = false;
    let mut sig_breaks = vec![];
    for s in &f.block.stmts {
        let t = toks(s);
        match s {
            Stmt::Expr(e @ Expr::Loop(_), _) => {
                seen_loop = true;
                let arms = loop_select(e)?;
                let sig = find_arm(&arms, "signal_source . recv ()", "Runtime::exec")?;
                let ms = match_arms(&sig.body)?;
                for name in ["Terminate", "Interrupt", "Hangup", "UserDefined1", "UserDefined2", "Alarm"] {
                    sig_breaks.push(body_breaks(pat_body(&ms, &format!("Signal :: {name}"), "Runtime::exec")?)?);
                }
                if ms.len() != 6 {
                    return Err(format!("Runtime::exec: signal match has {} arms", ms.len()));
                }
                let prim = find_arm(&arms, "& mut supervisor_handle", "Runtime::exec")?;
                if !body_breaks(&prim.body)? {
                    return Err("Runtime::exec: premature primary stop no longer leaves the loop".into());
                }
            }
            _ if !seen_loop => {
                // channel creation, primary supervisor, setup
                let ok = t == "let (ctrl_tx , ctrl_rx) = broadcast :: channel (1) ;"
                    || t == "let (mut supervisor , mut supervisor_handle) = Supervisor :: primary (ctrl_rx) ;"
                    || t == "context . setup (& mut supervisor) . await ? ;";
                if !ok {
                    return Err(format!("Runtime::exec: unrecognised statement before the loop `{t}`"));
                }
            }
            Stmt::Expr(Expr::If(i), _) if toks(&i.cond) == "ctrl_tx . send (()) . is_err ()" && i.then_branch.stmts.iter().all(only_logs) => {
                exec_tail.push(0)
            }
            Stmt::Expr(Expr::If(i), _)
                if toks(&i.cond) == "! supervisor_handle . is_finished () && supervisor_handle . await . is_err ()"
                    && i.then_branch.stmts.iter().all(only_logs) =>
            {
                exec_tail.push(1)
            }
            Stmt::Expr(e, None) if toks(e) == "Ok (())" => {}
            _ => return Err(format!("Runtime::exec: unrecognised statement after the loop `{t}`")),
        }
    }

    let mut body = String::from("namespace Kanidm.Gen.Actors\n");
    body += &format!("/-- `SupervisorTask::run`, top-level statements in order: 0 = `loop {{ select! .. }}`, 1 = `self.ctrl_tx.send(())`, 2 = `self.ctrl_tx.closed().await`. -/\ndef supRun : List Nat := {}\n", nlist(&sup_run));
    body += &format!("/-- arm `status = self.parent_ctrl_rx.recv()` leaves the loop whatever `status` is. -/\ndef supParentRecvBreaks : Bool := {sup_parent_breaks}\n");
    body += &format!("/-- arm `msg = self.mbox_rx.recv()`, `Some(SupervisorMessage::Stop)` leaves the loop. -/\ndef supMboxStopBreaks : Bool := {sup_stop_breaks}\n");
    body += &format!("/-- arm `msg = self.mbox_rx.recv()`, `None` leaves the loop. -/\ndef supMboxNoneBreaks : Bool := {sup_none_breaks}\n");
    body += &format!("/-- `SupervisedActor::run`: 0 = `self.a.setup().await`, 1 = `loop {{ select! .. }}`, 2 = `self.a.cleanup().await`. -/\ndef actorRun : List Nat := {}\n", nlist(&act_run));
    body += &format!("/-- arm `status = self.parent_ctrl_rx.recv()` leaves the loop whatever `status` is. -/\ndef actParentRecvBreaks : Bool := {act_parent_breaks}\n");
    body += &format!("/-- arm `state = self.a.state()`, `ActorState::Stop` leaves the loop. -/\ndef actStateStopBreaks : Bool := {act_stop_breaks}\n");
    body += &format!("/-- arm `state = self.a.state()`, `ActorState::Ready(msg)` awaits `self.a.run(msg)` and stays in the loop. -/\ndef actStateReadyRuns : Bool := {act_ready_runs}\n");
    body += &format!("/-- `Supervisor::stop`: 0 = `self.mbox_tx.send(SupervisorMessage::Stop).await`, 1 = `self.mbox_tx.closed().await`. -/\ndef stopOps : List Nat := {}\n", nlist(&stop_ops));
    body += &format!("/-- `Supervisor::spawn` / `subordinate`: `self.ctrl_tx.subscribe()` is evaluated before the task is spawned. -/\ndef spawnSubscribesFirst : Bool := {spawn_first}\ndef subordinateSubscribesFirst : Bool := {sub_first}\n");
    body += &format!("/-- `Supervisor::build`: the supervisor task is given the parent receiver, the mailbox receiver and a clone of `ctrl_tx`. -/\ndef buildMovesParentRx : Bool := {build_ok}\n");
    body += &format!("/-- `Runtime::exec` after its signal loop: 0 = `ctrl_tx.send(())`, 1 = await `supervisor_handle` (guarded by `!is_finished()`). -/\ndef execTail : List Nat := {}\n", nlist(&exec_tail));
    body += &format!("/-- signals that leave the `Runtime::exec` loop: Terminate, Interrupt, Hangup, UserDefined1, UserDefined2, Alarm. -/\ndef execSignalBreaks : List Bool := {}\n", blist(&sig_breaks));
    body += "end Kanidm.Gen.Actors\n";
    write_generated(
        out,
        "ActorsOps",
        &format!("{rel} (SupervisorTask::run, SupervisedActor::run, Supervisor::{{stop,spawn,subordinate}}, Runtime::exec)"),
        &body,
    )?;
    Ok(format!(
        "ActorsOps: supRun {:?} actorRun {:?} stopOps {:?} execTail {:?}",
        sup_run, act_run, stop_ops, exec_tail
    ))
}
