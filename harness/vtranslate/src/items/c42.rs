//! C42 translator item `scim-filter-tables`: regenerates
//! `lean/KanidmModel/Generated/ScimFilterTables.lean` from proto/src/scim_v1/mod.rs:
//!   * `const SCIM_FILTER_MAX_DEPTH`
//!   * the comparison variants of `enum ScimFilter` / `enum ScimComplexFilter`
//!   * every keyword written by the three `Display` impls (format-string templates)
//!   * every keyword read by the `peg` grammar `scimfilter`, the order of the `attrexp` /
//!     `complex_attrexp` alternatives and the variant each rule's action builds
//! and pins the shape of everything else in the grammar (token-for-token comparison with the
//! templates below, which are what `KanidmModel/ScimFilter.lean` transcribes by hand):
//! precedence levels and atoms of `parse_inner` / `parse_complex_inner`, the depth limiter,
//! character classes, value lexing, attribute-path lexing.  Any other shape is an `Err`.
use crate::util::*;
use proc_macro2::{Delimiter, TokenStream, TokenTree};
use std::collections::BTreeMap;

pub fn run(item: &str, repo: &str, out: &str) -> Option<Result<String, String>> {
    match item {
        "scim-filter-tables" => Some(tables(repo, out)),
        _ => None,
    }
}

const REL: &str = "proto/src/scim_v1/mod.rs";

fn flat(ts: TokenStream, out: &mut Vec<String>) {
    for t in ts {
        match t {
            TokenTree::Group(g) => {
                let (o, c) = match g.delimiter() {
                    Delimiter::Parenthesis => ("(", ")"),
                    Delimiter::Brace => ("{", "}"),
                    Delimiter::Bracket => ("[", "]"),
                    Delimiter::None => ("", ""),
                };
                if !o.is_empty() {
                    out.push(o.into());
                }
                flat(g.stream(), out);
                if !c.is_empty() {
                    out.push(c.into());
                }
            }
            TokenTree::Ident(i) => out.push(i.to_string()),
            TokenTree::Punct(p) => out.push(p.as_char().to_string()),
            TokenTree::Literal(l) => out.push(l.to_string()),
        }
    }
}

fn flat_str(src: &str) -> Result<Vec<String>, String> {
    let ts: TokenStream = src.parse().map_err(|e| format!("template does not lex: {e}"))?;
    let mut v = vec![];
    flat(ts, &mut v);
    Ok(v)
}

/// Compare `got` with the template; template tokens `"@NAME"` (string literals) and `__NAME`
/// (identifiers) are holes that capture the corresponding token of `got`.
fn match_template(rule: &str, got: &[String], template: &str) -> Result<BTreeMap<String, String>, String> {
    let want = flat_str(template)?;
    let mut caps = BTreeMap::new();
    if got.len() != want.len() {
        return Err(format!(
            "rule `{rule}`: unrecognised shape ({} tokens, expected {}): `{}`",
            got.len(),
            want.len(),
            got.join(" ")
        ));
    }
    for (g, w) in got.iter().zip(want.iter()) {
        if let Some(name) = w.strip_prefix("\"@").and_then(|x| x.strip_suffix('"')) {
            let inner = g
                .strip_prefix('"')
                .and_then(|x| x.strip_suffix('"'))
                .ok_or_else(|| format!("rule `{rule}`: expected a string literal, found `{g}`"))?;
            if inner.is_empty() || inner.contains('\\') || !inner.chars().all(|c| c.is_ascii_graphic()) {
                return Err(format!("rule `{rule}`: keyword literal {g} is not plain printable ASCII"));
            }
            caps.insert(name.to_string(), inner.to_string());
        } else if let Some(name) = w.strip_prefix("__") {
            caps.insert(name.to_string(), g.clone());
        } else if g != w {
            return Err(format!("rule `{rule}`: unrecognised shape at token `{g}` (expected `{w}`): `{}`", got.join(" ")));
        }
    }
    Ok(caps)
}

/// split the grammar body into rules: name -> flattened tokens after `=`
fn split_rules(body: TokenStream) -> Result<Vec<(String, Vec<String>, Vec<String>)>, String> {
    let toks: Vec<TokenTree> = body.into_iter().collect();
    // rule starts: ident `rule` (skipping visibility `pub` / `pub(crate)`)
    let mut starts = vec![];
    for (i, t) in toks.iter().enumerate() {
        if let TokenTree::Ident(id) = t {
            if id == "rule" {
                starts.push(i);
            }
        }
    }
    if starts.is_empty() {
        return Err("no rules found in grammar".into());
    }
    let mut rules = vec![];
    for (k, &st) in starts.iter().enumerate() {
        let mut end = if k + 1 < starts.len() { starts[k + 1] } else { toks.len() };
        // strip the next rule's visibility tokens
        if k + 1 < starts.len() {
            while end > st {
                match &toks[end - 1] {
                    TokenTree::Ident(id) if id == "pub" => end -= 1,
                    TokenTree::Group(g)
                        if g.delimiter() == Delimiter::Parenthesis && g.stream().to_string() == "crate" =>
                    {
                        end -= 1
                    }
                    _ => break,
                }
            }
        }
        let name = match toks.get(st + 1) {
            Some(TokenTree::Ident(id)) => id.to_string(),
            _ => return Err("rule without a name".into()),
        };
        // header: everything up to the first top-level `=`
        let mut eq = None;
        for j in st + 2..end {
            if let TokenTree::Punct(p) = &toks[j] {
                if p.as_char() == '=' {
                    eq = Some(j);
                    break;
                }
            }
        }
        let eq = eq.ok_or_else(|| format!("rule `{name}` has no `=`"))?;
        let mut head = vec![];
        flat(toks[st + 2..eq].iter().cloned().collect(), &mut head);
        let mut body = vec![];
        flat(toks[eq + 1..end].iter().cloned().collect(), &mut body);
        rules.push((name, head, body));
    }
    Ok(rules)
}

fn find_grammar(ast: &syn::File) -> Result<TokenStream, String> {
    for it in &ast.items {
        if let syn::Item::Macro(m) = it {
            let p: Vec<String> = m.mac.path.segments.iter().map(|s| s.ident.to_string()).collect();
            if p == ["peg", "parser"] {
                let toks: Vec<TokenTree> = m.mac.tokens.clone().into_iter().collect();
                let mut head = vec![];
                flat(toks[..toks.len().saturating_sub(1)].iter().cloned().collect(), &mut head);
                if head != ["grammar", "scimfilter", "(", ")", "for", "str"] {
                    return Err(format!("peg::parser! header is `{}`", head.join(" ")));
                }
                if let Some(TokenTree::Group(g)) = toks.last() {
                    return Ok(g.stream());
                }
            }
        }
    }
    Err("peg::parser!{ grammar scimfilter() for str {..} } not found".into())
}

/// `write!(f, "<fmt>")` (possibly inside a block) -> the format string
fn write_fmt(e: &syn::Expr) -> Result<String, String> {
    match e {
        syn::Expr::Block(b) if b.block.stmts.len() == 1 => match &b.block.stmts[0] {
            syn::Stmt::Expr(e, _) => write_fmt(e),
            syn::Stmt::Macro(m) => write_fmt_mac(&m.mac),
            _ => Err("unrecognised Display arm body".into()),
        },
        syn::Expr::Macro(m) => write_fmt_mac(&m.mac),
        _ => Err(format!("unrecognised Display arm body `{}`", quote::ToTokens::to_token_stream(e))),
    }
}

fn write_fmt_mac(mac: &syn::Macro) -> Result<String, String> {
    if !mac.path.is_ident("write") {
        return Err("Display arm is not a write!".into());
    }
    let toks: Vec<TokenTree> = mac.tokens.clone().into_iter().collect();
    if toks.len() != 3 {
        return Err(format!("write! with {} tokens (positional arguments are not recognised)", toks.len()));
    }
    match (&toks[0], &toks[1], &toks[2]) {
        (TokenTree::Ident(f), TokenTree::Punct(c), TokenTree::Literal(l)) if f == "f" && c.as_char() == ',' => {
            let lit: syn::LitStr = syn::parse_str(&l.to_string()).map_err(|e| e.to_string())?;
            Ok(lit.value())
        }
        _ => Err("unrecognised write! arguments".into()),
    }
}

/// `Self::V(a, b)` -> ("V", ["a","b"])
fn arm_pat(p: &syn::Pat) -> Result<(String, Vec<String>), String> {
    match p {
        syn::Pat::TupleStruct(ts) => {
            let segs: Vec<String> = ts.path.segments.iter().map(|s| s.ident.to_string()).collect();
            if segs.len() != 2 || segs[0] != "Self" {
                return Err(format!("arm pattern path {segs:?}"));
            }
            let mut binds = vec![];
            for e in &ts.elems {
                match e {
                    syn::Pat::Ident(i) => binds.push(i.ident.to_string()),
                    _ => return Err("arm pattern with a non-identifier field".into()),
                }
            }
            Ok((segs[1].clone(), binds))
        }
        _ => Err("unrecognised arm pattern".into()),
    }
}

/// split a format string into literal pieces and `{name}` holes
fn fmt_pieces(s: &str) -> Result<Vec<(bool, String)>, String> {
    let mut out = vec![];
    let mut cur = String::new();
    let mut chars = s.chars().peekable();
    while let Some(c) = chars.next() {
        if c == '{' {
            if !cur.is_empty() {
                out.push((false, std::mem::take(&mut cur)));
            }
            let mut name = String::new();
            loop {
                match chars.next() {
                    Some('}') => break,
                    Some(x) if x.is_alphanumeric() || x == '_' => name.push(x),
                    _ => return Err(format!("format string `{s}`: unsupported placeholder")),
                }
            }
            if name.is_empty() {
                return Err(format!("format string `{s}`: positional placeholder"));
            }
            out.push((true, name));
        } else if c == '}' {
            return Err(format!("format string `{s}`: stray brace"));
        } else {
            cur.push(c);
        }
    }
    if !cur.is_empty() {
        out.push((false, cur));
    }
    Ok(out)
}

fn kw_ok(k: &str) -> bool {
    !k.is_empty() && k.chars().all(|c| c.is_ascii_graphic()) && !k.contains('\\') && !k.contains('"')
}

struct DisplayKw {
    ops: BTreeMap<String, String>,
    or_: String,
    and_: String,
    not_: String,
    pr: String,
    has_complex: bool,
}

fn display_kw(ast: &syn::File, ty: &str) -> Result<DisplayKw, String> {
    let f = find_fn(ast, &format!("Display@{ty}::fmt"))?;
    let m = match f.block.stmts.as_slice() {
        [syn::Stmt::Expr(syn::Expr::Match(m), _)] => m,
        _ => return Err(format!("Display for {ty}: body is not a single match")),
    };
    if quote::ToTokens::to_token_stream(&m.expr).to_string() != "self" {
        return Err(format!("Display for {ty}: does not match on self"));
    }
    let mut d = DisplayKw { ops: BTreeMap::new(), or_: String::new(), and_: String::new(), not_: String::new(), pr: String::new(), has_complex: false };
    for arm in &m.arms {
        if arm.guard.is_some() {
            return Err(format!("Display for {ty}: guarded arm"));
        }
        let (variant, binds) = arm_pat(&arm.pat)?;
        let fmt = write_fmt(&arm.body).map_err(|e| format!("Display for {ty}::{variant}: {e}"))?;
        let pieces = fmt_pieces(&fmt)?;
        let holes: Vec<&String> = pieces.iter().filter(|p| p.0).map(|p| &p.1).collect();
        if holes.len() != binds.len() || holes.iter().zip(binds.iter()).any(|(h, b)| *h != b) {
            return Err(format!("Display for {ty}::{variant}: `{fmt}` does not print the fields {binds:?} in order"));
        }
        let shape: Vec<String> = pieces.iter().map(|p| if p.0 { "{}".to_string() } else { p.1.clone() }).collect();
        let bad = || format!("Display for {ty}::{variant}: unrecognised format `{fmt}`");
        match (variant.as_str(), binds.len()) {
            ("Complex", 2) => {
                if shape != ["{}", "[", "{}", "]"] {
                    return Err(bad());
                }
                d.has_complex = true;
            }
            ("Not", 1) => {
                // "(KW ({}))"
                if shape.len() != 3 || shape[1] != "{}" || shape[2] != "))" {
                    return Err(bad());
                }
                let k = shape[0].strip_prefix('(').and_then(|x| x.strip_suffix(" (")).ok_or_else(bad)?;
                if !kw_ok(k) {
                    return Err(bad());
                }
                d.not_ = k.to_string();
            }
            ("Present", 1) => {
                // "({} KW)"
                if shape.len() != 3 || shape[0] != "(" || shape[1] != "{}" {
                    return Err(bad());
                }
                let k = shape[2].strip_prefix(' ').and_then(|x| x.strip_suffix(')')).ok_or_else(bad)?;
                if !kw_ok(k) {
                    return Err(bad());
                }
                d.pr = k.to_string();
            }
            (_, 2) => {
                // "({} KW {})"
                if shape.len() != 5 || shape[0] != "(" || shape[1] != "{}" || shape[3] != "{}" || shape[4] != ")" {
                    return Err(bad());
                }
                let k = shape[2].strip_prefix(' ').and_then(|x| x.strip_suffix(' ')).ok_or_else(bad)?;
                if !kw_ok(k) {
                    return Err(bad());
                }
                match variant.as_str() {
                    "Or" => d.or_ = k.to_string(),
                    "And" => d.and_ = k.to_string(),
                    v => {
                        d.ops.insert(v.to_string(), k.to_string());
                    }
                }
            }
            _ => return Err(bad()),
        }
    }
    if d.or_.is_empty() || d.and_.is_empty() || d.not_.is_empty() || d.pr.is_empty() {
        return Err(format!("Display for {ty}: missing Or/And/Not/Present arm"));
    }
    Ok(d)
}

/// comparison variants (payload `(<key>, JsonValue)`) in declaration order; checks the rest
fn enum_ops(ast: &syn::File, name: &str, key_ty: &str, complex: bool) -> Result<Vec<String>, String> {
    for it in &ast.items {
        if let syn::Item::Enum(e) = it {
            if e.ident == name {
                let mut ops = vec![];
                let mut others = vec![];
                for v in &e.variants {
                    let tys: Vec<String> = match &v.fields {
                        syn::Fields::Unnamed(u) => u
                            .unnamed
                            .iter()
                            .map(|f| quote::ToTokens::to_token_stream(&f.ty).to_string().replace(' ', ""))
                            .collect(),
                        _ => return Err(format!("{name}::{}: not a tuple variant", v.ident)),
                    };
                    if tys == [key_ty.to_string(), "JsonValue".to_string()] {
                        ops.push(v.ident.to_string());
                    } else {
                        others.push(format!("{}({})", v.ident, tys.join(",")));
                    }
                }
                let mut want = vec![
                    format!("Or(Box<{name}>,Box<{name}>)"),
                    format!("And(Box<{name}>,Box<{name}>)"),
                    format!("Not(Box<{name}>)"),
                    format!("Present({key_ty})"),
                ];
                if complex {
                    want.push("Complex(Attribute,Box<ScimComplexFilter>)".into());
                }
                if others != want {
                    return Err(format!("enum {name}: structural variants are {others:?}, expected {want:?}"));
                }
                return Ok(ops);
            }
        }
    }
    Err(format!("enum {name} not found"))
}

const T_PARSE: &str = "f:parse_depth(SCIM_FILTER_MAX_DEPTH) { f }";
const T_PARSE_DEPTH: &str = "limiter(max_depth) a:parse_inner(max_depth.saturating_sub(1)) { a }";
const T_LIMITER: &str = r#"{? if max_depth == 0 { Err("too deeply nested") } else { Ok(()) } }"#;
const T_PARSE_INNER: &str = r#"precedence!{
    a:(@) separator()+ "@OR" separator()+ b:@ { ScimFilter::Or(Box::new(a), Box::new(b)) }
    --
    a:(@) separator()+ "@AND" separator()+ b:@ { ScimFilter::And(Box::new(a), Box::new(b)) }
    --
    "@NOT" separator()+ "(" e:parse_depth(max_depth) ")" { ScimFilter::Not(Box::new(e)) }
    --
    a:attrname()"[" e:parse_complex_depth(max_depth) "]" { ScimFilter::Complex(a, Box::new(e)) }
    --
    a:attrexp() { a }
    "(" e:parse_depth(max_depth) ")" { e }
}"#;
const T_PARSE_COMPLEX: &str = "f:parse_complex_depth(SCIM_FILTER_MAX_DEPTH) { f }";
const T_PARSE_COMPLEX_DEPTH: &str = "limiter(max_depth) a:parse_complex_inner(max_depth.saturating_sub(1)) { a }";
const T_PARSE_COMPLEX_INNER: &str = r#"precedence!{
    a:(@) separator()+ "@OR" separator()+ b:@ { ScimComplexFilter::Or(Box::new(a), Box::new(b)) }
    --
    a:(@) separator()+ "@AND" separator()+ b:@ { ScimComplexFilter::And(Box::new(a), Box::new(b)) }
    --
    "@NOT" separator()+ "(" e:parse_complex_depth(max_depth) ")" { ScimComplexFilter::Not(Box::new(e)) }
    --
    a:complex_attrexp() { a }
    "(" e:parse_complex_depth(max_depth) ")" { e }
}"#;
const T_SEPARATOR: &str = r"['\n' | ' ' | '\t' ]";
const T_OPERATOR: &str = r"['\n' | ' ' | '\t' | '(' | ')' | '[' | ']' ]";
const T_VALUE: &str = "quotedvalue() / unquotedvalue()";
const T_QUOTED: &str = r#"s:$(['"'] ((['\\'][_]) / (!['"'][_]))* ['"']) {? serde_json::from_str(s).map_err(|_| "invalid json value" ) }"#;
const T_UNQUOTED: &str = r#"s:$((!operator()[_])*) {? serde_json::from_str(s).map_err(|_| "invalid json value" ) }"#;
const T_ATTRPATH: &str = "a:attrname() s:dot_subattr()? { AttrPath { a, s } }";
const T_DOT_SUBATTR: &str = r#""." s:subattr() { s }"#;
const T_SUBATTR: &str = "s:attrstring() { SubAttribute::from(s.as_str()) }";
const T_ATTRNAME: &str = "s:attrstring() { Attribute::from(s.as_str()) }";
const T_ATTRSTRING: &str = "s:$([ 'a'..='z' | 'A'..='Z']['a'..='z' | 'A'..='Z' | '0'..='9' | '-' | '_' ]*) { s.to_string() }";
const T_OP: &str = r#"a:attrpath() separator()+ "@KW" separator()+ v:value() { ScimFilter::__VARIANT(a, v) }"#;
const T_PRES: &str = r#"a:attrpath() separator()+ "@KW" { ScimFilter::__VARIANT(a) }"#;
const T_COP: &str = r#"a:subattr() separator()+ "@KW" separator()+ v:value() { ScimComplexFilter::__VARIANT(a, v) }"#;
const T_CPRES: &str = r#"a:subattr() separator()+ "@KW" { ScimComplexFilter::__VARIANT(a) }"#;

fn lean_chars(s: &str) -> String {
    let cs: Vec<String> = s.chars().map(|c| format!("'{c}'")).collect();
    format!("[{}]", cs.join(", "))
}

fn tables(repo: &str, out: &str) -> Result<String, String> {
    let ast = parse_file(repo, REL)?;
    // --- constant
    let depth_e = find_const(&ast, "SCIM_FILTER_MAX_DEPTH").ok_or("const SCIM_FILTER_MAX_DEPTH not found")?;
    let depth = eval_int(&depth_e, &|_| None)?;
    if depth < 0 {
        return Err("negative depth".into());
    }
    // --- enums
    let ops = enum_ops(&ast, "ScimFilter", "AttrPath", true)?;
    let ops_c = enum_ops(&ast, "ScimComplexFilter", "SubAttribute", false)?;
    if ops != ops_c {
        return Err(format!("comparison variants differ: ScimFilter {ops:?} vs ScimComplexFilter {ops_c:?}"));
    }
    if ops.is_empty() {
        return Err("no comparison variants".into());
    }
    // --- Display
    let df = display_kw(&ast, "ScimFilter")?;
    let dc = display_kw(&ast, "ScimComplexFilter")?;
    if !df.has_complex || dc.has_complex {
        return Err("Complex arm expected in Display for ScimFilter only".into());
    }
    for d in [&df, &dc] {
        let keys: Vec<&String> = d.ops.keys().collect();
        let mut want: Vec<&String> = ops.iter().collect();
        want.sort();
        if keys != want {
            return Err(format!("Display arms {keys:?} do not cover the comparison variants {want:?}"));
        }
    }
    let ap = find_fn(&ast, "Display@AttrPath::fmt")?;
    let mut apt = vec![];
    flat(quote::ToTokens::to_token_stream(&ap.block), &mut apt);
    let ap_want = flat_str(
        r#"{ if let Some(subattr) = self.s.as_ref() { write!(f, "{}.{}", self.a, subattr) } else { write!(f, "{}", self.a) } }"#,
    )?;
    if apt != ap_want {
        return Err(format!("Display for AttrPath: unrecognised body `{}`", apt.join(" ")));
    }
    // --- FromStr entry points
    for (ty, entry) in [("ScimFilter", "parse"), ("ScimComplexFilter", "parse_complex"), ("AttrPath", "attrpath")] {
        let f = find_fn(&ast, &format!("FromStr@{ty}::from_str"))?;
        let mut t = vec![];
        flat(quote::ToTokens::to_token_stream(&f.block), &mut t);
        if t != flat_str(&format!("{{ scimfilter::{entry}(input) }}"))? {
            return Err(format!("FromStr for {ty}: unrecognised body `{}`", t.join(" ")));
        }
    }
    // --- grammar
    let rules = split_rules(find_grammar(&ast)?)?;
    let mut by_name: BTreeMap<String, (Vec<String>, Vec<String>)> = BTreeMap::new();
    for (n, h, b) in rules {
        if by_name.insert(n.clone(), (h, b)).is_some() {
            return Err(format!("rule `{n}` defined twice"));
        }
    }
    let mut take = |n: &str| by_name.remove(n).ok_or_else(|| format!("rule `{n}` not found"));
    let heads: [(&str, &str); 6] = [
        ("parse", "() -> ScimFilter"),
        ("parse_depth", "(max_depth: usize) -> ScimFilter"),
        ("limiter", "(max_depth: usize) -> ()"),
        ("parse_inner", "(max_depth: usize) -> ScimFilter"),
        ("parse_complex_depth", "(max_depth: usize) -> ScimComplexFilter"),
        ("parse_complex_inner", "(max_depth: usize) -> ScimComplexFilter"),
    ];
    let fixed: [(&str, &str); 17] = [
        ("parse", T_PARSE),
        ("parse_depth", T_PARSE_DEPTH),
        ("limiter", T_LIMITER),
        ("parse_complex", T_PARSE_COMPLEX),
        ("parse_complex_depth", T_PARSE_COMPLEX_DEPTH),
        ("separator", T_SEPARATOR),
        ("operator", T_OPERATOR),
        ("value", T_VALUE),
        ("quotedvalue", T_QUOTED),
        ("unquotedvalue", T_UNQUOTED),
        ("attrpath", T_ATTRPATH),
        ("dot_subattr", T_DOT_SUBATTR),
        ("subattr", T_SUBATTR),
        ("attrname", T_ATTRNAME),
        ("attrstring", T_ATTRSTRING),
        ("parse_inner", T_PARSE_INNER),
        ("parse_complex_inner", T_PARSE_COMPLEX_INNER),
    ];
    let mut inner_kw = BTreeMap::new();
    for (n, t) in fixed.iter().filter(|x| !x.0.is_empty()) {
        let (h, b) = take(n)?;
        if let Some((_, hw)) = heads.iter().find(|x| x.0 == *n) {
            if h != flat_str(hw)? {
                return Err(format!("rule `{n}`: signature `{}`", h.join(" ")));
            }
        }
        let caps = match_template(n, &b, t)?;
        if !caps.is_empty() {
            inner_kw.insert(n.to_string(), caps);
        }
    }
    let kw_f = inner_kw.remove("parse_inner").ok_or("parse_inner keywords")?;
    let kw_c = inner_kw.remove("parse_complex_inner").ok_or("parse_complex_inner keywords")?;
    // attrexp alternatives
    let mut alts = |rule: &str, t_op: &str, t_pres: &str| -> Result<Vec<(String, Option<String>)>, String> {
        let (_, b) = by_name.remove(rule).ok_or_else(|| format!("rule `{rule}` not found"))?;
        let mut names = vec![];
        let mut i = 0;
        while i < b.len() {
            if b.get(i + 1).map(|s| s.as_str()) != Some("(") || b.get(i + 2).map(|s| s.as_str()) != Some(")") {
                return Err(format!("rule `{rule}`: unrecognised shape `{}`", b.join(" ")));
            }
            names.push(b[i].clone());
            i += 3;
            if i < b.len() {
                if b[i] != "/" {
                    return Err(format!("rule `{rule}`: unrecognised shape `{}`", b.join(" ")));
                }
                i += 1;
            }
        }
        let mut out = vec![];
        for n in names {
            let (_, rb) = by_name.remove(&n).ok_or_else(|| format!("rule `{n}` (alternative of `{rule}`) not found"))?;
            match match_template(&n, &rb, t_op) {
                Ok(c) => out.push((c["KW"].clone(), Some(c["VARIANT"].clone()))),
                Err(e1) => match match_template(&n, &rb, t_pres) {
                    Ok(c) if c["VARIANT"] == "Present" => out.push((c["KW"].clone(), None)),
                    _ => return Err(e1),
                },
            }
        }
        Ok(out)
    };
    let g_ops = alts("attrexp", T_OP, T_PRES)?;
    let g_ops_c = alts("complex_attrexp", T_COP, T_CPRES)?;
    if !by_name.is_empty() {
        return Err(format!("grammar has rules the model does not know: {:?}", by_name.keys().collect::<Vec<_>>()));
    }
    for tbl in [&g_ops, &g_ops_c] {
        for (_, v) in tbl.iter() {
            if let Some(v) = v {
                if !ops.contains(v) {
                    return Err(format!("grammar action builds `{v}`, which is not a comparison variant"));
                }
            }
        }
    }
    // --- emit
    let mut b = String::from("namespace Kanidm.Gen.ScimFilter\n");
    b += &format!("/-- `const SCIM_FILTER_MAX_DEPTH` -/\ndef maxDepth : Nat := {depth}\n");
    b += "/-- variants of `enum ScimFilter` with payload `(AttrPath, JsonValue)` (same set, with `SubAttribute`, in `ScimComplexFilter`) -/\n";
    b += &format!("inductive Op where\n  | {}\nderiving DecidableEq, Repr\n", ops.join(" | "));
    b += &format!("def Op.all : List Op := [{}]\n", ops.iter().map(|o| format!(".{o}")).collect::<Vec<_>>().join(", "));
    b += "def Op.name : Op → String\n";
    for o in &ops {
        b += &format!("  | .{o} => \"{o}\"\n");
    }
    let op_table = |name: &str, doc: &str, d: &DisplayKw| {
        let mut s = format!("/-- {doc} -/\ndef {name} : Op → List Char\n");
        for o in &ops {
            s += &format!("  | .{o} => {}\n", lean_chars(&d.ops[o]));
        }
        s
    };
    b += &op_table("dispKw", "keyword in the `Display for ScimFilter` arm `\"({attrpath} KW {value})\"`", &df);
    b += &op_table("dispKwC", "keyword in the `Display for ScimComplexFilter` arm `\"({subattr} KW {value})\"`", &dc);
    b += "/-- `Display for ScimFilter`: `\"({this} or {that})\"`, `\"({this} and {that})\"`, `\"(not ({expr}))\"`, `\"({attrpath} pr)\"` -/\n";
    b += &format!("def dispOr : List Char := {}\ndef dispAnd : List Char := {}\ndef dispNot : List Char := {}\ndef dispPr : List Char := {}\n",
        lean_chars(&df.or_), lean_chars(&df.and_), lean_chars(&df.not_), lean_chars(&df.pr));
    b += "/-- the same four for `Display for ScimComplexFilter` -/\n";
    b += &format!("def dispOrC : List Char := {}\ndef dispAndC : List Char := {}\ndef dispNotC : List Char := {}\ndef dispPrC : List Char := {}\n",
        lean_chars(&dc.or_), lean_chars(&dc.and_), lean_chars(&dc.not_), lean_chars(&dc.pr));
    let g_table = |name: &str, doc: &str, t: &Vec<(String, Option<String>)>| {
        let rows: Vec<String> = t
            .iter()
            .map(|(k, v)| match v {
                Some(v) => format!("  ({}, some .{v})", lean_chars(k)),
                None => format!("  ({}, none)", lean_chars(k)),
            })
            .collect();
        format!("/-- {doc} -/\ndef {name} : List (List Char × Option Op) := [\n{}]\n", rows.join(",\n"))
    };
    b += &g_table("gramOps", "`rule attrexp()` alternatives in source order, each resolved to its rule's keyword and the variant its action builds (`none` = `Present`, no value)", &g_ops);
    b += &g_table("gramOpsC", "`rule complex_attrexp()` likewise", &g_ops_c);
    b += "/-- `rule parse_inner`: keywords of precedence level 0 (lowest), level 1, and of the `not` atom -/\n";
    b += &format!("def gramOr : List Char := {}\ndef gramAnd : List Char := {}\ndef gramNot : List Char := {}\n",
        lean_chars(&kw_f["OR"]), lean_chars(&kw_f["AND"]), lean_chars(&kw_f["NOT"]));
    b += "/-- `rule parse_complex_inner` likewise -/\n";
    b += &format!("def gramOrC : List Char := {}\ndef gramAndC : List Char := {}\ndef gramNotC : List Char := {}\n",
        lean_chars(&kw_c["OR"]), lean_chars(&kw_c["AND"]), lean_chars(&kw_c["NOT"]));
    b += "end Kanidm.Gen.ScimFilter\n";
    write_generated(
        out,
        "ScimFilterTables",
        &format!("{REL} (enum ScimFilter, Display impls, peg grammar scimfilter)"),
        &b,
    )?;
    Ok(format!(
        "ScimFilterTables: maxDepth {depth}, {} comparison variants, {} + {} grammar alternatives, 17 grammar rules shape-checked",
        ops.len(),
        g_ops.len(),
        g_ops_c.len()
    ))
}
