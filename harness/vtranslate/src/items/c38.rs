//! C38 translator item `oauth2-authz-ops`: the operators, boolean combinations, per-type tables,
//! constants and response-mode tables of `check_oauth2_authorisation`,
//! `check_oauth2_authorise_permit`, `process_requested_scopes_for_identity`, `host_is_local`,
//! `OauthRSType` / `Oauth2RS` accessors and the client-building part of `reload`
//! (`server/lib/src/idm/oauth2.rs`), `AuthorisationRequest::get_response_mode`
//! (`proto/src/oauth2.rs`) and `OAUTH2_OIDC_MAX_AGE_CLAMP` — regenerated as Lean definitions.
//! Everything that is hand-transcribed in `KanidmModel/OAuth2/Authorise.lean` (order of the
//! checks, which sets a URL goes to, which fields the code / consent token copy) is pinned here
//! by its exact token string: any other shape is an error.
use crate::util::*;
use quote::ToTokens;
use std::collections::BTreeMap;
use syn::visit::Visit;

pub fn run(item: &str, repo: &str, out: &str) -> Option<Result<String, String>> {
    match item {
        "oauth2-authz-ops" => Some(oauth2_authz_ops(repo, out)),
        _ => None,
    }
}

fn toks<T: ToTokens>(t: &T) -> String {
    t.to_token_stream().to_string()
}

/// Every `let <name> = <init>` (also `let mut`, typed) in a block, in source order.
fn lets_named(block: &syn::Block, name: &str) -> Vec<syn::Expr> {
    struct V<'a>(&'a str, Vec<syn::Expr>);
    impl<'a, 'ast> Visit<'ast> for V<'a> {
        fn visit_local(&mut self, l: &'ast syn::Local) {
            let mut pat = &l.pat;
            if let syn::Pat::Type(t) = pat {
                pat = &t.pat;
            }
            if let syn::Pat::Ident(i) = pat {
                if i.ident == self.0 {
                    if let Some(init) = &l.init {
                        self.1.push((*init.expr).clone());
                    }
                }
            }
            syn::visit::visit_local(self, l);
        }
    }
    let mut v = V(name, vec![]);
    v.visit_block(block);
    v.1
}

fn one_let(block: &syn::Block, fname: &str, name: &str) -> Result<syn::Expr, String> {
    let v = lets_named(block, name);
    if v.len() != 1 {
        return Err(format!("{fname}: expected exactly one `let {name} = …`, found {}", v.len()));
    }
    Ok(v[0].clone())
}

/// All `match` expressions of a block in source order.
fn matches_of(block: &syn::Block) -> Vec<syn::ExprMatch> {
    struct V(Vec<syn::ExprMatch>);
    impl<'ast> Visit<'ast> for V {
        fn visit_expr_match(&mut self, m: &'ast syn::ExprMatch) {
            self.0.push(m.clone());
            syn::visit::visit_expr_match(self, m);
        }
    }
    let mut v = V(vec![]);
    v.visit_block(block);
    v.0
}

/// Outcomes of a function in source order: `return <e>`, `Ok(<Type>::…)` expressions that are not
/// under a `return`, and `?` operators (classified by the caller).
fn outcomes(block: &syn::Block, ok_type: &str) -> Vec<String> {
    struct V<'a>(&'a str, Vec<String>);
    impl<'a, 'ast> Visit<'ast> for V<'a> {
        fn visit_expr_return(&mut self, r: &'ast syn::ExprReturn) {
            self.1.push(format!("return {}", r.expr.as_ref().map(|e| toks(&**e)).unwrap_or_default()));
        }
        fn visit_expr_call(&mut self, c: &'ast syn::ExprCall) {
            if toks(&c.func) == "Ok" && c.args.len() == 1 && toks(&c.args[0]).starts_with(self.0) {
                self.1.push(format!("tail Ok ({})", toks(&c.args[0])));
                return;
            }
            syn::visit::visit_expr_call(self, c);
        }
        fn visit_expr_try(&mut self, t: &'ast syn::ExprTry) {
            syn::visit::visit_expr_try(self, t);
            self.1.push(format!("try {}", toks(&t.expr)));
        }
    }
    let mut v = V(ok_type, vec![]);
    v.visit_block(block);
    v.1
}

/// Boolean expression ↦ Lean, leaves looked up by their exact token string.
fn render(e: &syn::Expr, atoms: &BTreeMap<&str, &str>) -> Result<String, String> {
    use syn::{BinOp, Expr};
    let t = toks(e);
    if let Some(v) = atoms.get(t.as_str()) {
        return Ok(v.to_string());
    }
    match e {
        Expr::Paren(p) => Ok(format!("({})", render(&p.expr, atoms)?)),
        Expr::Group(g) => render(&g.expr, atoms),
        Expr::Reference(r) => render(&r.expr, atoms),
        Expr::Lit(l) => match &l.lit {
            syn::Lit::Int(i) => Ok(i.base10_digits().to_string()),
            syn::Lit::Bool(b) => Ok(if b.value { "true".into() } else { "false".into() }),
            o => Err(format!("unsupported literal {}", toks(o))),
        },
        Expr::Unary(u) => match u.op {
            syn::UnOp::Not(_) => Ok(format!("(!{})", render(&u.expr, atoms)?)),
            syn::UnOp::Deref(_) => render(&u.expr, atoms),
            _ => Err(format!("unsupported unary in `{t}`")),
        },
        Expr::Binary(b) => {
            let l = render(&b.left, atoms)?;
            let r = render(&b.right, atoms)?;
            Ok(match b.op {
                BinOp::And(_) => format!("({l} && {r})"),
                BinOp::Or(_) => format!("({l} || {r})"),
                BinOp::Lt(_) => format!("decide ({l} < {r})"),
                BinOp::Le(_) => format!("decide ({l} ≤ {r})"),
                BinOp::Gt(_) => format!("decide ({l} > {r})"),
                BinOp::Ge(_) => format!("decide ({l} ≥ {r})"),
                BinOp::Eq(_) => format!("decide ({l} = {r})"),
                BinOp::Ne(_) => format!("decide ({l} ≠ {r})"),
                _ => return Err(format!("unsupported operator in `{t}`")),
            })
        }
        _ => Err(format!("unrecognised expression `{t}` (known leaves: {:?})", atoms.keys().collect::<Vec<_>>())),
    }
}

fn atoms<'a>(pairs: &[(&'a str, &'a str)]) -> BTreeMap<&'a str, &'a str> {
    pairs.iter().cloned().collect()
}

fn expect_list(what: &str, got: &[String], want: &[&str]) -> Result<(), String> {
    if got.len() != want.len() || got.iter().zip(want.iter()).any(|(a, b)| a != b) {
        let first = got.iter().zip(want.iter()).position(|(a, b)| a != b).unwrap_or(got.len().min(want.len()));
        return Err(format!(
            "{what}: shape changed ({} found, {} expected); first difference at {first}: found `{}`, expected `{}`",
            got.len(),
            want.len(),
            got.get(first).map(|s| s.as_str()).unwrap_or("<none>"),
            want.get(first).copied().unwrap_or("<none>")
        ));
    }
    Ok(())
}

fn expect_eq(what: &str, got: &str, want: &str) -> Result<(), String> {
    if got != want {
        return Err(format!("{what}: found `{got}`, expected `{want}`"));
    }
    Ok(())
}

fn enum_variants(file: &syn::File, name: &str) -> Result<Vec<String>, String> {
    struct V<'a>(&'a str, Option<Vec<String>>);
    impl<'a, 'ast> Visit<'ast> for V<'a> {
        fn visit_item_enum(&mut self, e: &'ast syn::ItemEnum) {
            if e.ident == self.0 && self.1.is_none() {
                self.1 = Some(e.variants.iter().map(|v| v.ident.to_string()).collect());
            }
        }
    }
    let mut v = V(name, None);
    v.visit_file(file);
    v.1.ok_or_else(|| format!("enum {name} not found"))
}

/// A `match self.type_ { OauthRSType::Basic { f, .. } => e, OauthRSType::Public { .. } => e }` accessor:
/// (basic body, public body) as Lean over the field names.
fn type_table(file: &syn::File, spec: &str) -> Result<(String, String), String> {
    let f = find_fn(file, spec)?;
    let ms = matches_of(&f.block);
    if ms.len() != 1 {
        return Err(format!("{spec}: expected one match, found {}", ms.len()));
    }
    let m = &ms[0];
    let scrut = toks(&m.expr);
    if !["self", "self . type_", "& self . type_"].contains(&scrut.as_str()) {
        return Err(format!("{spec}: matches on `{scrut}`"));
    }
    if m.arms.len() != 2 {
        return Err(format!("{spec}: expected 2 arms, found {}", m.arms.len()));
    }
    let at = atoms(&[
        ("* enable_pkce", "enablePkce"),
        ("* enable_consent_prompt", "enableConsentPrompt"),
        ("* allow_localhost_redirect", "allowLocalhostRedirect"),
        ("enable_pkce", "enablePkce"),
        ("enable_consent_prompt", "enableConsentPrompt"),
        ("allow_localhost_redirect", "allowLocalhostRedirect"),
    ]);
    let mut basic = None;
    let mut public = None;
    for arm in &m.arms {
        if arm.guard.is_some() {
            return Err(format!("{spec}: guarded arm"));
        }
        let (variant, fields) = match &arm.pat {
            syn::Pat::Struct(s) => {
                let mut fs = vec![];
                for fp in &s.fields {
                    if fp.colon_token.is_some() {
                        return Err(format!("{spec}: field pattern `{}` renames its field", toks(fp)));
                    }
                    fs.push(toks(&fp.member));
                }
                (toks(&s.path), fs)
            }
            o => return Err(format!("{spec}: unexpected pattern `{}`", toks(o))),
        };
        let body = render(&arm.body, &at)?;
        // a field used in the body must be bound by this arm's pattern
        for (_, lean) in at.iter() {
            let rust = match *lean {
                "enablePkce" => "enable_pkce",
                "enableConsentPrompt" => "enable_consent_prompt",
                _ => "allow_localhost_redirect",
            };
            if body.contains(lean) && !fields.iter().any(|f| f == rust) {
                return Err(format!("{spec}: arm `{variant}` uses `{rust}` without binding it"));
            }
        }
        match variant.as_str() {
            "OauthRSType :: Basic" => basic = Some(body),
            "OauthRSType :: Public" => public = Some(body),
            o => return Err(format!("{spec}: unknown variant `{o}`")),
        }
    }
    Ok((basic.ok_or(format!("{spec}: no Basic arm"))?, public.ok_or(format!("{spec}: no Public arm"))?))
}

/// `ent.get_ava_single_bool(Attribute::X)[.map(|e| !e)].unwrap_or(<bool>)` ↦ (attribute, negated, default).
fn flag_default(e: &syn::Expr, what: &str) -> Result<(String, bool, bool), String> {
    let err = || format!("reload: `{what}` is read as `{}`", toks(e));
    let syn::Expr::MethodCall(outer) = e else { return Err(err()) };
    if outer.method != "unwrap_or" || outer.args.len() != 1 {
        return Err(err());
    }
    let default = match toks(&outer.args[0]).as_str() {
        "true" => true,
        "false" => false,
        _ => return Err(err()),
    };
    let (negated, inner) = match &*outer.receiver {
        syn::Expr::MethodCall(m) if m.method == "map" => {
            if m.args.len() != 1 || toks(&m.args[0]) != "| e | ! e" {
                return Err(err());
            }
            (true, (*m.receiver).clone())
        }
        o => (false, o.clone()),
    };
    let t = toks(&inner);
    let attr = t
        .strip_prefix("ent . get_ava_single_bool (Attribute :: ")
        .and_then(|r| r.strip_suffix(")"))
        .ok_or_else(err)?
        .trim()
        .to_string();
    Ok((attr, negated, default))
}

fn lean_flag(negated: bool, default: bool) -> String {
    format!("match flag with | some e => {} | none => {default}", if negated { "(!e)" } else { "e" })
}

const AUTH_CONDS: [&str; 25] = [
    "auth_req . response_type != ResponseType :: Code",
    "auth_req . prompt . len () > 4",
    "! invalid_prompts . is_empty ()",
    "auth_req . prompt . contains (& Prompt :: None) && auth_req . prompt . len () > 1",
    "valid_match_condition_asserted",
    "auth_req_uri_is_loopback && could_allow_localhost_redirect && ! type_allows_localhost_redirect",
    "o2rs . origin_secure_required && ! redirect_origin_is_secure",
    "let Some (pkce_request) = & auth_req . pkce_request",
    "! o2rs . require_pkce ()",
    "pkce_request . code_challenge_method != CodeChallengeMethod :: S256",
    "o2rs . require_pkce ()",
    "auth_req . prompt . contains (& Prompt :: None)",
    "auth_req . prompt . contains (& Prompt :: Login)",
    "let Some (max_age) = max_age",
    "max_age <= 0",
    "auth_req_ctx . resumed",
    "session_recently_validated",
    "account_uuid == UUID_ANONYMOUS",
    "let Some (consent_scopes) = ident . get_oauth2_consent_scopes (o2rs . uuid)",
    "! consent_required",
    "event_enabled ! (tracing :: Level :: DEBUG)",
    "auth_req . prompt . contains (& Prompt :: None)",
    "openid_requested",
    "granted_scopes . contains (OAUTH2_SCOPE_EMAIL)",
    "granted_scopes . contains (OAUTH2_SCOPE_SSH_PUBLICKEYS)",
];

const AUTH_OUTCOMES: [&str; 19] = [
    "Err UnsupportedResponseType",
    "Err InvalidRequest",
    "Err InvalidRequest",
    "Err InvalidRequest",
    "Err InvalidRequest",
    "Err InvalidRequest",
    "Err InvalidClientId",
    "Err InvalidOrigin",
    "Err InvalidOrigin",
    "Err InvalidRequest",
    "Err InvalidRequest",
    "Err LoginRequired",
    "Ok AuthenticationRequired",
    "Ok ReauthenticationRequired",
    "Err AccessDenied",
    "? process_requested_scopes_for_identity",
    "Ok Permitted",
    "Err InteractionRequired",
    "Ok ConsentRequested",
];

fn classify_outcome(o: &str) -> Result<Option<String>, String> {
    if let Some(r) = o.strip_prefix("return Err (Oauth2Error :: ") {
        return Ok(Some(format!("Err {}", r.trim_end_matches(')').trim())));
    }
    if let Some(r) = o.strip_prefix("return Ok (AuthoriseResponse :: ").or_else(|| o.strip_prefix("tail Ok (AuthoriseResponse :: ")) {
        let name: String = r.chars().take_while(|c| c.is_alphanumeric()).collect();
        return Ok(Some(format!("Ok {name}")));
    }
    if let Some(r) = o.strip_prefix("try ") {
        if r.contains("rs_set_get") && r.contains("Oauth2Error :: InvalidClientId") {
            return Ok(Some("Err InvalidClientId".into()));
        }
        if r.starts_with("process_requested_scopes_for_identity (o2rs , ident , Some (& auth_req . scope))") {
            return Ok(Some("? process_requested_scopes_for_identity".into()));
        }
        if r.contains("Oauth2Error :: ServerError") {
            return Ok(None); // encoding / encryption failures: not modelled
        }
    }
    Err(format!("check_oauth2_authorisation: unrecognised outcome `{}`", &o[..o.len().min(160)]))
}

fn oauth2_authz_ops(repo: &str, out: &str) -> Result<String, String> {
    let rel = "server/lib/src/idm/oauth2.rs";
    let ast = parse_file(repo, rel)?;
    let proto = parse_file(repo, "proto/src/oauth2.rs")?;
    let consts = parse_file(repo, "server/lib/src/constants/mod.rs")?;
    let dump = std::env::var_os("VT_DUMP").is_some();

    // ---------------------------------------------------------------- enums
    let rtypes = enum_variants(&proto, "ResponseType")?;
    let rmodes = enum_variants(&proto, "ResponseMode")?;
    let smodes = enum_variants(&ast, "SupportedResponseMode")?;
    expect_list("enum ResponseType", &rtypes, &["Code", "Token", "IdToken"])?;
    expect_list("enum ResponseMode", &rmodes, &["Query", "Fragment", "FormPost", "Invalid"])?;
    expect_list("enum SupportedResponseMode", &smodes, &["Query", "Fragment"])?;
    let cc = enum_variants(&proto, "CodeChallengeMethod")?;
    expect_list("enum CodeChallengeMethod", &cc, &["S256"])?;
    let prompts = enum_variants(&proto, "Prompt")?;
    expect_list("enum Prompt", &prompts, &["None", "Login", "Consent", "SelectAccount", "Invalid"])?;

    // ---------------------------------------------------------------- get_response_mode
    let f = find_fn(&proto, "AuthorisationRequest::get_response_mode")?;
    let ms = matches_of(&f.block);
    if ms.len() != 1 || toks(&ms[0].expr) != "(self . response_mode , self . response_type)" {
        return Err("get_response_mode: expected one match on (self.response_mode, self.response_type)".into());
    }
    // arms as (mode pattern, type pattern, result)
    enum MP {
        None,
        Some(usize),
        Any,
    }
    let mut arms: Vec<(MP, Option<usize>, String)> = vec![];
    for arm in &ms[0].arms {
        let syn::Pat::Tuple(t) = &arm.pat else { return Err(format!("get_response_mode: pattern `{}`", toks(&arm.pat))) };
        if t.elems.len() != 2 || arm.guard.is_some() {
            return Err(format!("get_response_mode: pattern `{}`", toks(&arm.pat)));
        }
        let mp = match toks(&t.elems[0]).as_str() {
            "None" => MP::None,
            "Some (m)" => MP::Any,
            s => {
                let v = s.strip_prefix("Some (ResponseMode :: ").and_then(|r| r.strip_suffix(")")).ok_or(format!("get_response_mode: mode pattern `{s}`"))?.trim();
                MP::Some(rmodes.iter().position(|x| x == v).ok_or(format!("get_response_mode: unknown mode {v}"))?)
            }
        };
        let tp = match toks(&t.elems[1]).as_str() {
            "_" => None,
            s => {
                let v = s.strip_prefix("ResponseType :: ").ok_or(format!("get_response_mode: type pattern `{s}`"))?.trim();
                Some(rtypes.iter().position(|x| x == v).ok_or(format!("get_response_mode: unknown type {v}"))?)
            }
        };
        arms.push((mp, tp, toks(&arm.body)));
    }
    let mut table = vec![];
    for m in std::iter::once(None).chain((0..rmodes.len()).map(Some)) {
        for t in 0..rtypes.len() {
            let arm = arms
                .iter()
                .find(|(mp, tp, _)| {
                    (match (mp, m) {
                        (MP::None, None) => true,
                        (MP::Some(a), Some(b)) => *a == b,
                        (MP::Any, Some(_)) => true,
                        _ => false,
                    }) && tp.map(|x| x == t).unwrap_or(true)
                })
                .ok_or(format!("get_response_mode: no arm for ({m:?}, {t})"))?;
            let res = match arm.2.as_str() {
                "None" => "none".to_string(),
                "Some (m)" => format!("some {}", m.ok_or("get_response_mode: `Some(m)` on a None pattern")?),
                s => {
                    let v = s.strip_prefix("Some (ResponseMode :: ").and_then(|r| r.strip_suffix(")")).ok_or(format!("get_response_mode: result `{s}`"))?.trim();
                    format!("some {}", rmodes.iter().position(|x| x == v).ok_or(format!("get_response_mode: unknown mode {v}"))?)
                }
            };
            table.push(format!("(({}, {t}), {res})", m.map(|x| format!("some {x}")).unwrap_or("none".into())));
        }
    }

    // ---------------------------------------------------------------- check_oauth2_authorisation
    let f = find_fn(&ast, "IdmServerProxyReadTransaction::check_oauth2_authorisation")?;
    let conds = if_conditions(&f.block);
    let cs: Vec<String> = conds.iter().map(toks).collect();
    if dump {
        for (i, c) in cs.iter().enumerate() {
            eprintln!("cond {i}: {c}");
        }
    }
    expect_list("check_oauth2_authorisation if-conditions", &cs, &AUTH_CONDS)?;
    let outs = outcomes(&f.block, "AuthoriseResponse ::");
    let mut seq = vec![];
    for o in &outs {
        if dump {
            eprintln!("outcome: {}", &o[..o.len().min(200)]);
        }
        if let Some(c) = classify_outcome(o)? {
            seq.push(c);
        }
    }
    expect_list("check_oauth2_authorisation outcomes", &seq, &AUTH_OUTCOMES)?;

    // the `match response_mode` table
    let rm = one_let(&f.block, "check_oauth2_authorisation", "response_mode")?;
    let syn::Expr::Match(rm) = rm else { return Err("check_oauth2_authorisation: `let response_mode = match …` expected".into()) };
    expect_eq("response_mode match scrutinee", &toks(&rm.expr), "response_mode")?;
    let mut smode_rows: Vec<(usize, Option<usize>)> = vec![];
    for arm in &rm.arms {
        let p = toks(&arm.pat);
        let v = p.strip_prefix("ResponseMode :: ").ok_or(format!("response_mode match: pattern `{p}`"))?.trim();
        let idx = rmodes.iter().position(|x| x == v).ok_or(format!("response_mode match: unknown {v}"))?;
        // value = the last expression of the arm (block or bare)
        let last: String = match &*arm.body {
            syn::Expr::Block(b) => match b.block.stmts.last() {
                Some(syn::Stmt::Expr(e, _)) => toks(e),
                o => return Err(format!("response_mode match: arm body `{}`", o.map(toks).unwrap_or_default())),
            },
            e => toks(e),
        };
        let res = if last == "return Err (Oauth2Error :: InvalidRequest)" {
            None
        } else {
            let v = last.strip_prefix("SupportedResponseMode :: ").ok_or(format!("response_mode match: value `{last}`"))?.trim().to_string();
            Some(smodes.iter().position(|x| *x == v).ok_or(format!("response_mode match: unknown {v}"))?)
        };
        smode_rows.push((idx, res));
    }
    smode_rows.sort();
    if smode_rows.iter().map(|r| r.0).collect::<Vec<_>>() != (0..rmodes.len()).collect::<Vec<_>>() {
        return Err("response_mode match: not one arm per ResponseMode".into());
    }
    // the let-else in front of it
    if !toks(&f.block).contains("let Some (response_mode) = auth_req . get_response_mode () else") {
        return Err("check_oauth2_authorisation: `let Some(response_mode) = auth_req.get_response_mode() else` not found".into());
    }

    // prompt checks
    let prompt_too_many = render(&conds[1], &atoms(&[("auth_req . prompt . len ()", "len")]))?;
    let prompt_none_conflict = render(&conds[3], &atoms(&[("auth_req . prompt . contains (& Prompt :: None)", "hasNone"), ("auth_req . prompt . len ()", "len")]))?;
    let invalid_prompts = one_let(&f.block, "check_oauth2_authorisation", "invalid_prompts")?;
    expect_eq(
        "invalid_prompts",
        &toks(&invalid_prompts),
        "auth_req . prompt . iter () . filter_map (| v | match v { Prompt :: Invalid (s) => Some (s . as_str ()) , _ => None , }) . collect ()",
    )?;

    // client lookup
    let rs = toks(&one_let(&f.block, "check_oauth2_authorisation", "o2rs")?);
    if !rs.starts_with("self . oauth2rs . inner . rs_set_get (& auth_req . client_id) . ok_or_else (") {
        return Err(format!("check_oauth2_authorisation: o2rs = `{}`", &rs[..rs.len().min(120)]));
    }
    let g = find_fn(&ast, "Oauth2RSInner::rs_set_get")?;
    expect_eq("rs_set_get", &toks(&g.block), "{ self . private_rs_set . get (client_id . to_lowercase () . as_str ()) }")?;

    // redirect logic
    let pin_let = |name: &str, want: &str| -> Result<(), String> { expect_eq(&format!("let {name}"), &toks(&one_let(&f.block, "check_oauth2_authorisation", name)?), want) };
    pin_let("auth_req_uri_is_loopback", "check_is_loopback (& auth_req . redirect_uri)")?;
    pin_let("type_allows_localhost_redirect", "o2rs . type_ . allow_localhost_redirect ()")?;
    pin_let("strict_redirect_uri_matched", "o2rs . redirect_uris . contains (& auth_req . redirect_uri)")?;
    pin_let("opaque_origin_matched", "o2rs . opaque_origins . contains (& auth_req . redirect_uri)")?;
    let loopback_matched = render(
        &one_let(&f.block, "check_oauth2_authorisation", "loopback_uri_matched")?,
        &atoms(&[("auth_req_uri_is_loopback", "isLoopback"), ("type_allows_localhost_redirect", "typeAllows")]),
    )?;
    let secure_e = one_let(&f.block, "check_oauth2_authorisation", "redirect_origin_is_secure")?;
    let secure = render(
        &secure_e,
        &atoms(&[("opaque_origin_matched", "opaqueMatched"), ("auth_req_uri_is_loopback", "isLoopback"), ("auth_req . redirect_uri . scheme () == \"https\"", "https")]),
    )?;
    let valid_e = one_let(&f.block, "check_oauth2_authorisation", "valid_match_condition_asserted")?;
    let valid = render(
        &valid_e,
        &atoms(&[("loopback_uri_matched", "loopbackMatched"), ("strict_redirect_uri_matched", "strictMatched"), ("opaque_origin_matched", "opaqueMatched")]),
    )?;
    let insecure = render(&conds[6], &atoms(&[("o2rs . origin_secure_required", "secureRequired"), ("redirect_origin_is_secure", "isSecure")]))?;
    for (what, lean, needs) in [
        ("loopback_uri_matched", &loopback_matched, vec!["isLoopback", "typeAllows"]),
        ("redirect_origin_is_secure", &secure, vec!["opaqueMatched", "isLoopback", "https"]),
        ("valid_match_condition_asserted", &valid, vec!["loopbackMatched", "strictMatched", "opaqueMatched"]),
        ("secure-origin test", &insecure, vec!["secureRequired", "isSecure"]),
    ] {
        for n in needs {
            if !lean.contains(n) {
                return Err(format!("check_oauth2_authorisation: {what} no longer mentions {n}: {lean}"));
            }
        }
    }

    // pkce
    let pkce_rejected = render(&conds[9], &atoms(&[("pkce_request . code_challenge_method != CodeChallengeMethod :: S256", "(!isS256)")]))?;
    let cc_let = toks(&one_let(&f.block, "check_oauth2_authorisation", "code_challenge")?);
    if !cc_let.contains("Some (pkce_request . code_challenge . clone ())") || !cc_let.trim_end().ends_with("None }") {
        return Err("check_oauth2_authorisation: code_challenge is no longer Some(pkce_request.code_challenge.clone()) / None".into());
    }

    // identity, max_age
    let max_age = one_let(&f.block, "check_oauth2_authorisation", "max_age")?;
    expect_eq(
        "let max_age",
        &toks(&max_age),
        "if auth_req . prompt . contains (& Prompt :: Login) { Some (0) } else { auth_req . max_age . map (| m | m . clamp (0 , OAUTH2_OIDC_MAX_AGE_CLAMP)) }",
    )?;
    let clamp = eval_int(&find_const(&consts, "OAUTH2_OIDC_MAX_AGE_CLAMP").ok_or("OAUTH2_OIDC_MAX_AGE_CLAMP not found")?, &|_| None)?;
    pin_let("auth_time", "ident . last_verified_at ()")?;
    let srv = toks(&one_let(&f.block, "check_oauth2_authorisation", "session_recently_validated")?);
    expect_eq(
        "let session_recently_validated",
        &srv,
        "if max_age <= 0 { false } else { let odt_prompt_deadline = (OffsetDateTime :: UNIX_EPOCH + ct) - Duration :: from_secs (max_age as u64) ; auth_time . map (| at | { let at = at . truncate_to_second () ; let odt_prompt_deadline = odt_prompt_deadline . truncate_to_second () ; at > odt_prompt_deadline }) . unwrap_or_default () }",
    )?;
    let forces = render(&conds[14], &atoms(&[("max_age", "maxAge")]))?;
    // the comparison inside the closure
    let recently = if srv.contains("; at > odt_prompt_deadline }") { "decide (authTime > deadline)" } else { return Err("session_recently_validated: comparison changed".into()) };
    let is_anon = render(&conds[17], &atoms(&[("account_uuid", "uuid"), ("UUID_ANONYMOUS", "anonymous")]))?;
    pin_let("account_uuid", "ident . get_uuid ()")?;

    // consent
    let consent_required = render(
        &one_let(&f.block, "check_oauth2_authorisation", "consent_required")?,
        &atoms(&[
            ("consent_previously_granted", "previouslyGranted"),
            ("o2rs . is_basic ()", "isBasic"),
            ("loopback_uri_matched", "loopbackMatched"),
            ("o2rs . enable_consent_prompt ()", "promptEnabled"),
        ]),
    )?;
    for n in ["previouslyGranted", "isBasic", "loopbackMatched", "promptEnabled"] {
        if !consent_required.contains(n) {
            return Err(format!("consent_required no longer mentions {n}"));
        }
    }
    pin_let(
        "consent_previously_granted",
        "if let Some (consent_scopes) = ident . get_oauth2_consent_scopes (o2rs . uuid) { trace ! (? granted_scopes) ; trace ! (? consent_scopes) ; granted_scopes . eq (consent_scopes) } else { false }",
    )?;
    pin_let("openid_requested", "req_scopes . contains (OAUTH2_SCOPE_OPENID)")?;
    pin_let("session_id", "ident . get_session_id ()")?;
    let exps = lets_named(&f.block, "expiry");
    if exps.len() != 2 {
        return Err(format!("check_oauth2_authorisation: expected two `let expiry`, found {}", exps.len()));
    }
    let expiry_of = |e: &syn::Expr| -> Result<i128, String> {
        let t = toks(e);
        let n = t.strip_prefix("ct . as_secs () + ").ok_or(format!("expiry = `{t}`"))?;
        n.trim().parse::<i128>().map_err(|_| format!("expiry = `{t}`"))
    };
    let code_expiry = expiry_of(&exps[0])?;
    let consent_expiry = expiry_of(&exps[1])?;
    pin_let(
        "xchg_code",
        "TokenExchangeCode { account_uuid , session_id , expiry , code_challenge , redirect_uri : auth_req . redirect_uri . clone () , scopes : granted_scopes . into_iter () . collect () , nonce : auth_req . nonce . clone () , auth_time , }",
    )?;
    pin_let(
        "consent_req",
        "ConsentToken { client_id : auth_req . client_id . clone () , ident_id : ident . get_event_origin_id () , expiry , session_id , state : auth_req . state . clone () , code_challenge , redirect_uri : auth_req . redirect_uri . clone () , scopes : granted_scopes . iter () . cloned () . collect () , nonce : auth_req . nonce . clone () , response_mode , }",
    )?;
    let body = toks(&f.block);
    for needle in [
        "Ok (AuthoriseResponse :: Permitted (AuthorisePermitSuccess { redirect_uri : auth_req . redirect_uri . clone () , state : auth_req . state . clone () , code , response_mode , }))",
        "Ok (AuthoriseResponse :: ConsentRequested { client_name : o2rs . displayname . clone () , scopes : granted_scopes . into_iter () . collect () , pii_scopes , consent_token , })",
        "let (req_scopes , granted_scopes) = process_requested_scopes_for_identity (o2rs , ident , Some (& auth_req . scope)) ? ;",
        "pii_scopes . insert (OAUTH2_SCOPE_EMAIL . to_string ()) ; pii_scopes . insert (\"email_verified\" . to_string ()) ;",
        "pii_scopes . insert (OAUTH2_SCOPE_SSH_PUBLICKEYS . to_string ()) ;",
        "let Some (ident) = maybe_ident else",
    ] {
        if !body.contains(needle) {
            return Err(format!("check_oauth2_authorisation: `{needle}` not found"));
        }
    }

    // ---------------------------------------------------------------- process_requested_scopes_for_identity
    let f = find_fn(&ast, "process_requested_scopes_for_identity")?;
    let pc = if_conditions(&f.block);
    expect_list(
        "process_requested_scopes_for_identity if-conditions",
        &pc.iter().map(toks).collect::<Vec<_>>(),
        &["req_scopes . is_empty ()", "! req_scopes . is_subset (& available_scopes)"],
    )?;
    let scopes_denied = render(&pc[1], &atoms(&[("req_scopes . is_subset (& available_scopes)", "isSubset")]))?;
    let po: Vec<String> = outcomes(&f.block, "@none").iter().map(|s| s[..s.len().min(120)].to_string()).collect();
    expect_list(
        "process_requested_scopes_for_identity outcomes",
        &po,
        &["return Err (Oauth2Error :: InvalidRequest)", "try validate_scopes (& req_scopes)", "return Err (Oauth2Error :: AccessDenied)"],
    )?;
    expect_eq(
        "available_scopes",
        &toks(&one_let(&f.block, "process_requested_scopes_for_identity", "available_scopes")?),
        "o2rs . scope_maps . iter () . filter_map (| (u , m) | ident . is_memberof (* u) . then_some (m . iter ())) . flatten () . cloned () . collect ()",
    )?;
    expect_eq(
        "granted_scopes",
        &toks(&one_let(&f.block, "process_requested_scopes_for_identity", "granted_scopes")?),
        "o2rs . sup_scope_maps . iter () . filter_map (| (u , m) | ident . is_memberof (* u) . then_some (m . iter ())) . flatten () . cloned () . chain (req_scopes . iter () . cloned ()) . collect ()",
    )?;
    if !toks(&f.block).trim_end().ends_with("Ok ((req_scopes , granted_scopes)) }") {
        return Err("process_requested_scopes_for_identity: result is no longer Ok((req_scopes, granted_scopes))".into());
    }
    let f = find_fn(&ast, "validate_scopes")?;
    expect_list("validate_scopes if-conditions", &if_conditions(&f.block).iter().map(toks).collect::<Vec<_>>(), &["! failed_scopes . is_empty ()"])?;
    expect_eq(
        "validate_scopes failed_scopes",
        &toks(&one_let(&f.block, "validate_scopes", "failed_scopes")?),
        "req_scopes . iter () . filter (| & s | ! OAUTHSCOPE_RE . is_match (s)) . cloned () . collect :: < Vec < String > > ()",
    )?;
    expect_list("validate_scopes outcomes", &outcomes(&f.block, "@none"), &["return Err (Oauth2Error :: InvalidScope)"])?;

    // ---------------------------------------------------------------- loopback
    let f = find_fn(&ast, "host_is_local")?;
    let ms = matches_of(&f.block);
    if ms.len() != 1 {
        return Err("host_is_local: expected one match".into());
    }
    let arms: Vec<String> = ms[0].arms.iter().map(|a| format!("{} => {}", toks(&a.pat), toks(&a.body))).collect();
    let dom = arms.get(2).cloned().unwrap_or_default();
    let lit = dom.strip_prefix("Host :: Domain (domain) => * domain == \"").and_then(|r| r.strip_suffix('"')).ok_or(format!("host_is_local: domain arm `{dom}`"))?.to_string();
    expect_list(
        "host_is_local arms",
        &arms,
        &["Host :: Ipv4 (ip) => ip . is_loopback ()", "Host :: Ipv6 (ip) => ip . is_loopback ()", &format!("Host :: Domain (domain) => * domain == \"{lit}\"")],
    )?;
    if lit.is_empty() || !lit.chars().all(|c| c.is_ascii_alphanumeric() || c == '.' || c == '-') {
        return Err(format!("host_is_local: literal {lit:?}"));
    }
    let f = find_fn(&ast, "check_is_loopback")?;
    expect_eq("check_is_loopback", &toks(&f.block), "{ redirect_uri . host () . is_some_and (| host | { host_is_local (& host) }) }")?;

    // ---------------------------------------------------------------- type tables
    let (alr_b, alr_p) = type_table(&ast, "OauthRSType::allow_localhost_redirect")?;
    let (rp_b, rp_p) = type_table(&ast, "Oauth2RS::require_pkce")?;
    let (cp_b, cp_p) = type_table(&ast, "Oauth2RS::enable_consent_prompt")?;
    let (ib_b, ib_p) = type_table(&ast, "Oauth2RS::is_basic")?;

    // ---------------------------------------------------------------- reload
    let f = find_fn(&ast, "Oauth2ResourceServersWriteTransaction::reload")?;
    let (a1, n1, d1) = flag_default(&one_let(&f.block, "reload", "enable_pkce")?, "enable_pkce")?;
    let (a2, n2, d2) = flag_default(&one_let(&f.block, "reload", "enable_consent_prompt")?, "enable_consent_prompt")?;
    let (a3, n3, d3) = flag_default(&one_let(&f.block, "reload", "allow_localhost_redirect")?, "allow_localhost_redirect")?;
    expect_eq("reload enable_pkce attribute", &a1, "OAuth2AllowInsecureClientDisablePkce")?;
    expect_eq("reload enable_consent_prompt attribute", &a2, "OAuth2ConsentPromptEnable")?;
    expect_eq("reload allow_localhost_redirect attribute", &a3, "OAuth2AllowLocalhostRedirect")?;
    let ty = toks(&one_let(&f.block, "reload", "type_")?);
    for needle in [
        "if ent . attribute_equality (Attribute :: Class , & EntryClass :: OAuth2ResourceServerBasic . into () ,)",
        "OauthRSType :: Basic { authz_secret , enable_pkce , enable_consent_prompt , }",
        "else if ent . attribute_equality (Attribute :: Class , & EntryClass :: OAuth2ResourceServerPublic . into () ,)",
        "OauthRSType :: Public { allow_localhost_redirect , }",
    ] {
        if !ty.contains(needle) {
            return Err(format!("reload: type_ no longer contains `{needle}`"));
        }
    }
    expect_eq("reload landing_url", &toks(&one_let(&f.block, "reload", "landing_url")?), "ent . get_ava_single_url (Attribute :: OAuth2RsOriginLanding) . cloned () . ok_or (OperationError :: InvalidValueState) ?")?;
    expect_eq("reload maybe_extra_urls", &toks(&one_let(&f.block, "reload", "maybe_extra_urls")?), "ent . get_ava_set (Attribute :: OAuth2RsOrigin) . and_then (| s | s . as_url_set ())")?;
    let rb = toks(&f.block);
    for needle in [
        "redirect_uris_v . push (landing_url) ; if let Some (extra_origins) = maybe_extra_urls { for x_origin in extra_origins { redirect_uris_v . push (x_origin . clone ()) ; } }",
        "for mut uri in redirect_uris_v . into_iter () { uri . set_fragment (None) ; if uri . scheme () == \"https\" { origin_secure_required = true ; origins . insert (uri . origin ()) ; redirect_uris . insert (uri) ; } else if uri . scheme () == \"http\" { origins . insert (uri . origin ()) ; redirect_uris . insert (uri) ; } else { opaque_origins . insert (uri) ; } }",
        "let mut origin_secure_required = false ;",
        "let scope_maps = ent . get_ava_as_oauthscopemaps (Attribute :: OAuth2RsScopeMap) . cloned () . unwrap_or_default () ;",
        "let sup_scope_maps = ent . get_ava_as_oauthscopemaps (Attribute :: OAuth2RsSupScopeMap) . cloned () . unwrap_or_default () ;",
        "let client_id = ent . get_ava_single_iname (Attribute :: Name) . map (str :: to_string) . ok_or (OperationError :: InvalidValueState) ? ;",
        "Ok ((client_id , rscfg))",
    ] {
        if !rb.contains(needle) {
            return Err(format!("reload: `{}…` not found", &needle[..needle.len().min(90)]));
        }
    }

    // ---------------------------------------------------------------- permit
    let f = find_fn(&ast, "IdmServerProxyWriteTransaction::check_oauth2_authorise_permit")?;
    let pc = if_conditions(&f.block);
    expect_list(
        "check_oauth2_authorise_permit if-conditions",
        &pc.iter().map(toks).collect::<Vec<_>>(),
        &["consent_req . ident_id != ident . get_event_origin_id ()", "consent_req . session_id != ident . get_session_id ()", "consent_req . expiry <= ct . as_secs ()"],
    )?;
    let token_expired = render(&pc[2], &atoms(&[("consent_req . expiry", "expiry"), ("ct . as_secs ()", "now")]))?;
    let rets: Vec<String> = outcomes(&f.block, "@none").into_iter().filter(|o| o.starts_with("return")).collect();
    expect_list(
        "check_oauth2_authorise_permit returns",
        &rets,
        &["return Err (OperationError :: InvalidSessionState)", "return Err (OperationError :: InvalidSessionState)", "return Err (OperationError :: CryptographyError)"],
    )?;
    let permit_expiry = expiry_of(&one_let(&f.block, "check_oauth2_authorise_permit", "expiry")?)?;
    expect_eq(
        "permit xchg_code",
        &toks(&one_let(&f.block, "check_oauth2_authorise_permit", "xchg_code")?),
        "TokenExchangeCode { account_uuid , session_id : ident . get_session_id () , expiry , code_challenge : consent_req . code_challenge , redirect_uri : consent_req . redirect_uri . clone () , scopes : consent_req . scopes . clone () , nonce : consent_req . nonce , auth_time : ident . last_verified_at () , }",
    )?;
    let pb = toks(&f.block);
    for needle in [
        "let account_uuid = ident . get_uuid () ;",
        "self . oauth2rs . inner . rs_set_get (& consent_req . client_id) . ok_or_else (",
        "OperationError :: InvalidRequestState",
        "Modify :: Removed (Attribute :: OAuth2ConsentScopeMap , PartialValue :: Refer (o2rs . uuid) ,) , Modify :: Present (Attribute :: OAuth2ConsentScopeMap , Value :: OauthScopeMap (o2rs . uuid , consent_req . scopes . iter () . cloned () . collect ()) ,)",
        "Ok (AuthorisePermitSuccess { redirect_uri : consent_req . redirect_uri , state : consent_req . state , code , response_mode : consent_req . response_mode , })",
    ] {
        if !pb.contains(needle) {
            return Err(format!("check_oauth2_authorise_permit: `{}…` not found", &needle[..needle.len().min(90)]));
        }
    }
    // the order: identity, session, expiry, client lookup
    let pos = |s: &str| pb.find(s).unwrap_or(usize::MAX);
    if !(pos("consent_req . ident_id !=") < pos("consent_req . session_id !=") && pos("consent_req . session_id !=") < pos("consent_req . expiry <=") && pos("consent_req . expiry <=") < pos("rs_set_get (& consent_req . client_id)")) {
        return Err("check_oauth2_authorise_permit: order of checks changed".into());
    }

    // ---------------------------------------------------------------- emit
    let chars: Vec<String> = lit.chars().map(|c| format!("'{c}'")).collect();
    let mut b = String::from("namespace Kanidm.Gen.OAuth2Authz\n");
    b += &format!("/-! `enum ResponseType` ({}) and `enum ResponseMode` ({}) by declaration index. -/\n", rtypes.join(", "), rmodes.join(", "));
    b += &format!("def responseTypeCount : Nat := {}\ndef responseModeCount : Nat := {}\n", rtypes.len(), rmodes.len());
    b += &format!("/-- the variant of `{}` -/\ndef requiredResponseType : Nat := {}\n", cs[0], rtypes.iter().position(|x| x == "Code").unwrap());
    b += "/-- `AuthorisationRequest::get_response_mode`, expanded by first match: ((response_mode, response_type), result). -/\n";
    b += "def getResponseModeTable : List ((Option Nat × Nat) × Option Nat) :=\n  [";
    b += &table.chunks(3).map(|c| c.join(", ")).collect::<Vec<_>>().join(",\n   ");
    b += "]\n";
    b += "/-- `match response_mode`: ResponseMode ↦ SupportedResponseMode (0 = Query, 1 = Fragment); `none` = `return Err (Oauth2Error :: InvalidRequest)`. -/\n";
    b += &format!(
        "def supportedModeTable : List (Nat × Option Nat) := [{}]\n",
        smode_rows.iter().map(|(i, r)| format!("({i}, {})", r.map(|x| format!("some {x}")).unwrap_or("none".into()))).collect::<Vec<_>>().join(", ")
    );
    b += &format!("/-- `{}` -/\ndef promptTooMany (len : Nat) : Bool := {prompt_too_many}\n", cs[1]);
    b += &format!("/-- `{}` -/\ndef promptNoneConflict (hasNone : Bool) (len : Nat) : Bool := {prompt_none_conflict}\n", cs[3]);
    b += &format!("/-- `auth_req_uri_is_loopback && type_allows_localhost_redirect` -/\ndef loopbackUriMatched (isLoopback typeAllows : Bool) : Bool := {loopback_matched}\n");
    b += &format!("/-- `{}` -/\ndef redirectOriginIsSecure (opaqueMatched isLoopback https : Bool) : Bool := {secure}\n", toks(&secure_e));
    b += &format!("/-- `{}` -/\ndef validMatchCondition (loopbackMatched strictMatched opaqueMatched : Bool) : Bool := {valid}\n", toks(&valid_e));
    b += &format!("/-- `{}` -/\ndef insecureOriginRejected (secureRequired isSecure : Bool) : Bool := {insecure}\n", cs[6]);
    b += &format!("/-- `{}` -/\ndef pkceMethodRejected (isS256 : Bool) : Bool := {pkce_rejected}\n", cs[9]);
    b += &format!("/-- `{}` -/\ndef isAnonymous (uuid anonymous : Nat) : Bool := {is_anon}\n", cs[17]);
    b += &format!("/-- `! req_scopes . is_subset (& available_scopes)` -/\ndef scopesDenied (isSubset : Bool) : Bool := {scopes_denied}\n");
    b += &format!(
        "/-- `(! consent_previously_granted || (! o2rs . is_basic () && loopback_uri_matched)) && o2rs . enable_consent_prompt ()` -/\ndef consentRequired (previouslyGranted isBasic loopbackMatched promptEnabled : Bool) : Bool := {consent_required}\n"
    );
    b += &format!("/-- `m . clamp (0 , OAUTH2_OIDC_MAX_AGE_CLAMP)` -/\ndef maxAgeClampLow : Int := 0\ndef maxAgeClampHigh : Int := {clamp}\n");
    b += &format!("/-- `{}` -/\ndef maxAgeForcesReauth (maxAge : Int) : Bool := {forces}\n", cs[14]);
    b += &format!("/-- `at > odt_prompt_deadline` -/\ndef recentlyValidated (authTime deadline : Int) : Bool := {recently}\n");
    b += &format!(
        "/-- `ct . as_secs () + {code_expiry}` (exchange code), `ct . as_secs () + {consent_expiry}` (consent token), `ct . as_secs () + {permit_expiry}` (permit) -/\ndef codeExpirySecs : Nat := {code_expiry}\ndef consentExpirySecs : Nat := {consent_expiry}\ndef permitCodeExpirySecs : Nat := {permit_expiry}\n"
    );
    b += &format!("/-- `consent_req . expiry <= ct . as_secs ()` -/\ndef consentTokenExpired (expiry now : Nat) : Bool := {token_expired}\n");
    b += "/-! `OauthRSType` / `Oauth2RS` per-type tables (arm `Basic { .. }`, arm `Public { .. }`). -/\n";
    for (name, bb, pp) in [("allowLocalhostRedirect", &alr_b, &alr_p), ("requirePkce", &rp_b, &rp_p), ("enableConsentPrompt", &cp_b, &cp_p), ("isBasic", &ib_b, &ib_p)] {
        b += &format!("def {name}Basic (enablePkce enableConsentPrompt : Bool) : Bool := {bb}\n");
        b += &format!("def {name}Public (allowLocalhostRedirect : Bool) : Bool := {pp}\n");
    }
    b += "/-! `reload`: how the entry's optional flags become the type's fields. -/\n";
    let doc = |a: &str, n: bool, d: bool| format!("/-- `{a}` `{}. unwrap_or ({d})` -/\n", if n { ". map (| e | ! e) " } else { "" });
    b += &doc(&a1, n1, d1);
    b += &format!("def enablePkceOfFlag (flag : Option Bool) : Bool := {}\n", lean_flag(n1, d1));
    b += &doc(&a2, n2, d2);
    b += &format!("def enableConsentPromptOfFlag (flag : Option Bool) : Bool := {}\n", lean_flag(n2, d2));
    b += &doc(&a3, n3, d3);
    b += &format!("def allowLocalhostRedirectOfFlag (flag : Option Bool) : Bool := {}\n", lean_flag(n3, d3));
    b += &format!("/-- `Host :: Domain (domain) => * domain == \"{lit}\"` -/\ndef localhostName : List Char := [{}]\n", chars.join(", "));
    b += "/-- the outcomes of `check_oauth2_authorisation` in source order (pinned; any other sequence is a translation error) -/\n";
    b += &format!("def authoriseReturns : List String :=\n  [{}]\n", seq.iter().map(|s| format!("\"{s}\"")).collect::<Vec<_>>().join(", "));
    b += "end Kanidm.Gen.OAuth2Authz\n";
    write_generated(
        out,
        "OAuth2AuthzOps",
        "server/lib/src/idm/oauth2.rs (check_oauth2_authorisation, check_oauth2_authorise_permit, process_requested_scopes_for_identity, host_is_local, OauthRSType, Oauth2RS, reload), proto/src/oauth2.rs (get_response_mode), constants",
        &b,
    )?;
    Ok(format!(
        "OAuth2AuthzOps: {} conditions, {} outcomes pinned; expiries {code_expiry}/{consent_expiry}/{permit_expiry}; clamp {clamp}; localhost literal {lit:?}",
        cs.len(),
        seq.len()
    ))
}
